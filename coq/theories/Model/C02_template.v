(* Model/C02_template.v -- executable model of typhon.files.fileset.FileSet
     get_filename / _fill_placeholders + re.match / parse_filename / _to_datetime_args /
     _standardise_datetime_args / _retrieve_time_coverage / _get_superior_time_resolution / get_info
     and FileInfo.update (handlers/common.py).                         DEFINITIONS ONLY.

   A template is a token list.  `render` mirrors get_filename (str.format with zero padded fields),
   `matcher` is a backtracking matcher with the priority semantics of Python's `re` for the regexes
   _fill_placeholders produces from such a template (literals verbatim, `\d{n}` for temporal fields,
   lazy `.+?` for user placeholders, ordered alternation for value lists, lazy `.*?` for `*`, `$` also
   matching before one trailing newline; a repeated placeholder matches its regex again without
   capturing -- after fix C02_1 as the non-capturing group `(?:...)`), `retrieve` mirrors the time
   arithmetic and `info` mirrors get_info. *)
From Coq Require Import ZArith List Bool Ascii String.
From Typhon Require Import Base.Calendar.
Import ListNotations.
Open Scope Z_scope.

Definition str := list ascii.
Definition s2l (s : string) : str := list_ascii_of_string s.
Definition l2s (l : str) : string := string_of_list_ascii l.

Inductive err := ENoMatch | EValue | EType | EKey | EOverflow | EUnknown | EUnfilled.
Inductive result (A : Type) := Ok (a : A) | Error (e : err).
Arguments Ok {A} a. Arguments Error {A} e.
Definition bind {A B} (r : result A) (f : A -> result B) : result B :=
  match r with Ok a => f a | Error e => Error e end.

(* ------------------------------------------------------------------ templates *)

Inductive tfield := FYear | FYear2 | FMonth | FDay | FDoy | FHour | FMinute | FSecond
                  | FDeci | FCenti | FMilli | FMicro.
(* the regex of a user placeholder: `.+?` (default), a value list `a|b|c`, `\d{n}`;
   None = the placeholder is not registered (parse_filename with an explicit template) *)
Inductive ukind := UAny | UAlts (vs : list str) | UDigits (n : nat).
Inductive tok := Lit (s : str) | T (end_ : bool) (f : tfield) | U (name : str) (k : option ukind) | Star.
Inductive key := KT (end_ : bool) (f : tfield) | KU (name : str).

Definition tfield_eqb (a b : tfield) : bool :=
  match a, b with
  | FYear, FYear | FYear2, FYear2 | FMonth, FMonth | FDay, FDay | FDoy, FDoy | FHour, FHour
  | FMinute, FMinute | FSecond, FSecond | FDeci, FDeci | FCenti, FCenti | FMilli, FMilli
  | FMicro, FMicro => true
  | _, _ => false
  end.
Fixpoint str_eqb (a b : str) : bool :=
  match a, b with
  | [], [] => true
  | x :: a', y :: b' => Ascii.eqb x y && str_eqb a' b'
  | _, _ => false
  end.
Definition key_eqb (a b : key) : bool :=
  match a, b with
  | KT e f, KT e' f' => Bool.eqb e e' && tfield_eqb f f'
  | KU n, KU n' => str_eqb n n'
  | _, _ => false
  end.

(* FileSet._time_placeholder: the width n of `\d{n}` *)
Definition width (f : tfield) : nat :=
  match f with
  | FYear => 4 | FYear2 => 2 | FMonth => 2 | FDay => 2 | FDoy => 3 | FHour => 2 | FMinute => 2
  | FSecond => 2 | FDeci => 1 | FCenti => 2 | FMilli => 3 | FMicro => 6
  end%nat.
Definition year2_threshold : Z := 65.

Definition field_name (f : tfield) : string :=
  match f with
  | FYear => "year" | FYear2 => "year2" | FMonth => "month" | FDay => "day" | FDoy => "doy"
  | FHour => "hour" | FMinute => "minute" | FSecond => "second" | FDeci => "decisecond"
  | FCenti => "centisecond" | FMilli => "millisecond" | FMicro => "microsecond"
  end%string.
Definition key_name (k : key) : string :=
  match k with
  | KT false f => field_name f
  | KT true f => ("end_" ++ field_name f)%string
  | KU n => l2s n
  end.
Definition all_fields : list tfield :=
  [FYear; FYear2; FMonth; FDay; FDoy; FHour; FMinute; FSecond; FDeci; FCenti; FMilli; FMicro].
(* the tables the harness compares with the tree under test *)
Definition tables : list (string * Z) * Z * list Z :=
  (map (fun f => (field_name f, Z.of_nat (width f))) all_fields, year2_threshold,
   map period [RYear; RMonth; RDay; RHour; RMinute; RSecond] ++ [100000; 10000; 1000; 1]).

(* ------------------------------------------------------------------ characters and digits *)

Definition nl : ascii := ascii_of_nat 10.
Definition is_nl (a : ascii) : bool := Ascii.eqb a nl.
Definition mem_char (a : ascii) (s : str) : bool := existsb (Ascii.eqb a) s.
(* FileSet._special_chars (on posix): a generated name containing one of them is "unfilled" *)
Definition special_chars : str := s2l "{*[<(?!|\".
(* further characters that are regex syntax in a template (documented: templates may contain
   restricted regular expressions); a dot is masked by _fill_placeholders and is a plain character *)
Definition regex_chars : str := s2l "^$+)]}".
Definition plain_char (a : ascii) : bool :=
  negb (is_nl a) && negb (mem_char a special_chars) && negb (mem_char a regex_chars).

Definition digit_char (d : Z) : ascii := ascii_of_nat (48 + Z.to_nat d).
Definition is_digit (a : ascii) : bool :=
  let n := nat_of_ascii a in (48 <=? n)%nat && (n <=? 57)%nat.
Definition digit_val (a : ascii) : Z := Z.of_nat (nat_of_ascii a) - 48.

(* exactly w decimal digits of z (the last w ones) *)
Fixpoint fixw (w : nat) (z : Z) : str :=
  match w with O => [] | S w' => fixw w' (z / 10) ++ [digit_char (z mod 10)] end.
Fixpoint to_int_acc (acc : Z) (s : str) : Z :=
  match s with [] => acc | a :: s' => to_int_acc (acc * 10 + digit_val a) s' end.
Definition to_int (s : str) : Z := to_int_acc 0 s.              (* int(value) on a digit string *)

(* "{:0wd}".format(z) for 0 <= z: at least w digits *)
Definition pad (w : nat) (z : Z) : str :=
  if z <? 10 then fixw (Nat.max w 1) z else if z <? 100 then fixw (Nat.max w 2) z
  else if z <? 1000 then fixw (Nat.max w 3) z else if z <? 10000 then fixw (Nat.max w 4) z
  else fixw (Nat.max w 6) z.

(* ------------------------------------------------------------------ get_filename *)

Definition fval (f : tfield) (d : dt) : Z :=
  match f with
  | FYear => year d | FYear2 => year d | FMonth => month d | FDay => day d
  | FDoy => doy_of (year d) (month d) (day d)
  | FHour => hour d | FMinute => minute d | FSecond => second d
  | FMilli => micro d / 1000 | FDeci | FCenti | FMicro => 0
  end.

(* the text get_filename substitutes for a temporal placeholder; None = KeyError (not offered) *)
Definition field_text (f : tfield) (d : dt) : option str :=
  match f with
  | FYear => Some (pad 1 (year d))                                     (* year=start_time.year *)
  | FYear2 => Some (if year d <? 10 then pad 1 (year d) else fixw 2 (year d))   (* str(year)[-2:] *)
  | FMonth | FDay | FHour | FMinute | FSecond => Some (pad 2 (fval f d))
  | FDoy | FMilli => Some (pad 3 (fval f d))
  | FDeci | FCenti | FMicro => None
  end.

Fixpoint lookup {A} (k : key) (b : list (key * A)) : option A :=
  match b with [] => None | (k', v) :: b' => if key_eqb k k' then Some v else lookup k b' end.

Fixpoint join (sep : str) (vs : list str) : str :=
  match vs with [] => [] | [v] => v | v :: vs' => v ++ sep ++ join sep vs' end.
(* the default filling of a user placeholder: its regex without the group capturing *)
Definition default_fill (k : ukind) : str :=
  match k with
  | UAny => s2l ".+?"
  | UAlts vs => join (s2l "|") vs
  | UDigits n => s2l "\d{" ++ pad 1 (Z.of_nat n) ++ s2l "}"
  end.

(* the text of one token; for placeholders together with the key it is recorded under *)
Definition piece (s e : dt) (fill : list (key * str)) (t : tok) : result (option key * str) :=
  match t with
  | Lit l => Ok (None, l)
  | T en f => match field_text f (if en then e else s) with
              | Some x => Ok (Some (KT en f), x) | None => Error EUnknown end
  | U name k => match lookup (KU name) fill with
                | Some v => Ok (Some (KU name), v)
                | None => match k with Some k' => Ok (Some (KU name), default_fill k')
                                     | None => Ok (Some (KU name), s2l ".+?") end
                end
  | Star => Ok (None, s2l "*")
  end.

Fixpoint pieces (s e : dt) (fill : list (key * str)) (tp : list tok) : result (list (option key * str)) :=
  match tp with
  | [] => Ok []
  | t :: tp' => bind (piece s e fill t) (fun p => bind (pieces s e fill tp') (fun ps => Ok (p :: ps)))
  end.

Definition text_of (ps : list (option key * str)) : str := List.concat (map snd ps).
Fixpoint binds_of (ps : list (option key * str)) : list (key * str) :=
  match ps with
  | [] => []
  | (Some k, v) :: ps' => (k, v) :: binds_of ps'
  | (None, _) :: ps' => binds_of ps'
  end.

Definition render_dt (tp : list tok) (s e : dt) (fill : list (key * str)) : result str :=
  bind (pieces s e fill tp) (fun ps =>
    let n := text_of ps in
    if existsb (fun c => mem_char c special_chars) n then Error EUnfilled else Ok n).
Definition render (tp : list tok) (s e : Z) (fill : list (key * str)) : result str :=
  render_dt tp (fields s) (fields e) fill.

(* ------------------------------------------------------------------ re.match on the template regex *)

Fixpoint strip (l s : str) : option str :=
  match l with
  | [] => Some s
  | a :: l' => match s with b :: s' => if Ascii.eqb a b then strip l' s' else None | [] => None end
  end.

Fixpoint take_digits (n : nat) (s : str) : option (str * str) :=
  match n with
  | O => Some ([], s)
  | S n' => match s with
            | a :: s' => if is_digit a
                         then match take_digits n' s' with Some (d, r) => Some (a :: d, r) | None => None end
                         else None
            | [] => None
            end
  end.

(* lazy repetition of `.`: the shortest extension of acc for which the continuation succeeds *)
Fixpoint lazy {B} (k : str -> option B) (acc : str) (s : str) : option (str * B) :=
  match k s with
  | Some b => Some (acc, b)
  | None => match s with
            | a :: s' => if is_nl a then None else lazy k (acc ++ [a]) s'
            | [] => None
            end
  end.

(* ordered alternation of literal values *)
Fixpoint alts {B} (k : str -> option B) (vs : list str) (s : str) : option (str * B) :=
  match vs with
  | [] => None
  | v :: vs' => match strip v s with
                | Some r => match k r with Some b => Some (v, b) | None => alts k vs' s end
                | None => alts k vs' s
                end
  end.

Definition bindk {B} (k : key) (r : option (str * list (key * B))) (f : str -> B) : option (list (key * B)) :=
  match r with Some (v, b) => Some ((k, f v) :: b) | None => None end.

(* every placeholder occurrence with the text it matched, in template order *)
Fixpoint matcher (tp : list tok) (s : str) : option (list (key * str)) :=
  match tp with
  | [] => match s with [] => Some [] | [a] => if is_nl a then Some [] else None | _ => None end
  | Lit l :: tp' => match strip l s with Some r => matcher tp' r | None => None end
  | T e f :: tp' => match take_digits (width f) s with
                    | Some (d, r) => bindk (KT e f) (option_map (pair d) (matcher tp' r)) (fun v => v)
                    | None => None
                    end
  | U name (Some UAny) :: tp' =>
      match s with
      | a :: s' => if is_nl a then None else bindk (KU name) (lazy (matcher tp') [a] s') (fun v => v)
      | [] => None
      end
  | U name (Some (UAlts vs)) :: tp' => bindk (KU name) (alts (matcher tp') vs s) (fun v => v)
  | U name (Some (UDigits n)) :: tp' =>
      match take_digits n s with
      | Some (d, r) => bindk (KU name) (option_map (pair d) (matcher tp' r)) (fun v => v)
      | None => None
      end
  | U name None :: _ => None
  | Star :: tp' => option_map snd (lazy (matcher tp') [] s)
  end.

(* groupdict(): only the first occurrence of a placeholder captures *)
Fixpoint first_only (b : list (key * str)) : list (key * str) :=
  match b with
  | [] => []
  | (k, v) :: b' => (k, v) :: filter (fun kv => negb (key_eqb k (fst kv))) (first_only b')
  end.

Definition unknown_tok (t : tok) : bool := match t with U _ None => true | _ => false end.

(* parse_filename: Error EUnknown = UnknownPlaceholderError, Error ENoMatch = ValueError *)
Definition parse (tp : list tok) (n : str) : result (list (key * str)) :=
  if existsb unknown_tok tp then Error EUnknown
  else match matcher tp n with Some b => Ok (first_only b) | None => Error ENoMatch end.

(* ------------------------------------------------------------------ placeholders -> datetimes *)

(* keyword arguments of datetime(...) *)
Record dargs := DA { d_year : option Z; d_month : option Z; d_day : option Z; d_hour : option Z;
                     d_minute : option Z; d_second : option Z; d_micro : option Z }.

Definition args_of (en : bool) (b : list (key * str)) (f : tfield) : option Z :=
  option_map to_int (lookup (KT en f) b).
Definition has_args (a : tfield -> option Z) : bool :=
  existsb (fun f => match a f with Some _ => true | None => false end) all_fields.
Definition oz (o : option Z) : Z := match o with Some z => z | None => 0 end.
Definition is_some {A} (o : option A) : bool := match o with Some _ => true | None => false end.

(* _standardise_datetime_args *)
Definition standardise (a : tfield -> option Z) : result dargs :=
  let yr := match a FYear2 with
            | Some y2 => Some (if y2 <? year2_threshold then 2000 + y2 else 1900 + y2)
            | None => a FYear end in
  let us := if is_some (a FDeci) || is_some (a FCenti) || is_some (a FMilli) || is_some (a FMicro)
            then Some (100000 * oz (a FDeci) + 10000 * oz (a FCenti) + 1000 * oz (a FMilli) + oz (a FMicro))
            else None in
  match a FDoy with
  | None => Ok (DA yr (a FMonth) (a FDay) (a FHour) (a FMinute) (a FSecond) us)
  | Some n =>
      match yr with
      | None => Error EKey                                        (* args["year"] *)
      | Some y =>
          if (1 <=? y) && (y <=? 9999)
          then match of_doy y n with
               | Some (m, d) => Ok (DA yr (Some m) (Some d) (a FHour) (a FMinute) (a FSecond) us)
               | None => Error EOverflow
               end
          else Error EValue                                       (* datetime(year, 1, 1) *)
      end
  end.

Definition da_nonempty (d : dargs) : bool :=
  is_some (d_year d) || is_some (d_month d) || is_some (d_day d) || is_some (d_hour d)
  || is_some (d_minute d) || is_some (d_second d) || is_some (d_micro d).
Definition orelse {A} (a b : option A) : option A := match a with Some _ => a | None => b end.
(* {**start_args, **end_args} *)
Definition da_override (s e : dargs) : dargs :=
  DA (orelse (d_year e) (d_year s)) (orelse (d_month e) (d_month s)) (orelse (d_day e) (d_day s))
     (orelse (d_hour e) (d_hour s)) (orelse (d_minute e) (d_minute s))
     (orelse (d_second e) (d_second s)) (orelse (d_micro e) (d_micro s)).
(* datetime(kwargs): TypeError without year, month, day; ValueError out of range *)
Definition mk_args (d : dargs) : result Z :=
  match d_year d, d_month d, d_day d with
  | Some y, Some m, Some dd =>
      match mk y m dd (oz (d_hour d)) (oz (d_minute d)) (oz (d_second d)) (oz (d_micro d)) with
      | Some t => Ok t | None => Error EValue end
  | _, _, _ => Error EType
  end.

(* _get_superior_time_resolution of the end placeholders of the path: index in _temporal_resolution
   (year 0, month 1, day 2, hour 3, minute 4, second 5, deci 6, centi 7, milli 8, micro 9) *)
Definition res_index (f : tfield) : option nat :=
  match f with
  | FYear => Some 0 | FMonth => Some 1 | FDay => Some 2 | FHour => Some 3 | FMinute => Some 4
  | FSecond => Some 5 | FDeci => Some 6 | FCenti => Some 7 | FMilli => Some 8 | FMicro => Some 9
  | FYear2 | FDoy => None
  end%nat.
Definition res_table : list Z :=
  [366 * us_day; 31 * us_day; us_day; us_hour; us_minute; us_second; 100000; 10000; 1000; 1].
Definition end_fields (tp : list tok) : list tfield :=
  flat_map (fun t => match t with T true f => [f] | _ => [] end) tp.
Definition start_fields (tp : list tok) : list tfield :=
  flat_map (fun t => match t with T false f => [f] | _ => [] end) tp.
Fixpoint min_index (fs : list tfield) : option nat :=
  match fs with
  | [] => None
  | f :: fs' => match res_index f, min_index fs' with
                | Some i, Some j => Some (Nat.min i j)
                | Some i, None => Some i
                | None, r => r
                end
  end.
Definition superior (tp : list tok) : option Z :=
  match min_index (end_fields tp) with
  | None | Some O => None
  | Some (S i) => nth_error res_table i
  end.

(* _retrieve_time_coverage on the dictionary of matched placeholders *)
Definition retrieve (tp : list tok) (b : list (key * str)) : result (option Z * option Z) :=
  match b with
  | [] => Ok (None, None)
  | _ =>
    bind (standardise (args_of false b)) (fun sa =>
    if da_nonempty sa && negb (is_some (d_year sa) || is_some (d_month sa) || is_some (d_day sa))
    then Error EValue else
    bind (standardise (args_of true b)) (fun ea =>
    bind (if da_nonempty sa then bind (mk_args sa) (fun t => Ok (Some t)) else Ok None) (fun st =>
    if da_nonempty ea then
      bind (mk_args (da_override sa ea)) (fun en =>
      match st with
      | None => Error EType                                   (* end_date < None *)
      | Some s0 =>
          if en <? s0 then
            match superior tp with
            | None => Error EType                             (* end_date += None *)
            | Some d => match add en d with Some r => Ok (st, Some r) | None => Error EOverflow end
            end
          else Ok (st, Some en)
      end)
    else Ok (st, None))))
  end.

(* ------------------------------------------------------------------ get_info *)

Inductive via := ViaFilename | ViaHandler | ViaBoth.
Record cfg := Cfg { info_via : via; coverage : option Z;              (* time_coverage as timedelta *)
                    h_start : option Z; h_end : option Z; h_attr : list (str * str) }.  (* handler.get_info *)

Definition user_attrs (b : list (key * str)) : list (str * str) :=
  flat_map (fun kv => match fst kv with KU n => [(n, snd kv)] | KT _ _ => [] end) b.
(* dict.update *)
Definition upd_attrs (old new : list (str * str)) : list (str * str) :=
  filter (fun kv => negb (existsb (fun kv' => str_eqb (fst kv) (fst kv')) new)) old ++ new.

Definition finish (c : cfg) (st en : option Z) (attrs : list (str * str)) : result (Z * Z * list (str * str)) :=
  match st, en with
  | None, None => Ok (0, dt_max - 1, attrs)
  | None, Some _ => Error EValue
  | Some s, None => match coverage c with
                    | Some d => match add s d with Some r => Ok (s, r, attrs) | None => Error EOverflow end
                    | None => Ok (s, s, attrs)
                    end
  | Some s, Some e => Ok (s, e, attrs)
  end.

Definition info (c : cfg) (tp : list tok) (n : str) : result (Z * Z * list (str * str)) :=
  bind (match info_via c with
        | ViaHandler => Ok (None, None, [])
        | _ => bind (parse tp n) (fun b => bind (retrieve tp b) (fun se => Ok (fst se, snd se, user_attrs b)))
        end) (fun fi =>
  let '(st, en, attrs) := fi in
  match info_via c with
  | ViaFilename => finish c st en attrs
  | _ => finish c (orelse (h_start c) st) (orelse (h_end c) en) (upd_attrs attrs (h_attr c))
  end).

(* ------------------------------------------------------------------ the template class of the property *)

(* can the regex of token t start with character a? (conservative: true when unsure) *)
Definition can_start (t : tok) (a : ascii) : bool :=
  match t with
  | Lit [] => true
  | Lit (c :: _) => Ascii.eqb a c
  | T _ _ => is_digit a
  | U _ (Some (UDigits (S _))) => is_digit a
  | U _ (Some (UAlts vs)) => existsb (fun v => match v with c :: _ => Ascii.eqb a c | [] => true end) vs
  | _ => true
  end.
Definition cannot_follow (tp : list tok) (a : ascii) : bool :=
  match tp with [] => negb (is_nl a) | t :: _ => negb (can_start t a) end.

Fixpoint is_prefix (p s : str) : bool :=
  match p, s with
  | [], _ => true
  | a :: p', b :: s' => Ascii.eqb a b && is_prefix p' s'
  | _ :: _, [] => false
  end.
Fixpoint prefix_free (vs : list str) : bool :=
  match vs with
  | [] => true
  | v :: vs' => forallb (fun w => negb (is_prefix v w) && negb (is_prefix w v)) vs' && prefix_free vs'
  end.

(* the deterministic template class: plain literals, no `*`, every user placeholder registered and
   filled with a value of its regex's language that the following token cannot continue *)
Fixpoint deterministic (fill : list (key * str)) (tp : list tok) : bool :=
  match tp with
  | [] => true
  | t :: tp' =>
      deterministic fill tp' &&
      match t with
      | Lit l => forallb plain_char l
      | T _ f => match f with FDeci | FCenti | FMicro => false | _ => true end
      | Star => false
      | U name None => false
      | U name (Some k) =>
          match lookup (KU name) fill with
          | None => false
          | Some v =>
              forallb plain_char v &&
              match k with
              | UAny => negb (match v with [] => true | _ => false end)
                        && forallb (cannot_follow tp') v
              | UAlts vs => existsb (str_eqb v) vs && prefix_free vs
              | UDigits n => forallb is_digit v && Nat.eqb (List.length v) n
              end
          end
      end
  end.

Definition has (f : tfield) (fs : list tfield) : bool := existsb (tfield_eqb f) fs.
(* the start is spelt by year or year2 and by month+day or doy *)
Definition has_date (fs : list tfield) : bool :=
  (has FYear fs || has FYear2 fs) && ((has FMonth fs && has FDay fs) || has FDoy fs).
(* 1965-2064 for two-digit years, 1000-9999 for four-digit years *)
Definition in_range (fs : list tfield) (d : dt) : bool :=
  if has FYear2 fs then (1900 + year2_threshold <=? year d) && (year d <=? 1999 + year2_threshold)
  else (1000 <=? year d).
(* every field that is not spelt is at its reset value *)
Definition at_resolution (fs : list tfield) (d : dt) : bool :=
  (has FHour fs || (hour d =? 0)) && (has FMinute fs || (minute d =? 0)) &&
  (has FSecond fs || (second d =? 0)) &&
  (if has FMilli fs then micro d mod 1000 =? 0 else micro d =? 0).
Definition no_parse_only (fs : list tfield) : bool :=
  negb (has FDeci fs || has FCenti fs || has FMicro fs).

(* the end is spelt as completely as the start *)
Definition end_full (tp : list tok) : bool :=
  let sf := start_fields tp in let ef := end_fields tp in
  has_date ef &&
  forallb (fun f => negb (has f sf) || has f ef) [FHour; FMinute; FSecond; FMilli].
(* only end_hour / end_minute / end_second ... : a sub-day suffix *)
Definition subday (f : tfield) : bool :=
  match f with FHour | FMinute | FSecond | FMilli => true | _ => false end.
Definition end_partial (tp : list tok) : bool :=
  let ef := end_fields tp in
  negb (match ef with [] => true | _ => false end) && forallb subday ef &&
  (has FHour ef || has FMinute ef || has FSecond ef).

(* what the property promises for the end when only sub-day end fields are written:
   the spelt fields of e, every other field from s, moved on by the unit above the coarsest
   spelt end field when that would precede s *)
Definition complete (tp : list tok) (s e : dt) : option Z :=
  let ef := end_fields tp in
  mk (year s) (month s) (day s)
     (if has FHour ef then hour e else hour s) (if has FMinute ef then minute e else minute s)
     (if has FSecond ef then second e else second s)
     (if has FMilli ef then micro e / 1000 * 1000 else micro s).
Definition unit_above (tp : list tok) : Z :=
  let ef := end_fields tp in
  if has FHour ef then us_day else if has FMinute ef then us_hour else us_minute.
Definition roll (u s c : Z) : Z := if c <? s then c + u else c.

(* the exact class of the partial-end clause: below the unit by which the end is rolled forward (the coarsest
   spelt end field and everything finer) the end spells every field the start spells, and e has nothing in
   the fields that are not spelt *)
Definition sub_unit_fields (tp : list tok) : list tfield :=
  let ef := end_fields tp in
  if has FHour ef then [FHour; FMinute; FSecond; FMilli]
  else if has FMinute ef then [FMinute; FSecond; FMilli] else [FSecond; FMilli].
Definition end_exact (tp : list tok) (de : dt) : bool :=
  let sf := start_fields tp in let ef := end_fields tp in
  forallb (fun f => (negb (has f sf) || has f ef) && (has f ef || (fval f de =? 0))) (sub_unit_fields tp)
  && (micro de mod 1000 =? 0).

(* ------------------------------------------------------------------ the names a template denotes *)

Definition no_nl (v : str) : bool := forallb (fun a => negb (is_nl a)) v.
Definition key_of (t : tok) : option key :=
  match t with T e f => Some (KT e f) | U n _ => Some (KU n) | _ => None end.
(* the language of one placeholder's regex: \d{n}, .+?, a|b|c *)
Definition in_lang (t : tok) (v : str) : bool :=
  match t with
  | T _ f => Nat.eqb (List.length v) (width f) && forallb is_digit v
  | U _ (Some UAny) => negb (match v with [] => true | _ => false end) && no_nl v
  | U _ (Some (UAlts vs)) => existsb (str_eqb v) vs
  | U _ (Some (UDigits n)) => Nat.eqb (List.length v) n && forallb is_digit v
  | _ => false
  end.
(* the text of the template when its placeholder occurrences are replaced, in order, by the words b (each under
   the occurrence's own key and in the language of its regex) and its `*` by the newline-free words ws *)
Fixpoint assemble (tp : list tok) (b : list (key * str)) (ws : list str) : option str :=
  match tp with
  | [] => match b, ws with [], [] => Some [] | _, _ => None end
  | Lit l :: tp' => option_map (app l) (assemble tp' b ws)
  | Star :: tp' => match ws with
                   | w :: ws' => if no_nl w then option_map (app w) (assemble tp' b ws') else None
                   | [] => None
                   end
  | t :: tp' => match b with
                | (k, v) :: b' =>
                    if match key_of t with Some k' => key_eqb k k' | None => false end && in_lang t v
                    then option_map (app v) (assemble tp' b' ws) else None
                | [] => None
                end
  end.
(* n is an instance of the template with the occurrence strings b (`$` also matches before one final newline) *)
Definition is_instance (tp : list tok) (b : list (key * str)) (n : str) : Prop :=
  exists ws n0, assemble tp b ws = Some n0 /\ (n = n0 \/ n = n0 ++ [nl]).

(* ------------------------------------------------------------------ entry points for the harness *)

Definition out_binds (b : list (key * str)) : list (string * string) :=
  map (fun kv => (key_name (fst kv), l2s (snd kv))) b.
Definition out_attrs (b : list (str * str)) : list (string * string) :=
  map (fun kv => (l2s (fst kv), l2s (snd kv))) b.
Definition in_fill (f : list (string * string)) : list (key * str) :=
  map (fun kv => (KU (s2l (fst kv)), s2l (snd kv))) f.

Definition run_render (tp : list tok) (s e : Z) (fill : list (string * string)) : result string :=
  bind (render tp s e (in_fill fill)) (fun n => Ok (l2s n)).
Definition run_parse (tp : list tok) (n : string) : result (list (string * string)) :=
  bind (parse tp (s2l n)) (fun b => Ok (out_binds b)).
Definition run_info (c : cfg) (tp : list tok) (n : string) : result (Z * Z * list (string * string)) :=
  bind (info c tp (s2l n)) (fun r => let '(s, e, a) := r in Ok (s, e, out_attrs a)).

(* the hypotheses of the theorems as booleans:
   (deterministic, start ok, end spelt fully and e ok, end partial and e ok) *)
Definition hyps (tp : list tok) (s e : Z) (fill : list (string * string)) : bool * bool * bool * bool :=
  let sf := start_fields tp in let ef := end_fields tp in
  let ds := fields s in let de := fields e in
  (deterministic (in_fill fill) tp,
   validb s && validb e && (s <=? e) && has_date sf && in_range sf ds && at_resolution sf ds
   && no_parse_only sf && no_parse_only ef,
   end_full tp && in_range ef de && at_resolution ef de,
   end_partial tp).
(* the end the property promises in the partial case (None when not constructible) *)
Definition promised_partial (tp : list tok) (s e : Z) : option Z :=
  option_map (roll (unit_above tp) s) (complete tp (fields s) (fields e)).
(* the hypotheses of end_partial_exact: sub-day end kind, exact class, 0 <= e - s < unit *)
Definition exact_hyp (tp : list tok) (s e : Z) : bool :=
  end_partial tp && end_exact tp (fields e) && (0 <=? e - s) && (e - s <? unit_above tp).
(* a certificate that n is an instance of the template: the occurrence strings b and the `*` words ws found by the
   harness are checked by `assemble`; returned with the dictionary they stand for *)
Definition run_instance (tp : list tok) (b : list (key * string)) (ws : list string) (n : string)
  : bool * list (string * string) :=
  let b' := map (fun kv => (fst kv, s2l (snd kv))) b in
  (match assemble tp b' (map s2l ws) with
   | Some n0 => str_eqb (s2l n) n0 || str_eqb (s2l n) (n0 ++ [nl])
   | None => false
   end, out_binds (first_only b')).
