(* C13 -- the statistics of collapse as real-valued functions (definitions only).
     typhon/collocations/common.py  collapse, 336-343 and 420-423:
       collapser = {"mean": lambda m, a: np.nanmean(m, axis=a), "std": lambda m, a: np.nanstd(m, axis=a),
                    "number": lambda m, a: np.count_nonzero(~np.isnan(m), axis=a), **collapser}
       for func_name, func in collapser.items(): collapsed[f"{var_name}_{func_name}"] = func(binned_data, 0)
   A scalar is `option R`: None = NaN (the padding of the bin matrix and NaNs in the data alike, see cell_view in
   Model/C13_compact.v).  numpy: nanmean = sum of the non-NaN values / their number, NaN when there is none;
   nanstd (ddof = 0) = sqrt (sum of the squared deviations from that mean / their number), NaN when there is none;
   count_nonzero(~isnan) = their number. *)
From Coq Require Import String.
From Coq Require Import Arith List Bool Reals.
From Typhon Require Import Model.C13_compact.
Import ListNotations.

Local Open Scope R_scope.
Definition sumR (v : list R) : R := fold_right Rplus 0 v.
Definition mean (v : list R) : R := sumR v / INR (length v).
Definition pstd (v : list R) : R :=
  sqrt (sumR (map (fun x => (x - mean v) * (x - mean v)) v) / INR (length v)).
Definition nanmean (l : list (option R)) : option R :=
  match somes l with [] => None | v => Some (mean v) end.
Definition nanstd (l : list (option R)) : option R :=
  match somes l with [] => None | v => Some (pstd v) end.

(* the value of one output field at one reference point and lane: a float (None = NaN) or an integer count *)
Inductive out : Type := Fl (x : option R) | Cnt (k : nat).
Definition collapser := list (option R) -> out.
Definition default_collapsers : dict collapser :=
  [("mean"%string, fun l => Fl (nanmean l));
   ("std"%string, fun l => Fl (nanstd l));
   ("number"%string, fun l => Cnt (count l))].
Definition effective_collapsers (custom : dict collapser) : dict collapser := merge default_collapsers custom.

(* one lane f of one variable of the non-reference group: {function name -> one value per reference point} *)
Definition collapse_var {A : Type} (f : A -> option R) (d : A) (refrow otherrow : list nat) (vals : list A)
    (custom : dict collapser) : dict (list out) :=
  let m := collapse_model d refrow otherrow vals in
  map (fun nf => (fst nf, map (fun col => snd nf (map (cell_view f) col)) m)) (effective_collapsers custom).

Definition field (name : String.string) (c : nat) (res : dict (list out)) : option out :=
  match lookup name res with Some l => nth_error l c | None => None end.

(* a call collapse(data, reference, collapser): both groups carry a variable of type A; reference = primary (false,
   the default) or secondary (true) *)
Record call (A : Type) : Type := mk_call {
  c_data : cds A A; c_ref_secondary : bool; c_custom : dict collapser }.
Arguments mk_call {A}. Arguments c_data {A}. Arguments c_ref_secondary {A}. Arguments c_custom {A}.

Definition ref_row {A} (d : cds A A) (rs : bool) := if rs then srow d else prow d.
Definition other_row {A} (d : cds A A) (rs : bool) := if rs then prow d else srow d.
Definition other_vals {A} (d : cds A A) (rs : bool) := if rs then pvals d else svals d.
Definition n_ref {A} (d : cds A A) (rs : bool) := if rs then length (svals d) else length (pvals d).

Definition collapse_call {A : Type} (f : A -> option R) (dflt : A) (a : call A) : dict (list out) :=
  let d := c_data a in let rs := c_ref_secondary a in
  collapse_var f dflt (ref_row d rs) (other_row d rs) (other_vals d rs) (c_custom a).

(* calls made one after the other in one process: collapse keeps nothing between calls (the table of functions is
   built from a literal inside every call, nothing outside the frame of the call is written), so a history of calls
   is the list of the results of its calls *)
Definition run_calls {A : Type} (f : A -> option R) (dflt : A) (h : list (call A)) : list (dict (list out)) :=
  map (collapse_call f dflt) h.

(* specification: the statistics over the non-NaN values pv of the partner points *)
Definition stat_mean (pv : list R) : option R := match pv with [] => None | _ => Some (mean pv) end.
Definition stat_std (pv : list R) : option R := match pv with [] => None | _ => Some (pstd pv) end.

(* a variable with extra dimensions: the value of a point is the list of its lanes (all index tuples of the extra
   dimensions in a fixed order); lane j of it *)
Definition lane (j : nat) (a : list (option R)) : option R := nth j a None.

(* ------------------------------------------------------------------ several variables, arbitrary custom functions
   collapse loops over the variables of the non-reference group; every variable is binned into a matrix of its own
   (np.empty + NaN fill per variable) and every function of the table is applied to it: the result is
   {variable -> {function name -> one value per reference point}} (the field <var>_<function>). *)
Definition collapse_vars {A : Type} (f : A -> option R) (d : A) (refrow otherrow : list nat)
    (vars : dict (list A)) (custom : dict collapser) : dict (dict (list out)) :=
  map (fun nv => (fst nv, collapse_var f d refrow otherrow (snd nv) custom)) vars.

Definition field_of (v name : String.string) (c : nat) (res : dict (dict (list out))) : option out :=
  match lookup v res with Some r => field name c r | None => None end.

(* what a collapser function is handed for reference point c (lane f): the values of the partner points in the order of
   the pair list, then NaN padding up to the largest number of partners of any reference point *)
Definition padded_column {A : Type} (f : A -> option R) (d : A) (refrow otherrow : list nat) (vals : list A) (c : nat)
  : list (option R) :=
  map f (gather d (partner_points refrow otherrow c) vals)
  ++ repeat None (S (list_max (rows_for refrow)) - cnt c refrow).

(* custom functions that return a row of the matrix (in numpy: a VIEW of it): slot k = the (k+1)-th partner, the last slot *)
Definition slot (k : nat) : collapser := fun l => Fl (nth k l None).
Definition last_slot : collapser := fun l => Fl (last l None).
