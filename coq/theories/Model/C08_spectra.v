(* C08 -- hand model (lists) of the four spectral-density converters of typhon/physics/em.py:
   perfrequency2perwavelength / perwavelength2perfrequency multiply by grid^2/c and reverse both the
   spectrum and the grid (grid -> c/grid); perfrequency2perwavenumber / perwavenumber2perfrequency
   scale by c resp. 1/c without reversal.  Definitions only. *)
From Coq Require Import Reals List.
From TyphonGen Require Import em.
Import ListNotations.
Open Scope R_scope.

Fixpoint map2 {A B C} (g : A -> B -> C) (l : list A) (m : list B) : list C :=
  match l, m with a :: l', b :: m' => g a b :: map2 g l' m' | _, _ => [] end.

Definition perfrequency2perwavelength (perhz f_grid : list R) : list R * list R :=
  (rev (map2 (fun y f => y * f ^ 2 / c_speed_of_light) perhz f_grid), rev (map frequency2wavelength f_grid)).
Definition perwavelength2perfrequency (perm lam_grid : list R) : list R * list R :=
  (rev (map2 (fun y l => y * l ^ 2 / c_speed_of_light) perm lam_grid), rev (map wavelength2frequency lam_grid)).
Definition perfrequency2perwavenumber (perhz f_grid : list R) : list R * list R :=
  (map (fun y => y * c_speed_of_light) perhz, map frequency2wavenumber f_grid).
Definition perwavenumber2perfrequency (perwn wn_grid : list R) : list R * list R :=
  (map (fun y => y / c_speed_of_light) perwn, map wavenumber2frequency wn_grid).

(* modulus of a complex number given as the pair (re, im): the amplitude reflection coefficients of fresnel() for a
   complex refractive index n2 are such pairs (gen/em.v: fresnel_complex_n2) *)
Definition cabs (z : R * R) : R := sqrt (fst z * fst z + snd z * snd z).
