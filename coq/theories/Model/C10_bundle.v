(* C10 -- the bundle case of the per-file wrapper made explicit (typhon/files/fileset.py,
   _call_map_function: `fileset.collect(files=file_info, read_args=read_args)` for a task whose file_info is
   a list of files).  Definitions only.

   In Model/C10_pool.v a task carries one read outcome per member and an opaque outcome of the user's
   function.  Here the members carry their contents, the nested collect() is the collect of the pool model
   run on the members (inner tasks = the same wrapper with on_content, the pass-through function and no
   error_to_warning), and the user's function is applied to the list of contents that collect() returns. *)
From Coq Require Import ZArith List Bool Arith.
From Typhon Require Import Model.C10_pool.
Import ListNotations.

(* handler.read on one member file: its content (None = the reader returned None) or an exception *)
Inductive mrd := MOk (c : option Z) | MFail (e : Z).

(* the inner task of the nested collect for one member (the function is not reached when the read fails) *)
Definition member_task (m : mrd) : task :=
  match m with
  | MOk c => {| t_read := [RdOk]; t_func := FRet c |}
  | MFail e => {| t_read := [RdFail e]; t_func := FRet None |}
  end.

Definition inner_cfg : cfg := {| on_content := true; e2w := false |}.

Definition member_results (ms : list mrd) : list res :=
  map (fun m => task_result inner_cfg (member_task m)) ms.

(* collect() seen from what its inner map() handed back: (values in member order, exception) *)
Definition collect_obs (o : list (option Z) * option Z) : cres :=
  let '(vals, e) := o in
  match e with
  | Some x => CRaise x
  | None => match keep_some (combine (seq 0 (length vals)) vals) with
            | [] => CEmpty
            | l => CList l
            end
  end.

(* fileset.collect(files=bundle): None contents dropped; CEmpty = nothing is left to unzip (ValueError) *)
Definition bundle_collect (ms : list mrd) : cres := collect_model (member_results ms).

(* the code the harness gives that ValueError *)
Definition e_unzip : Z := (-2)%Z.

(* what the try-block of _call_map_function ends with: the list handed on to the function, or an exception *)
Definition bundle_content (ms : list mrd) : list Z + Z :=
  match bundle_collect ms with
  | CRaise e => inr e
  | CEmpty => inr e_unzip
  | CList l => inl (map snd l)
  end.

(* a task on a bundle: the members, the user's function on the list of contents (on_content) and its outcome
   when it is called with the FileInfo list only *)
Record btask := { b_members : list mrd; b_func : list Z -> fres; b_info : fres }.

Definition btask_result (c : cfg) (bt : btask) : res :=
  if on_content c then
    match bundle_content (b_members bt) with
    | inr e => if e2w c then ReadWarn else Err e
    | inl l => func_result (b_func bt l)
    end
  else func_result (b_info bt).

(* ------------------------------------------------------------------ specification (brute force) *)
(* the contents of the readable members that are not None, in member order *)
Fixpoint contents (ms : list mrd) : list Z :=
  match ms with
  | [] => []
  | MOk (Some c) :: t => c :: contents t
  | _ :: t => contents t
  end.

(* the error of the first member (in member order) that cannot be read *)
Fixpoint first_fail (ms : list mrd) : option Z :=
  match ms with
  | [] => None
  | MFail e :: _ => Some e
  | MOk _ :: t => first_fail t
  end.

Definition unreadable (ms : list mrd) : Prop := exists e, In (MFail e) ms.

(* ------------------------------------------------------------------ the abstraction to Model/C10_pool.v *)
Definition rd_of (m : mrd) : rd := match m with MOk _ => RdOk | MFail e => RdFail e end.

Definition abstract_task (c : cfg) (bt : btask) : task :=
  let ms := b_members bt in
  {| t_read := map rd_of ms ++ match contents ms with [] => [RdFail e_unzip] | _ => [] end;
     t_func := if on_content c then b_func bt (contents ms) else b_info bt |}.

(* ------------------------------------------------------------------ interface for the harness *)
Local Open Scope Z_scope.

(* a member as the harness writes it: v >= 2000 = read fails with code v; v < 0 = the reader returns None;
   otherwise the content is v (the position of the file) *)
Definition mk_member (v : Z) : mrd :=
  if 2000 <=? v then MFail v else if v <? 0 then MOk None else MOk (Some v).

Fixpoint zlist_eqb (a b : list Z) : bool :=
  match a, b with
  | [], [] => true
  | x :: a', y :: b' => (x =? y) && zlist_eqb a' b'
  | _, _ => false
  end.

(* the function the harness hands to map()/imap() (tools/harness/c10_driver.py, _func_body; for collect /
   icollect the pass-through function followed by the harness's canonicalisation): raises fv (f = 2), returns
   None (f = 1), otherwise returns fv when it was called with the list `want` and -7 when called with another list *)
Definition harness_func (want : list Z) (f fv : Z) (l : list Z) : fres :=
  if f =? 2 then FRaise fv
  else if f =? 1 then FRet None
  else FRet (Some (if zlist_eqb l want then fv else -7)).

Definition mk_btask (members want : list Z) (f fv : Z) : btask :=
  {| b_members := map mk_member members; b_func := harness_func want f fv;
     b_info := harness_func [] f fv [] |}.

Definition bresults (oc ew : bool) (bts : list btask) : list res :=
  map (btask_result {| on_content := oc; e2w := ew |}) bts.

(* the list each task's function is called with (None = not called: the read of the bundle failed) *)
Definition bundle_args (bts : list btask) : list (option (list Z)) :=
  map (fun bt => match bundle_content (b_members bt) with inl l => Some l | inr _ => None end) bts.

(* the same results through the abstraction to the tasks of Model/C10_pool.v (cross-check of the refinement) *)
Definition res_code (r : res) : Z * Z :=
  match r with Ok (Some v) => (0, v) | Ok None => (1, 0) | Err e => (2, e) | ReadWarn => (3, 0) end.
Definition bundle_check (oc ew : bool) (bts : list btask) : list (option (list Z)) * bool :=
  let c := {| on_content := oc; e2w := ew |} in
  (bundle_args bts,
   forallb (fun bt => let '(a, x) := res_code (btask_result c bt) in
                      let '(b, y) := res_code (task_result c (abstract_task c bt)) in (a =? b) && (x =? y)) bts).

(* ------------------------------------------------------------------ what the harness OBSERVED the function of a task
   being called with (or, for collect / icollect, what the caller got for the task): nothing, a BARE content
   (one file's content, not wrapped in a list) or a list of contents.  The model says the function of a bundle
   task is applied to a LIST (b_func : list Z -> fres) -- for a bundle of one file to the one-element list.
   arg_code: 0 = the observation agrees with the model; 1 = another list; 2 = a bare content instead of the
   list; 3 = called although the read of the bundle fails; 4 = not called *)
Inductive oarg := ONot | OBare (c : Z) | OList (l : list Z).

Definition arg_code (m : option (list Z)) (o : oarg) : Z :=
  match m, o with
  | None, ONot => 0
  | None, _ => 3
  | Some _, ONot => 4
  | Some _, OBare _ => 2
  | Some l, OList l' => if zlist_eqb l l' then 0 else 1
  end.

Definition mk_oarg (kind : Z) (l : list Z) : oarg :=
  if kind =? 0 then ONot else if kind =? 1 then OBare (hd 0 l) else OList l.

Fixpoint arg_codes (ms : list (option (list Z))) (os : list oarg) : list Z :=
  match ms, os with
  | m :: ms', o :: os' => arg_code m o :: arg_codes ms' os'
  | m :: ms', [] => arg_code m ONot :: arg_codes ms' []
  | [], _ => []
  end.

Definition bundle_arg_codes (bts : list btask) (obs : list (Z * list Z)) : list Z :=
  arg_codes (bundle_args bts) (map (fun '(k, l) => mk_oarg k l) obs).

(* a member that can be read and has a content *)
Definition plain (m : mrd) : Prop := exists c, m = MOk (Some c).
