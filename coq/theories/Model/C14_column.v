(* C14 -- hand model (lists of reals) of the column integrals and hydrostatic conversions:
     typhon/math/common.py        integrate_column            (numpy.trapezoid: sum (diff x * (y[1:] + y[:-1]) / 2))
     typhon/physics/atmosphere.py integrate_water_vapor       (hydrostatic form and general form)
                                  column_relative_humidity    (two IWV integrals, level-wise saturation humidity)
                                  pressure2height             (diff, layer-mean density, cumsum, leading 0)
                                  standard_atmosphere         (scipy interp1d, linear, fill_value='extrapolate')
   built on the kernels and tables GENERATED from the source (coq/gen/atmosphere.v): vmr2specific_humidity,
   specific_humidity2vmr, water_vapor_pressure2specific_humidity, density, e_eq_mixed_mk, the constants and the
   ISA table.  Definitions only. *)
From Coq Require Import Reals List.
From TyphonGen Require Import atmosphere.
Import ListNotations.
Open Scope R_scope.

Fixpoint zip2 {A B C} (g : A -> B -> C) (l : list A) (m : list B) : list C :=
  match l, m with a :: l', b :: m' => g a b :: zip2 g l' m' | _, _ => [] end.
Fixpoint zip3 {A B C D} (g : A -> B -> C -> D) (l : list A) (m : list B) (n : list C) : list D :=
  match l, m, n with a :: l', b :: m', c :: n' => g a b c :: zip3 g l' m' n' | _, _, _ => [] end.
Fixpoint rsum (l : list R) : R := match l with [] => 0 | a :: l' => a + rsum l' end.

(* ------------------------------------------------------------------ integrate_column, one lane *)

(* numpy.trapezoid(y, x) for 1-d y, x of equal length *)
Fixpoint trapz (ys xs : list R) : R :=
  match ys, xs with
  | y0 :: ((y1 :: _) as ys'), x0 :: ((x1 :: _) as xs') => (x1 - x0) * (y1 + y0) / 2 + trapz ys' xs'
  | _, _ => 0
  end.

(* numpy.trapezoid(y) : x = None, dx = 1.0 *)
Fixpoint trapz_unit (ys : list R) : R :=
  match ys with
  | y0 :: ((y1 :: _) as ys') => 1 * (y1 + y0) / 2 + trapz_unit ys'
  | _ => 0
  end.

(* the coordinates 0, 1, 2, ... that "unit spacing" stands for *)
Definition arange (n : nat) : list R := map INR (seq 0 n).

(* the straight line through (x0, y0) and (x1, y1): one piece of the piecewise-linear interpolant *)
Definition line (x0 y0 x1 y1 x : R) : R := y0 + (y1 - y0) / (x1 - x0) * (x - x0).

(* ------------------------------------------------------------------ integrate_column, any rank / axis *)

(* An array of any rank integrated along `axis` is, in C order, a block  outer x n x inner
   (outer = prod shape[:axis], n = shape[axis], inner = prod shape[axis+1:]).  numpy does not loop over lanes:
   it forms  d * (y[1:] + y[:-1]) / 2  on whole slices (each slice a vector of `inner` numbers) and sums them. *)
Definition vadd (a b : list R) : list R := zip2 Rplus a b.
Fixpoint trapz_rows (rows : list (list R)) (xs : list R) (inner : nat) : list R :=
  match rows, xs with
  | r0 :: ((r1 :: _) as rows'), x0 :: ((x1 :: _) as xs') =>
      vadd (map (fun s => (x1 - x0) * s / 2) (vadd r1 r0)) (trapz_rows rows' xs' inner)
  | _, _ => repeat 0 inner
  end.
Definition integrate_nd (Y : list (list (list R))) (xs : list R) (inner : nat) : list (list R) :=
  map (fun rows => trapz_rows rows xs inner) Y.
(* lane i of a block of rows: what a reader means by "integrate each lane" *)
Definition lane (rows : list (list R)) (i : nat) : list R := map (fun r => nth i r 0) rows.

(* ------------------------------------------------------------------ integrate_water_vapor *)

Definition iwv_hydro (vmr p : list R) : R :=
  - trapz (map vmr2specific_humidity vmr) p / c_earth_standard_gravity.
Definition iwv_general (vmr p T z : list R) : R :=
  trapz (zip3 (fun x p T => x * density p T c_gas_constant_water_vapor) vmr p T) z.

(* ------------------------------------------------------------------ column_relative_humidity *)

Definition qsat (t p : R) : R := water_vapor_pressure2specific_humidity (e_eq_mixed_mk t) p.
Definition crh (q p t : list R) : R :=
  iwv_hydro (map specific_humidity2vmr q) p / iwv_hydro (map specific_humidity2vmr (zip2 qsat t p)) p.

(* ------------------------------------------------------------------ pressure2height *)

Fixpoint layers (p rho : list R) : list R :=
  match p, rho with
  | p0 :: ((p1 :: _) as p'), r0 :: ((r1 :: _) as rho') =>
      - (p1 - p0) / (0.5 * (r0 + r1) * c_earth_standard_gravity) :: layers p' rho'
  | _, _ => []
  end.
Fixpoint cumsum_from (acc : R) (l : list R) : list R :=
  match l with [] => [] | a :: l' => (acc + a) :: cumsum_from (acc + a) l' end.
Definition pressure2height (p T : list R) : list R :=
  0 :: cumsum_from 0 (layers p (zip2 (fun p T => density p T c_gas_constant_dry_air) p T)).

(* pressure ratios of successive levels, p_i / p_(i+1) *)
Fixpoint ratios (p : list R) : list R :=
  match p with p0 :: ((p1 :: _) as p') => p0 / p1 :: ratios p' | _ => [] end.

(* ------------------------------------------------------------------ standard_atmosphere *)

(* scipy.interpolate.interp1d(xs, ys, fill_value='extrapolate') on ascending xs: searchsorted (side='left'),
   index clipped to 1 .. n-1, straight line through the two neighbours (also outside the table). *)
Fixpoint interp_seg (xs ys : list R) (x : R) : R :=
  match xs, ys with
  | x0 :: ((x1 :: xs2) as xs'), y0 :: ((y1 :: _) as ys') =>
      match xs2 with
      | [] => line x0 y0 x1 y1 x
      | _ => if Rle_dec x x1 then line x0 y0 x1 y1 x else interp_seg xs' ys' x
      end
  | _, _ => 0
  end.

Definition isa_kelvin : list R := map (fun t => t + isa_zero_celsius) isa_temp.
Definition standard_atmosphere_h (z : R) : R := interp_seg isa_h isa_kelvin z.
(* coordinates='pressure': the table is addressed by ln p; interp1d sorts the (descending) ln p ascending *)
Definition standard_atmosphere_p (p : R) : R := interp_seg (rev (map ln isa_p)) (rev isa_kelvin) (ln p).
(* pressure2height(p) without T *)
Definition pressure2height_isa (p : list R) : list R := pressure2height p (map standard_atmosphere_p p).

(* ------------------------------------------------------------------ predicates used in the statements *)

Fixpoint decreasing (l : list R) : Prop :=
  match l with a :: ((b :: _) as l') => b < a /\ decreasing l' | _ => True end.
Fixpoint nonincreasing (l : list R) : Prop :=
  match l with a :: ((b :: _) as l') => b <= a /\ nonincreasing l' | _ => True end.
Fixpoint increasing (l : list R) : Prop :=
  match l with a :: ((b :: _) as l') => a < b /\ increasing l' | _ => True end.
Fixpoint nondecreasing (l : list R) : Prop :=
  match l with a :: ((b :: _) as l') => a <= b /\ nondecreasing l' | _ => True end.
