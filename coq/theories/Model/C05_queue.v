(* C05 -- the result queue between the worker processes and the parent of
   Collocator.collocate_filesets (typhon/collocations/collocator.py 217-303), as a transition system
   over ALL interleavings.  Definitions only.

   worker w :  for item in its results: results.put(item)         (Put w: the item is handed to the
               queue's feeder, "in flight"; Flush w: the feeder made the oldest in-flight item of w
               visible to the parent; Die w: the process ends -- only after everything was put, and
               multiprocessing joins the feeder at exit, so nothing of w is in flight any more)
   parent   :  running = process_list.copy()
               while running:                                      (Head)
                   running = [p for p in running if p.is_alive()]  (Snapshot)
                   while not results.empty():                      (Drain)
                       ... = results.get(); yield                  (Get)
                                                                   (EmptyTrue: empty() returned True)
               (loop left: Leave)
   The queue is bounded (Queue(maxsize=cap)): a Put needs a free slot (in flight + visible < cap).
   Items are abstract (Z). *)
From Coq Require Import ZArith List Bool.
Import ListNotations.

Record wst := { pend : list Z; infl : list Z; alive : bool }.
Inductive ppc := Head | Drain | Exited.
Record qst := { ws : list wst; vis : list Z; run_flag : bool; pc : ppc; yielded : list Z }.

Inductive qact := Put (w : nat) | Flush (w : nat) | Die (w : nat) | Snapshot | Get | EmptyTrue | Leave.

Definition upd (k : nat) (x : wst) (l : list wst) : list wst := firstn k l ++ x :: skipn (S k) l.

Definition in_flight (l : list wst) : nat := fold_right (fun w n => (length (infl w) + n)%nat) 0%nat l.
Definition occupied (s : qst) : nat := (in_flight (ws s) + length (vis s))%nat.

Definition init (items : list (list Z)) : qst :=
  {| ws := map (fun l => {| pend := l; infl := []; alive := true |}) items;
     vis := []; run_flag := negb (Nat.eqb (length items) 0); pc := Head; yielded := [] |}.

Definition set_ws (s : qst) (l : list wst) : qst :=
  {| ws := l; vis := vis s; run_flag := run_flag s; pc := pc s; yielded := yielded s |}.

Definition step (cap : nat) (s : qst) (a : qact) : option qst :=
  match a with
  | Put k =>
      match nth_error (ws s) k with
      | Some w =>
          match pend w with
          | x :: r =>
              if alive w && Nat.ltb (occupied s) cap
              then Some (set_ws s (upd k {| pend := r; infl := infl w ++ [x]; alive := true |} (ws s)))
              else None
          | [] => None
          end
      | None => None
      end
  | Flush k =>
      match nth_error (ws s) k with
      | Some w =>
          match infl w with
          | x :: r =>
              Some {| ws := upd k {| pend := pend w; infl := r; alive := alive w |} (ws s);
                      vis := vis s ++ [x]; run_flag := run_flag s; pc := pc s; yielded := yielded s |}
          | [] => None
          end
      | None => None
      end
  | Die k =>
      match nth_error (ws s) k with
      | Some w =>
          match pend w, infl w with
          | [], [] => if alive w then Some (set_ws s (upd k {| pend := []; infl := []; alive := false |} (ws s)))
                      else None
          | _, _ => None
          end
      | None => None
      end
  | Snapshot =>
      match pc s with
      | Head => if run_flag s
                then Some {| ws := ws s; vis := vis s; run_flag := existsb alive (ws s); pc := Drain;
                             yielded := yielded s |}
                else None
      | _ => None
      end
  | Leave =>
      match pc s with
      | Head => if run_flag s then None
                else Some {| ws := ws s; vis := vis s; run_flag := false; pc := Exited; yielded := yielded s |}
      | _ => None
      end
  | Get =>
      match pc s, vis s with
      | Drain, x :: r => Some {| ws := ws s; vis := r; run_flag := run_flag s; pc := Drain;
                                 yielded := yielded s ++ [x] |}
      | _, _ => None
      end
  | EmptyTrue =>
      match pc s, vis s with
      | Drain, [] => Some {| ws := ws s; vis := []; run_flag := run_flag s; pc := Head; yielded := yielded s |}
      | _, _ => None
      end
  end.

Fixpoint qrun (cap : nat) (s : qst) (tr : list qact) : option qst :=
  match tr with
  | [] => Some s
  | a :: r => match step cap s a with Some s' => qrun cap s' r | None => None end
  end.

(* a MUTANT of the parent used for the refutation example: the loop is left as soon as no worker is alive,
   without draining once more (modelled by letting Leave fire from Drain when the snapshot saw no living worker) *)
Definition step_nodrain (cap : nat) (s : qst) (a : qact) : option qst :=
  match a, pc s with
  | Leave, Drain => if run_flag s then None
                    else Some {| ws := ws s; vis := vis s; run_flag := false; pc := Exited; yielded := yielded s |}
  | _, _ => step cap s a
  end.
Fixpoint qrun_nodrain (cap : nat) (s : qst) (tr : list qact) : option qst :=
  match tr with
  | [] => Some s
  | a :: r => match step_nodrain cap s a with Some s' => qrun_nodrain cap s' r | None => None end
  end.

(* summary handed to the correspondence: accepted?, parent left the loop?, what it yielded, what is left *)
Definition trace_report (cap : nat) (items : list (list Z)) (tr : list qact) : option (bool * list Z * list Z) :=
  match qrun cap (init items) tr with
  | Some s => Some (match pc s with Exited => true | _ => false end, yielded s, vis s)
  | None => None
  end.
(* index of the first action that is not enabled (for diagnostics) *)
Fixpoint first_stuck (cap : nat) (s : qst) (tr : list qact) (k : nat) : option nat :=
  match tr with
  | [] => None
  | a :: r => match step cap s a with Some s' => first_stuck cap s' r (S k) | None => Some k end
  end.
