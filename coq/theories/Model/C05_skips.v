(* C05 -- the per-worker loop of Collocator._process_caller seen from the flat list `matches` of the worker,
   WITH file pairs that yield nothing at all (FileSet.align skips a pair one of whose files could not be read
   when skip_errors is set), in arbitrary positions.  Definitions only.

   The code:      processed = 0
                  for collocations, attributes in self._collocate_matches(...):        # fewer items than pairs
                      match = matches[processed]; processed += 1                       # when a pair was skipped
                      ... bundling (Model/C05_pipeline.v, `loop`) ...
                  if cached_data: save                                                  # final flush AFTER the loop

   A skipped pair makes `processed` lag behind: the k-th YIELDED result is tagged with the primary of the k-th
   PAIR (`matches[processed]`), and `processed` never reaches len(matches).  `items_of` builds exactly the item
   list the loop sees; Proofs/C05_skips.v shows that it is what Model/C05_pipeline.worker_items computes.

   `loop_counted` is the loop of seeded change C05-j: the final flush moved INTO the loop body, guarded by
   `processed == len(matches)` -- equivalent to `loop` when every pair yields, but the worker's last bundle is
   never handed over as soon as one pair was skipped. *)
From Coq Require Import ZArith List Bool.
From Typhon Require Import Model.C03_tree Model.C05_pipeline.
Import ListNotations.
Open Scope Z_scope.

(* what one file pair of the worker's flat list gives: nothing is yielded (a file was unreadable) / None is
   yielded (no collocations) / a collocation set *)
Inductive pres := PSkipped | PNone | PFound (s : cset).

Definition yielded_of (r : pres) : list (option cset) :=
  match r with PSkipped => [] | PNone => [None] | PFound s => [Some s] end.
Definition found_of (r : pres) : list cset :=
  match r with PFound s => [s] | _ => [] end.
Definition is_skipped (r : pres) : bool := match r with PSkipped => true | _ => false end.

(* res = one entry per file pair of the flat list: (index of its primary, what the pair gives) *)
Definition items_of (res : list (Z * pres)) : list (Z * option cset) :=
  combine (map fst res) (flat_map (fun r => yielded_of (snd r)) res).
Definition founds (res : list (Z * pres)) : list cset := flat_map (fun r => found_of (snd r)) res.
Definition has_skip (res : list (Z * pres)) : bool := existsb (fun r => is_skipped (snd r)) res.

(* the per-pair results of a worker of the pipeline model *)
Section Results.
  Variable collocate : cfg -> list pt -> list pt -> cset.
  Definition pair_result (c : cfg) (bad : option (bool * Z)) (A B : list file) (ij : Z * Z) : Z * pres :=
    (fst ij, if is_bad bad ij then PSkipped
             else match coll_pair collocate c A B ij with [] => PNone | r => PFound r end).
  Definition worker_results (c : cfg) (bad : option (bool * Z)) (A B : list file) (ch : list (Z * list Z))
    : list (Z * pres) := map (pair_result c bad A B) (flat ch).
End Results.

(* seeded change C05-j: `if cached_data and processed == len(matches): save` as the last statement of the loop
   body, nothing after the loop.  n = len(matches), k = processed before this item. *)
Definition flush_at (hit : bool) (cache : list cset) : list (list cset) :=
  if hit then match cache with [] => [] | _ => [cache] end else [].
Fixpoint loop_counted (md : mode) (n : nat) (items : list (Z * option cset)) (k : nat)
         (cache : list cset) (cur : option Z) : list (list cset) :=
  match items with
  | [] => []
  | (_, None) :: r => flush_at (Nat.eqb (S k) n) cache ++ loop_counted md n r (S k) cache cur
  | (pidx, Some s) :: r =>
      match md with
      | MNone => [s] :: flush_at (Nat.eqb (S k) n) cache ++ loop_counted md n r (S k) cache cur
      | _ =>
          let t := tag_of md pidx s in
          let save := match cur with None => false | Some t0 => negb (t0 =? t) end in
          if save then cache :: flush_at (Nat.eqb (S k) n) [s] ++ loop_counted md n r (S k) [s] (Some t)
          else flush_at (Nat.eqb (S k) n) (cache ++ [s]) ++ loop_counted md n r (S k) (cache ++ [s]) (Some t)
      end
  end.

(* cached_data when the loop ends (what the final flush hands over) *)
Fixpoint final_cache (md : mode) (items : list (Z * option cset)) (cache : list cset) (cur : option Z) : list cset :=
  match items with
  | [] => cache
  | (_, None) :: r => final_cache md r cache cur
  | (pidx, Some s) :: r =>
      match md with
      | MNone => final_cache md r cache cur
      | _ =>
          let t := tag_of md pidx s in
          let save := match cur with None => false | Some t0 => negb (t0 =? t) end in
          if save then final_cache md r [s] (Some t) else final_cache md r (cache ++ [s]) (Some t)
      end
  end.
Definition last_bundle (md : mode) (items : list (Z * option cset)) : list (list cset) :=
  match final_cache md items [] None with [] => [] | c => [c] end.
