(* C19 -- list-level wrappers around the kernels GENERATED from typhon/retrieval/scores.py
   (coq/gen/scores.v): mape / bias = mean of the kernel over the samples, mean_quantile_score for a
   constant estimate = mean of the pinball kernel; the reshape contract of quantile_score;
   NaN-aware means (None = NaN) and the (n,k) score matrix on lists of rows. Definitions only. *)
From Coq Require Import Reals List ZArith.
From TyphonGen Require Import scores.
Import ListNotations.
Open Scope R_scope.

Fixpoint rsum (l : list R) : R := match l with [] => 0 | x :: t => x + rsum t end.
Definition rlen (l : list R) : R := rsum (map (fun _ => 1) l).
Definition rmean (l : list R) : R := rsum l / rlen l.

(* samples as (prediction, truth) pairs *)
Definition mape (s : list (R * R)) : R := rmean (map (fun '(p, t) => mape_kernel p t) s).
Definition bias (s : list (R * R)) : R := rmean (map (fun '(p, t) => bias_kernel p t) s).

(* total / mean pinball loss of the constant estimate c over the sample ys *)
Definition loss_sum (tau c : R) (ys : list R) : R := rsum (map (fun y => quantile_score_kernel c y tau) ys).
Definition mean_loss (tau c : R) (ys : list R) : R := loss_sum tau c ys / rlen ys.

(* number of sample values below / not above q, as reals *)
Definition cnt_lt (q : R) (ys : list R) : R := rsum (map (fun y => if Rlt_dec y q then 1 else 0) ys).
Definition cnt_le (q : R) (ys : list R) : R := rsum (map (fun y => if Rle_dec y q then 1 else 0) ys).
(* q is a tau-quantile of the sample *)
Definition is_quantile (tau q : R) (ys : list R) : Prop := cnt_lt q ys <= tau * rlen ys <= cnt_le q ys.

(* ---- floats that may be NaN: None = NaN (the reals are the NaN-free, finite values) ---- *)
Fixpoint somes (l : list (option R)) : list R :=
  match l with [] => [] | Some x :: t => x :: somes t | None :: t => somes t end.
Fixpoint all_some (l : list (option R)) : option (list R) :=
  match l with [] => Some []
  | Some x :: t => match all_some t with Some v => Some (x :: v) | None => None end
  | None :: _ => None end.
(* np.nanmean: mean of the non-NaN entries; NaN (RuntimeWarning, no exception) when there is none *)
Definition nanmean (l : list (option R)) : option R :=
  match somes l with [] => None | v => Some (rmean v) end.
(* np.mean: NaN as soon as one entry is NaN (or the list is empty) *)
Definition npmean (l : list (option R)) : option R :=
  match all_some l with Some (x :: v) => Some (rmean (x :: v)) | _ => None end.
(* an arithmetic kernel on floats: NaN in, NaN out (np.where(NaN < y, a, b) takes b = (1 - tau) * |NaN| = NaN) *)
Definition lift2 (f : R -> R -> R) (a b : option R) : option R :=
  match a, b with Some x, Some y => Some (f x y) | _, _ => None end.
Definition lift3 (f : R -> R -> R -> R) (a b c : option R) : option R :=
  match a, b, c with Some x, Some y, Some z => Some (f x y z) | _, _, _ => None end.
Definition quantile_score_fl : option R -> option R -> option R -> option R := lift3 quantile_score_kernel.
(* mean_quantile_score = np.nanmean(quantile_score(...), axis=0) of the constant estimate c on a sample that may contain NaN *)
Definition mqs_fl (tau c : option R) (ys : list (option R)) : option R :=
  nanmean (map (fun y => quantile_score_fl c y tau) ys).
(* mape = np.nanmean(kernel), bias = np.mean(kernel) on (prediction, truth) pairs that may contain NaN *)
Definition mape_fl (s : list (option R * option R)) : option R := nanmean (map (fun '(p, t) => lift2 mape_kernel p t) s).
Definition bias_fl (s : list (option R * option R)) : option R := npmean (map (fun '(p, t) => lift2 bias_kernel p t) s).
Definition nan_free (s : list (R * R)) : list (option R * option R) := map (fun '(p, t) => (Some p, Some t)) s.

(* ---- the (n,k) score matrix on lists of rows (vector of taus) ---- *)
Fixpoint map2 {A B C} (f : A -> B -> C) (l : list A) (m : list B) : list C :=
  match l, m with a :: l', b :: m' => f a b :: map2 f l' m' | _, _ => [] end.
(* n rows of k entries *)
Definition rect (n k : nat) (rows : list (list R)) : Prop := length rows = n /\ Forall (fun r => length r = k) rows.
(* broadcasting of one row of k estimates against the k fractions and the single observation y of that row *)
Definition score_row (taus : list R) (row : list R) (y : R) : list R :=
  map2 (fun e tau => quantile_score_kernel e y tau) row taus.
Definition quantile_score_rows (rows : list (list R)) (ys taus : list R) : list (list R) :=
  map2 (score_row taus) rows ys.
Definition col (j : nat) (M : list (list R)) : list R := map (fun r => nth j r 0) M.
(* mean_quantile_score: mean along axis 0 (NaN-free data), one entry per fraction *)
Definition mqs_rows (rows : list (list R)) (ys taus : list R) : list R :=
  map (fun j => rmean (col j (quantile_score_rows rows ys taus))) (seq 0 (length taus)).
(* y_tau.reshape(-1, m) of the flat (C-order) data *)
Fixpoint chunks (fuel m : nat) (l : list R) : list (list R) :=
  match fuel with O => [] | S f => match l with [] => [] | _ => firstn m l :: chunks f m (skipn m l) end end.
Definition reshape_rows (m : nat) (l : list R) : list (list R) := chunks (length l) m l.

(* shape contract of quantile_score: y_tau.reshape(-1, m); n = rows; y_test.reshape(n, 1).
   sizes are the total numbers of elements; Some n = accepted with n rows, None = ValueError *)
Open Scope Z_scope.
Definition quantile_score_shape (size_tau size_test m : Z) : option Z :=
  if (m <=? 0) then None
  else if negb (size_tau mod m =? 0) then None
  else if size_test =? size_tau / m then Some (size_tau / m) else None.

(* quantile_score on the flat data of y_tau and y_test (any consistent shapes): None = ValueError *)
Definition quantile_score_flat (flat ys taus : list R) : option (list (list R)) :=
  match quantile_score_shape (Z.of_nat (length flat)) (Z.of_nat (length ys)) (Z.of_nat (length taus)) with
  | Some _ => Some (quantile_score_rows (reshape_rows (length taus) flat) ys taus)
  | None => None end.
