(* C19 -- list-level wrappers around the kernels GENERATED from typhon/retrieval/scores.py
   (coq/gen/scores.v): mape / bias = mean of the kernel over the samples, mean_quantile_score for a
   constant estimate = mean of the pinball kernel; the reshape contract of quantile_score. Definitions only. *)
From Coq Require Import Reals List ZArith.
From TyphonGen Require Import scores.
Import ListNotations.
Open Scope R_scope.

Fixpoint rsum (l : list R) : R := match l with [] => 0 | x :: t => x + rsum t end.
Definition rlen (l : list R) : R := rsum (map (fun _ => 1) l).
Definition rmean (l : list R) : R := rsum l / rlen l.

(* samples as (prediction, truth) pairs *)
Definition mape (s : list (R * R)) : R := rmean (map (fun '(p, t) => mape_kernel p t) s).
Definition bias (s : list (R * R)) : R := rmean (map (fun '(p, t) => bias_kernel p t) s).

(* total / mean pinball loss of the constant estimate c over the sample ys *)
Definition loss_sum (tau c : R) (ys : list R) : R := rsum (map (fun y => quantile_score_kernel c y tau) ys).
Definition mean_loss (tau c : R) (ys : list R) : R := loss_sum tau c ys / rlen ys.

(* number of sample values below / not above q, as reals *)
Definition cnt_lt (q : R) (ys : list R) : R := rsum (map (fun y => if Rlt_dec y q then 1 else 0) ys).
Definition cnt_le (q : R) (ys : list R) : R := rsum (map (fun y => if Rle_dec y q then 1 else 0) ys).
(* q is a tau-quantile of the sample *)
Definition is_quantile (tau q : R) (ys : list R) : Prop := cnt_lt q ys <= tau * rlen ys <= cnt_le q ys.

(* shape contract of quantile_score: y_tau.reshape(-1, m); n = rows; y_test.reshape(n, 1).
   sizes are the total numbers of elements; Some n = accepted with n rows, None = ValueError *)
Open Scope Z_scope.
Definition quantile_score_shape (size_tau size_test m : Z) : option Z :=
  if (m <=? 0) then None
  else if negb (size_tau mod m =? 0) then None
  else if size_test =? size_tau / m then Some (size_tau / m) else None.
