(* C10 -- the ARGUMENTS of the per-file wrapper (typhon/files/fileset.py, _call_map_function):

       args = [] if args is None else list(args)          (a fresh list: the caller's object is only read)
       if on_content:  args.append(file_content)
       if not on_content or pass_info:  args.append(file_info)
       func( *args, ** kwargs)

   The caller's `args` object and `kwargs` dict are placed, as they are, in the argument tuple of EVERY task
   (_configure_pool_and_worker_args): with thread workers all tasks refer to the same two objects.  The model keeps
   them in two cells of a small heap, gives every task its own local list and runs the wrappers of a stream of
   files as a machine of micro-steps (copy / append content / append info / call) that a schedule interleaves
   freely.  Definitions only. *)
From Coq Require Import ZArith List Bool Arith.
Import ListNotations.

(* one positional argument as the mapped function sees it: one of the caller's own arguments (its value), the
   content of file (or bundle) f, the FileInfo (or list of FileInfo) of file f, anything else *)
Inductive parg := PUser (x : Z) | PContent (f : nat) | PInfo (f : nat) | POther (a b : Z).

(* `args` in the forms the API accepts *)
Inductive cargs := ANone | ATuple (l : list Z) | AList (l : list Z).

Definition user_args (a : cargs) : list Z :=
  match a with ANone => [] | ATuple l => l | AList l => l end.

Record acfg := { a_on_content : bool; a_pass_info : bool }.

Definition content_part (c : acfg) (f : nat) : list parg := if a_on_content c then [PContent f] else [].
Definition info_part (c : acfg) (f : nat) : list parg :=
  if negb (a_on_content c) || a_pass_info c then [PInfo f] else [].
Definition file_args (c : acfg) (f : nat) : list parg := content_part c f ++ info_part c f.

(* SPECIFICATION: what the function of the task on file f is called with -- a function of the caller's
   arguments and of that file only *)
Definition task_arguments (c : acfg) (a : cargs) (f : nat) : list parg :=
  map PUser (user_args a) ++ file_args c f.

(* one call of the mapped function: the task (index in the stream), positional and keyword arguments *)
Record callrec := { c_task : nat; c_pos : list parg; c_kw : list (Z * Z) }.

(* the heap: cell = what the caller's args object holds, kwcell = what the caller's kwargs dict holds;
   pc i = how far the wrapper of task i has come (0 .. 4), loc i = its local list *)
Record wst := { cell : list parg; kwcell : list (Z * Z); pc : nat -> nat; loc : nat -> list parg;
                calls : list callrec }.

Definition upd {A : Type} (g : nat -> A) (i : nat) (v : A) : nat -> A := fun j => if j =? i then v else g j.

Definition winit (a : cargs) (kw : list (Z * Z)) : wst :=
  {| cell := map PUser (user_args a); kwcell := kw; pc := fun _ => 0; loc := fun _ => []; calls := [] |}.

(* the list the wrapper of task i works on: its own copy -- or, in the variant WITHOUT the copy
   (copies = false: `args` used as it is), the caller's object itself *)
Definition cur (copies : bool) (s : wst) (i : nat) : list parg := if copies then loc s i else cell s.

Definition append (copies : bool) (s : wst) (i : nat) (x : list parg) (p : nat) : wst :=
  if copies
  then {| cell := cell s; kwcell := kwcell s; pc := upd (pc s) i p; loc := upd (loc s) i (loc s i ++ x);
          calls := calls s |}
  else {| cell := cell s ++ x; kwcell := kwcell s; pc := upd (pc s) i p; loc := loc s; calls := calls s |}.

(* the next micro-step of the wrapper of task i (fs = the stream: task i works on file nth i fs) *)
Definition mstep (copies : bool) (c : acfg) (fs : list nat) (s : wst) (i : nat) : wst :=
  match nth_error fs i with
  | None => s
  | Some f =>
      match pc s i with
      | 0 => (* args = list(args) *)
          {| cell := cell s; kwcell := kwcell s; pc := upd (pc s) i 1;
             loc := if copies then upd (loc s) i (cell s) else loc s; calls := calls s |}
      | 1 => append copies s i (content_part c f) 2
      | 2 => append copies s i (info_part c f) 3
      | 3 => (* the call: func( *args, ** kwargs) *)
          {| cell := cell s; kwcell := kwcell s; pc := upd (pc s) i 4; loc := loc s;
             calls := calls s ++ [{| c_task := i; c_pos := cur copies s i; c_kw := kwcell s |}] |}
      | _ => s
      end
  end.

(* the wrappers of a stream under a schedule: sch lists which task makes its next micro-step (ANY list) *)
Definition run_gen (copies : bool) (c : acfg) (a : cargs) (kw : list (Z * Z)) (fs sch : list nat) : wst :=
  fold_left (mstep copies c fs) sch (winit a kw).

(* the code as it is: every task copies *)
Definition run_wrappers := run_gen true.

Definition call_of (s : wst) (i : nat) : option callrec := find (fun r => c_task r =? i) (calls s).

(* ------------------------------------------------------------------ interface for the harness *)
Local Open Scope Z_scope.

Definition parg_eqb (x y : parg) : bool :=
  match x, y with
  | PUser a, PUser b => a =? b
  | PContent a, PContent b => Nat.eqb a b
  | PInfo a, PInfo b => Nat.eqb a b
  | POther a b, POther a' b' => (a =? a') && (b =? b')
  | _, _ => false
  end.

Fixpoint list_eqb {A : Type} (eqb : A -> A -> bool) (l l' : list A) : bool :=
  match l, l' with
  | [], [] => true
  | x :: t, y :: t' => eqb x y && list_eqb eqb t t'
  | _, _ => false
  end.

Definition zpair_eqb (x y : Z * Z) : bool := (fst x =? fst y) && (snd x =? snd y).

(* what the harness saw of one task: None = the function was not called *)
Definition ocall := option (list parg * list (Z * Z)).

(* 0 = the observed call is exactly the model's; 1 = not called; 2 = another NUMBER of positional arguments;
   3 = the right number, other arguments; 5 = other keyword arguments; 6 = the model has no such task *)
Definition call_code (m : option callrec) (o : ocall) : Z :=
  match m, o with
  | None, _ => 6
  | Some _, None => 1
  | Some r, Some (p, k) =>
      if negb (Nat.eqb (length p) (length (c_pos r))) then 2
      else if negb (list_eqb parg_eqb p (c_pos r)) then 3
      else if negb (list_eqb zpair_eqb k (c_kw r)) then 5
      else 0
  end.

(* the caller's object after the run: 0 = what it held before, 1 = it GREW, 2 = other change *)
Definition after_code (before now : list parg) : Z :=
  if list_eqb parg_eqb now before then 0
  else if (length before <? length now)%nat then 1 else 2.

Definition kw_after_code (before now : list (Z * Z)) : Z :=
  if list_eqb zpair_eqb now before then 0 else 1.

Definition mk_parg (p : Z * Z) : parg :=
  let '(k, v) := p in
  if k =? 0 then PUser v else if k =? 1 then PContent (Z.to_nat v) else if k =? 2 then PInfo (Z.to_nat v)
  else POther k v.

Definition mk_cargs (form : Z) (l : list Z) : cargs :=
  if form =? 0 then ANone else if form =? 1 then ATuple l else AList l.

Definition mk_ocall (o : Z * list (Z * Z) * list (Z * Z)) : ocall :=
  let '(called, p, k) := o in if called =? 0 then None else Some (map mk_parg p, k).

(* maximally interleaved schedule: all copies, then all content appends, all info appends, all calls *)
Definition round_robin (n : nat) : list nat := seq 0 n ++ seq 0 n ++ seq 0 n ++ seq 0 n.

(* per task of the stream 0 .. n-1: the code of the observed call against the model's call; then the codes of
   the caller's args object and kwargs dict after the run.  The schedule is the forced completion order, every
   task running through at once, followed by a round robin over whatever has not run *)
Definition args_check (oc pi : bool) (form : Z) (uargs : list Z) (kw : list (Z * Z)) (n : Z) (order : list Z)
    (obs : list (Z * list (Z * Z) * list (Z * Z))) (after kwafter : list (Z * Z)) : list Z * Z * Z :=
  let c := {| a_on_content := oc; a_pass_info := pi |} in
  let a := mk_cargs form uargs in
  let fs := seq 0 (Z.to_nat n) in
  let sch := flat_map (fun k => let i := Z.to_nat k in [i; i; i; i]) order ++ round_robin (Z.to_nat n) in
  let s := run_wrappers c a kw fs sch in
  (map (fun '(i, o) => call_code (call_of s i) (mk_ocall o)) (combine fs obs),
   after_code (cell s) (map mk_parg after), kw_after_code (kwcell s) kwafter).
