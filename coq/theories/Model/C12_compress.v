(* C12 -- executable model of typhon/files/utils.py: compress, compress_as, decompress.
   Nothing but definitions: the model must stay runnable when a proof breaks.

   The model mirrors the control structure of the code (with TemporaryDirectory / try-finally / the
   per-format writers) as a function of ONE fault point: the primitive step that raises.  Codecs
   (gzip, bz2, lzma, zipfile) and the format table are Section variables; the table is instantiated
   by the translated `_known_compressions` (coq/gen/C12_formats.v), the codecs by a toy instance that
   is used only to run the model on generated cases. *)
From Coq Require Import ZArith List Bool String Ascii.
Import ListNotations.
Open Scope Z_scope.

(* ------------------------------------------------------------------ names: os.path, str methods *)
Definition str := list ascii.
Definition dot : ascii := "."%char.
Definition sep : ascii := "/"%char.
Definition s2l (s : string) : str := list_ascii_of_string s.

Fixpoint str_eqb (a b : str) : bool :=
  match a, b with
  | [], [] => true
  | x :: a', y :: b' => Ascii.eqb x y && str_eqb a' b'
  | _, _ => false
  end.

(* split at the LAST occurrence of c (str.rfind): Some (before, after), c itself dropped *)
Fixpoint rsplit (c : ascii) (l : str) : option (str * str) :=
  match l with
  | [] => None
  | x :: t =>
      match rsplit c t with
      | Some (a, b) => Some (x :: a, b)
      | None => if Ascii.eqb x c then Some ([], t) else None
      end
  end.

(* os.path.basename / the directory part including its trailing separator *)
Definition basename (p : str) : str := match rsplit sep p with Some (_, b) => b | None => p end.
Definition dirpart (p : str) : str := match rsplit sep p with Some (a, _) => a ++ [sep] | None => [] end.

Definition all_dots (l : str) : bool := forallb (fun a => Ascii.eqb a dot) l.

(* genericpath._splitext on the last path component: the extension starts at the last dot unless
   everything before that dot is dots (leading dots belong to the root) *)
Definition splitext_last (l : str) : str * str :=
  match rsplit dot l with
  | Some (pre, suf) => if all_dots pre then (l, []) else (pre, dot :: suf)
  | None => (l, [])
  end.

(* os.path.splitext *)
Definition splitext (p : str) : str * str :=
  let '(b, e) := splitext_last (basename p) in (dirpart p ++ b, e).

(* str.lstrip(".") *)
Fixpoint lstrip_dots (l : str) : str :=
  match l with
  | c :: t => if Ascii.eqb c dot then lstrip_dots t else l
  | [] => []
  end.

(* str.endswith *)
Definition endswith (s suf : str) : bool :=
  (List.length suf <=? List.length s)%nat && str_eqb (skipn (List.length s - List.length suf) s) suf.

(* fmt = fileext.lstrip(".")   (compress: 64-67, decompress: 174-176) *)
Definition fmt_of_name (p : str) : str := lstrip_dots (snd (splitext p)).

(* compress_as 107-111: the member name inside a zip archive *)
Definition member_c (target fmt : str) : str :=
  let tf := basename target in
  let '(tb, ext) := splitext tf in
  if endswith ext fmt then tb else tf.

(* decompress 174-175: filebase = basename(splitext(filename)[0]) *)
Definition member_d (p : str) : str := basename (fst (splitext p)).

(* is_compression_format for a table of keys *)
Definition knownb (tbl : list string) (f : str) : bool := existsb (fun k => str_eqb (s2l k) f) tbl.

(* what the documentation and the property advertise *)
Definition advertised : list string := ["gz"; "bz2"; "zip"; "xz"]%string.
Definition is_adv (f : str) : bool := knownb advertised f.

(* the per-format branches of compress_as 117-132 *)
Inductive wkind := WZip | WGz | WStream | WNone.
Definition writer_of (f : str) : wkind :=
  if str_eqb f (s2l "zip") then WZip
  else if str_eqb f (s2l "gz") then WGz
  else if str_eqb f (s2l "bz2") || str_eqb f (s2l "xz") then WStream
  else WNone.
Definition is_zip (f : str) : bool := str_eqb f (s2l "zip").

(* ------------------------------------------------------------------ state *)
Definition bytes := list Z.
Definition fsmap := list (str * bytes).          (* user-visible files; the first binding wins *)

Fixpoint flook (name : str) (fs : fsmap) : option bytes :=
  match fs with
  | [] => None
  | (k, v) :: t => if str_eqb k name then Some v else flook name t
  end.
Definition fwrite (name : str) (b : bytes) (fs : fsmap) : fsmap := (name, b) :: fs.
Definition funlink (name : str) (fs : fsmap) : fsmap := filter (fun kv => negb (str_eqb (fst kv) name)) fs.

Record state := mkSt {
  files  : fsmap;
  tdirs  : list (Z * option bytes);   (* live TemporaryDirectory ids; content of their file 'temp' *)
  tfiles : list (Z * bytes);          (* live NamedTemporaryFile(delete=False) ids with content *)
  next   : Z }.

Definition set_files (st : state) (fs : fsmap) : state := mkSt fs (tdirs st) (tfiles st) (next st).

Fixpoint upd_first {A} (n : Z) (v : A) (l : list (Z * A)) : list (Z * A) :=
  match l with
  | [] => []
  | (k, x) :: t => if k =? n then (k, v) :: t else (k, x) :: upd_first n v t
  end.
Fixpoint del_first {A} (n : Z) (l : list (Z * A)) : list (Z * A) :=
  match l with
  | [] => []
  | (k, x) :: t => if k =? n then t else (k, x) :: del_first n t
  end.
Fixpoint look_first {A} (n : Z) (l : list (Z * A)) : option A :=
  match l with
  | [] => None
  | (k, x) :: t => if k =? n then Some x else look_first n t
  end.

Definition mkdtemp (st : state) : Z * state :=
  (next st, mkSt (files st) ((next st, None) :: tdirs st) (tfiles st) (next st + 1)).
Definition td_write (n : Z) (b : bytes) (st : state) : state :=
  mkSt (files st) (upd_first n (Some b) (tdirs st)) (tfiles st) (next st).
Definition td_read (n : Z) (st : state) : option bytes :=
  match look_first n (tdirs st) with Some (Some b) => Some b | _ => None end.
Definition rmtree (n : Z) (st : state) : state :=
  mkSt (files st) (del_first n (tdirs st)) (tfiles st) (next st).

Definition mktemp (st : state) : Z * state :=
  (next st, mkSt (files st) (tdirs st) ((next st, []) :: tfiles st) (next st + 1)).
Definition tf_write (n : Z) (b : bytes) (st : state) : state :=
  mkSt (files st) (tdirs st) (upd_first n b (tfiles st)) (next st).
Definition tf_unlink (n : Z) (st : state) : state :=
  mkSt (files st) (tdirs st) (del_first n (tfiles st)) (next st).

(* number of temporary entries alive *)
Definition ntemps (st : state) : Z := Z.of_nat (List.length (tdirs st) + List.length (tfiles st)).

(* ------------------------------------------------------------------ fault points *)
Inductive outcome := Done | Raised.
Inductive yielded := YNone | YName | YTemp | YTarget.

(* compress: the primitive step that raises *)
Inductive cfault :=
| CNone
| CMkdtemp                 (* TemporaryDirectory(dir=tmpdir) raises *)
| CBody (j : option nat)   (* the caller's block raises: None = before the file exists,
                              Some j = after j blocks were written *)
| COpenIn                  (* compress_as: the uncompressed file cannot be opened (gz, bz2, xz) /
                              ZipFile.write cannot read it (zip) *)
| COpenOut                 (* the target cannot be opened; nothing was created *)
| CWrap                    (* gz only: GzipFile(fileobj=...) raises after open(target,'wb') *)
| CCopy (j : nat)          (* the copy raises after j blocks *)
| CClose.                  (* closing the compressor raises before the archive is complete *)

(* decompress *)
Inductive dfault :=
| DNone
| DMktemp                  (* NamedTemporaryFile(dir=tmpdir) / open(target,'wb') raises *)
| DOpen                    (* the compressor cannot open the archive *)
| DCopy (j : nat)          (* the copy raises after j blocks *)
| DClose                   (* tmpfile.close() raises *)
| DBody (after_read : bool). (* the caller's block raises *)

(* result of reading a stored file completely with the codec of a format *)
Inductive dres := DOk (b : bytes) | DErrOpen | DErrRead (written : bytes).

Record cres := mkC { c_st : state; c_out : outcome; c_yield : yielded; c_during : Z }.
Record dresult := mkD { d_st : state; d_out : outcome; d_yield : yielded; d_during : Z;
                        d_read : option bytes }.

Section Model.
  Variable known : str -> bool.                  (* is_compression_format *)
  Variable enc : str -> str -> bytes -> bytes.   (* format, member name, payload -> complete archive *)
  Variable encp : str -> bytes.                  (* what an interrupted writer leaves; nothing is assumed *)
  Variable dec : str -> str -> bytes -> dres.    (* format, member name, stored bytes *)

  (* the caller's block: write b to the yielded path *)
  Definition body_write (b : bytes) (flt : cfault) : option bytes * outcome :=
    match flt with
    | CBody None => (None, Raised)
    | CBody (Some j) => (Some (firstn j b), Raised)
    | _ => (Some b, Done)
    end.

  (* compress_as(tfile, fmt, target, keep=True) on the user-visible files; src = content of tfile *)
  Definition compress_as (src : option bytes) (fmt target : str) (flt0 : cfault) (fs : fsmap)
    : fsmap * outcome :=
    let m := member_c target fmt in
    let flt := match src with None => COpenIn | Some _ => flt0 end in
    let b := match src with Some x => x | None => [] end in
    if negb (known fmt) then (fs, Raised)                       (* ValueError *)
    else match writer_of fmt with
    | WZip =>
        (* with ZipFile(target,'w') as f_out: f_out.write(filename, arcname=...) *)
        match flt with
        | COpenOut => (fs, Raised)
        | COpenIn | CClose => (fwrite target (encp fmt) fs, Raised)
        | CCopy j => (fwrite target (enc fmt m (firstn j b)) fs, Raised)   (* the member is closed by its with *)
        | _ => (fwrite target (enc fmt m b) fs, Done)
        end
    | WGz =>
        (* with open(filename,'rb'): with open(target,'wb'): with GzipFile(fileobj=): copyfileobj *)
        match flt with
        | COpenIn | COpenOut => (fs, Raised)
        | CWrap => (fwrite target [] fs, Raised)
        | CCopy j => (fwrite target (enc fmt m (firstn j b)) fs, Raised)
        | CClose => (fwrite target (encp fmt) fs, Raised)
        | _ => (fwrite target (enc fmt m b) fs, Done)
        end
    | WStream =>
        (* with open(filename,'rb'): with compfile(target,'wb'): copyfileobj *)
        match flt with
        | COpenIn | COpenOut => (fs, Raised)
        | CCopy j => (fwrite target (enc fmt m (firstn j b)) fs, Raised)
        | CClose => (fwrite target (encp fmt) fs, Raised)
        | _ => (fwrite target (enc fmt m b) fs, Done)
        end
    | WNone => (fs, Done)                                       (* no branch of 117-132 applies *)
    end.

  Definition eff_fmt (name : str) (fmtarg : option str) : str :=
    match fmtarg with Some f => f | None => fmt_of_name name end.

  (* with compress(name, fmt=fmtarg, tmpdir=...) as f: write b to f *)
  Definition run_compress (st : state) (name : str) (fmtarg : option str) (b : bytes) (flt : cfault)
    : cres :=
    let fmt := eff_fmt name fmtarg in
    if negb (known fmt) then
      (* 69-71: yield filename; the block writes to the name itself *)
      let '(w, o) := body_write b flt in
      mkC (match w with Some x => set_files st (fwrite name x (files st)) | None => st end)
          o YName (ntemps st)
    else
      match flt with
      | CMkdtemp => mkC st Raised YNone (ntemps st)
      | _ =>
        (* 73-76 *)
        let '(n, st1) := mkdtemp st in
        let '(w, o) := body_write b flt in
        let st2 := match w with Some x => td_write n x st1 | None => st1 end in
        match o with
        | Raised => mkC (rmtree n st2) Raised YTemp (ntemps st2)
        | Done =>
            let '(fs', o') := compress_as (td_read n st2) fmt name flt (files st2) in
            mkC (rmtree n (set_files st2 fs')) o' YTemp (ntemps st2)
        end
      end.

  (* with decompress(name, tmpdir=..., target=target) as f: read f *)
  Definition run_decompress (st : state) (name : str) (target : option str) (flt : dfault)
    : dresult :=
    let fmt := fmt_of_name name in
    let m := member_d name in
    if negb (known fmt) then
      (* 178-180: yield filename *)
      match flt with
      | DBody false => mkD st Raised YName (ntemps st) None
      | DBody true => mkD st Raised YName (ntemps st) (flook name (files st))
      | _ => mkD st (match flook name (files st) with Some _ => Done | None => Raised end)
                 YName (ntemps st) (flook name (files st))
      end
    else
      match flt with
      | DMktemp => mkD st Raised YNone (ntemps st) None
      | _ =>
        (* 182-186: the copy is created empty *)
        let '(n, st1) := match target with
                         | None => mktemp st
                         | Some t => (next st, set_files st (fwrite t [] (files st)))
                         end in
        let put (x : bytes) (s : state) : state :=
          match target with
          | None => tf_write n x s
          | Some t => set_files s (fwrite t x (files s))
          end in
        let y := match target with None => YTemp | Some _ => YTarget end in
        (* 191-201: try; `entered` = the caller's block was reached *)
        let '(st2, o, entered, rd) :=
          match flt with
          | DOpen => (st1, Raised, false, None)
          | _ =>
            match flook name (files st1) with
            | None => (st1, Raised, false, None)               (* FileNotFoundError *)
            | Some x =>
              match dec fmt m x with
              | DErrOpen => (st1, Raised, false, None)
              | DErrRead p => (put p st1, Raised, false, None)
              | DOk b =>
                match flt with
                | DCopy j => (put (firstn j b) st1, Raised, false, None)
                | DClose => (put b st1, Raised, false, None)
                | DBody false => (put b st1, Raised, true, None)
                | DBody true => (put b st1, Raised, true, Some b)
                | _ => (put b st1, Done, true, Some b)
                end
              end
            end
          end in
        (* 202-203: finally os.unlink(tmpfile.name) *)
        let st3 := match target with
                   | None => tf_unlink n st2
                   | Some t => set_files st2 (funlink t (files st2))
                   end in
        mkD st3 o (if entered then y else YNone) (if entered then ntemps st2 else ntemps st) rd
      end.
End Model.

(* ------------------------------------------------------------------ a concrete codec
   Used to RUN the model on generated cases and to show that the codec hypotheses of the theorems are
   satisfiable.  Archives start with a negative marker; payload blocks are non-negative tokens. *)
Definition codes (s : str) : list Z := map (fun a => Z.of_nat (nat_of_ascii a)) s.
Fixpoint zs_eqb (a b : list Z) : bool :=
  match a, b with
  | [], [] => true
  | x :: a', y :: b' => (x =? y) && zs_eqb a' b'
  | _, _ => false
  end.
Definition put_str (s : list Z) (rest : list Z) : list Z := Z.of_nat (List.length s) :: s ++ rest.
Definition take_str (l : list Z) : option (list Z * list Z) :=
  match l with
  | n :: t => if (Z.to_nat n <=? List.length t)%nat && (0 <=? n)
              then Some (firstn (Z.to_nat n) t, skipn (Z.to_nat n) t) else None
  | [] => None
  end.
Definition toy_enc (f m : str) (b : bytes) : bytes := (-3) :: put_str (codes f) (put_str (codes m) b).
Definition toy_encp (f : str) : bytes := [-4].
Definition toy_dec (f m : str) (x : bytes) : dres :=
  match x with
  | h :: t =>
      if h =? -2 then DErrRead t
      else if h =? -3 then
        match take_str t with
        | Some (f', t1) =>
            match take_str t1 with
            | Some (m', b) =>
                if zs_eqb f' (codes f) && (negb (is_zip f) || zs_eqb m' (codes m)) then DOk b else DErrOpen
            | None => DErrOpen
            end
        | None => DErrOpen
        end
      else DErrOpen
  | [] => if str_eqb f (s2l "gz") then DOk [] else DErrOpen   (* gzip reads an empty file as an empty stream *)
  end.

(* ------------------------------------------------------------------ cases of the correspondence *)
(* what the harness puts at `name` before the operations *)
Inductive prior :=
| NoFile
| RawFile (b : bytes)                    (* uninterpreted bytes (non-negative tokens) *)
| Archive (f m : str) (b : bytes)        (* a genuine archive made with the standard library *)
| CorruptOpen                            (* opening / first read fails *)
| CorruptRead (p : bytes).               (* reading fails after p was delivered *)

Definition prior_bytes (p : prior) : option bytes :=
  match p with
  | NoFile => None
  | RawFile b => Some b
  | Archive f m b => Some (toy_enc f m b)
  | CorruptOpen => Some [-1]
  | CorruptRead p => Some ((-2) :: p)
  end.

Record case := mkCase {
  k_prior : prior;
  k_name : string;
  k_comp : bool;               (* run compress *)
  k_fmtarg : option string;
  k_b : bytes;
  k_cf : cfault;
  k_dec : bool;                (* run decompress afterwards *)
  k_target : option string;
  k_df : dfault }.

Definition bool_z (b : bool) : Z := if b then 1 else 0.
Definition out_z (o : outcome) : Z := match o with Done => 0 | Raised => 1 end.
Definition yield_z (y : yielded) : Z := match y with YNone => 0 | YName => 1 | YTemp => 2 | YTarget => 3 end.
Definition opt_bytes_eqb (a b : option bytes) : bool :=
  match a, b with
  | None, None => true
  | Some x, Some y => zs_eqb x y
  | _, _ => false
  end.

(* observations, as flat lists the harness can reproduce from the real run:
   compress:   [raised; yielded; entries in tmpdir during the block; entries left;
                target exists; target bytes equal the prior bytes]  and the payload the
                effective format's codec decodes from the target (None: absent or not decodable)
   decompress: [raised; yielded; entries during the block; entries left; copy gone;
                archive bytes unchanged]  and what the block read *)
Definition obs := (list Z * option bytes)%type.

Definition init_state (p : prior) (name : str) : state :=
  mkSt (match prior_bytes p with Some x => [(name, x)] | None => [] end) [] [] 0.

Definition decode_target (dec : str -> str -> bytes -> dres) (fmt name : str) (fs : fsmap) : option bytes :=
  match flook name fs with
  | Some x => match dec fmt (member_c name fmt) x with DOk b => Some b | _ => None end
  | None => None
  end.

Definition run_case (tbl : list string) (c : case) : obs * obs * state :=
  let known := knownb tbl in
  let name := s2l (k_name c) in
  let fa := option_map s2l (k_fmtarg c) in
  let st0 := init_state (k_prior c) name in
  let before := flook name (files st0) in
  let '(st1, oc) :=
    if k_comp c then
      let r := run_compress known toy_enc toy_encp st0 name fa (k_b c) (k_cf c) in
      let after := flook name (files (c_st r)) in
      (c_st r,
       ([out_z (c_out r); yield_z (c_yield r); c_during r; ntemps (c_st r);
         bool_z (match after with Some _ => true | None => false end);
         bool_z (match before with Some _ => opt_bytes_eqb before after | None => false end)],
        decode_target toy_dec (eff_fmt name fa) name (files (c_st r))))
    else (st0, ([], None)) in
  let '(st2, od) :=
    if k_dec c then
      let stored := flook name (files st1) in
      let r := run_decompress known toy_dec st1 name (option_map s2l (k_target c)) (k_df c) in
      (d_st r,
       ([out_z (d_out r); yield_z (d_yield r); d_during r; ntemps (d_st r);
         bool_z (match d_yield r, k_target c with
                 | YName, _ => true                         (* passed through: there is no copy *)
                 | _, Some t => match flook (s2l t) (files (d_st r)) with None => true | Some _ => false end
                 | _, None => true
                 end);
         bool_z (opt_bytes_eqb stored (flook name (files (d_st r))))],
        d_read r))
    else (st1, ([], None)) in
  (oc, od, st2).

(* ------------------------------------------------------------------ the property as a checker
   on observations (what the statement of C12 fixes, clause by clause; 0 = holds / not applicable,
   otherwise the number of the clause that fails).  Used on the observations of the REAL code. *)
Definition nthz (l : list Z) (i : nat) : Z := nth i l (-1).

Definition is_body_fault (f : cfault) : bool := match f with CBody _ => true | _ => false end.
Definition is_cnone (f : cfault) : bool := match f with CNone => true | _ => false end.
Definition is_dnone (f : dfault) : bool := match f with DNone => true | _ => false end.

Definition spec_compress (c : case) (o : obs) : list Z :=
  let name := s2l (k_name c) in
  let fa := option_map s2l (k_fmtarg c) in
  let fmt := eff_fmt name fa in
  let '(v, decd) := o in
  let had := match prior_bytes (k_prior c) with Some _ => true | None => false end in
  (* 1: no temporary file or directory remains, however the block is left *)
  (if nthz v 3 =? 0 then [] else [1])
  (* 2: a name without compression suffix is passed through untouched *)
  ++ (if negb (is_adv fmt) && (match fa with None => true | Some _ => false end)
         && negb (nthz v 1 =? 1) then [2] else [])
  (* 3: no fault, advertised format: no exception, the stored file is a genuine archive of that
        format and holds exactly the bytes written *)
  ++ (if is_adv fmt && is_cnone (k_cf c)
         && negb ((nthz v 0 =? 0) && opt_bytes_eqb decd (Some (k_b c))) then [3] else [])
  (* 4: an exception inside the block creates no target and leaves an existing one as it was *)
  ++ (if is_adv fmt && is_body_fault (k_cf c)
         && negb (if had then (nthz v 4 =? 1) && (nthz v 5 =? 1) else (nthz v 4 =? 0)) then [4] else []).

Definition spec_decompress (c : case) (o : obs) : list Z :=
  let name := s2l (k_name c) in
  let fmt := fmt_of_name name in
  let '(v, rd) := o in
  (* 5: no temporary file remains *)
  (if nthz v 3 =? 0 then [] else [5])
  (* 6: the decompressed copy is gone *)
  ++ (if nthz v 4 =? 1 then [] else [6])
  (* 7: round trip: compress without fault, then decompress without fault, advertised suffix,
        format given by the suffix: the block reads exactly the bytes written *)
  ++ (if k_comp c && is_cnone (k_cf c) && is_dnone (k_df c) && is_adv fmt
         && str_eqb (eff_fmt name (option_map s2l (k_fmtarg c))) fmt
         && negb (match k_target c with Some t => str_eqb (s2l t) name | None => false end)
         && negb ((nthz v 0 =? 0) && opt_bytes_eqb rd (Some (k_b c))) then [7] else [])
  (* 8: a name without compression suffix is passed through *)
  ++ (if negb (is_adv fmt) && negb (nthz v 1 =? 1) then [8] else []).

Definition spec_case (c : case) (oc od : obs) : list Z :=
  (if k_comp c then spec_compress c oc else []) ++ (if k_dec c then spec_decompress c od else []).

(* one line per generated case: the model's observations, the verdict of the property on the
   implementation's observations, and its verdict on the model's own observations *)
Definition eval_case (tbl : list string) (c : case) (ic id : obs)
  : list Z * option bytes * list Z * option bytes * list Z * list Z :=
  let '(oc, od, _) := run_case tbl c in
  (fst oc, snd oc, fst od, snd od, spec_case c ic id, spec_case c oc od).
