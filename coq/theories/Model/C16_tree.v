(* Model/C16_tree.v -- find_closest composed with the model of FileSet.find (property C01), the order in which the
   code picks among equally good files, the dispatch of fileset[...], and the layout of a template.
   DEFINITIONS ONLY (lemmas: Proofs/C16_tree.v; statements: Props/C16.v).

   Model/C16_closest.v takes the candidate set of find_closest as the brute-force filter `found` over a flat
   listing.  Here the same algorithm runs on a TREE: the files are those of C01 (coverage, the time their directory
   names were rendered from, user placeholders, excluded by name), the search is C01's `found` -- the directory walk
   with look-back, per-level truncation and year-only fallback, then overlap, exclusion tree, black list -- in the
   order of the walk (find(..., sort=False)), and the window is computed from the directory layout:

       typhon/files/fileset.py, find_closest:
           if self._sub_dir_time_resolution is None:  start = datetime.min;  end = datetime.max
           else:  start = timestamp - self._sub_dir_time_resolution;  end = timestamp + self._sub_dir_time_resolution
           files = list(self.find(start, end, sort=False, filters=filters))

   _sub_dir_time_resolution is a FIXED timedelta (FileSet._temporal_resolution: year = 366 days, month = 31 days,
   day, hour, ...; no relativedelta): the window is t -+ Calendar.period (finest directory placeholder), it is NOT
   aligned to calendar months or years, while the directories are.  A file two month-directories away can
   therefore lie inside the window (31 Jan 23:00 -> 1 Mar 00:00 is 28 days 1 hour). *)
From Coq Require Import ZArith List Bool Ascii String.
From Typhon Require Import Base.Calendar Model.C02_template Model.C16_closest.
From Typhon Require Model.C03_tree Model.C01_find.
Import ListNotations.
Open Scope Z_scope.

Module F := Typhon.Model.C01_find.

(* ------------------------------------------------------------------ the choice among the files found, generically *)

Section Choose.
  Context {A : Type}.
  Variables (c0 c1 : A -> Z).                 (* coverage [c0 a, c1 a] *)

  Definition gcov (t : Z) (a : A) : bool := (c0 a <=? t) && (t <=? c1 a).
  Definition gdist (t : Z) (a : A) : Z := Z.min (Z.abs (c0 a - t)) (Z.abs (c1 a - t)).
  Definition gbetter (t : Z) (b p : nat * A) : nat * A := if gdist t (snd p) <? gdist t (snd b) then p else b.

  (* `for index, time_coverage in enumerate(times): if contains: return files[index]`, else np.argmin *)
  Definition gchoose (t : Z) (l : list (nat * A)) : option nat :=
    match l with
    | [] => None
    | c :: cs' => match find (fun p => gcov t (snd p)) (c :: cs') with
                  | Some p => Some (fst p)
                  | None => Some (fst (fold_left (gbetter t) cs' c))
                  end
    end.
  Definition gsearch (sel : A -> bool) (t : Z) (fs : list A) : option nat :=
    gchoose t (filter (fun p => sel (snd p)) (indexed fs)).

  (* WHICH file is returned (fs = the files in the order find yields them, sel = found by find):
     the first one that covers t; when none covers t, the first one whose end-point distance is minimal.
     None exactly when find yields nothing. *)
  Definition FirstSpec (sel : A -> bool) (t : Z) (fs : list A) (r : option nat) : Prop :=
    match r with
    | None => forall a, In a fs -> sel a = false
    | Some i => exists g, nth_error fs i = Some g /\ sel g = true /\
        ((gcov t g = true /\
          forall j a, (j < i)%nat -> nth_error fs j = Some a -> sel a = true -> gcov t a = false)
         \/
         ((forall a, In a fs -> sel a = true -> gcov t a = false) /\
          forall j a, nth_error fs j = Some a -> sel a = true ->
                      gdist t g <= gdist t a /\ ((j < i)%nat -> gdist t g < gdist t a)))
    end.
End Choose.

(* ------------------------------------------------------------------ the window, from the directory layout *)

(* _sub_dir_time_resolution: None without sub-directory placeholders, else the nominal period of the finest
   temporal placeholder of the directories (366 days when they carry user placeholders only) *)
Definition tree_period (lay : F.layout) : option Z :=
  match lay with [] => None | _ => Some (F.lookback lay) end.

(* (start, end) handed to find: all of datetime, or t -+ one period *)
Definition window (lay : F.layout) (t : Z) : Z * Z :=
  match lay with
  | [] => (0, dt_max - 1)
  | _ => (t - F.lookback lay, t + F.lookback lay)
  end.
Definition window_query (lay : F.layout) (t : Z) (w b : list (Z * list Z)) (ex : list (Z * Z)) : F.query :=
  F.mkq (fst (window lay t)) (snd (window lay t)) w b ex.

(* timestamp -+ timedelta leaves datetime: OverflowError.  This is find_closest's OWN arithmetic (fileset.py, the two
   lines quoted above), which is not guarded; find's look-back from the window start (start - P once more) is clamped
   at datetime.min since /repo bd49e45 (C01: F.dir_start) and raises nothing *)
Definition window_overflows (lay : F.layout) (t : Z) : bool :=
  match lay with
  | [] => false
  | _ => (t - F.lookback lay <? 0) || (dt_max - 1 <? t + F.lookback lay)
  end.

(* find(start, end, sort=False): C01's algorithm without the final sort *)
Definition find_unsorted (lay : F.layout) (fs : list F.file) (q : F.query) : F.result (list F.file) :=
  if F.qend q - 1 <? F.qstart q then F.Err F.ValueErr
  else F.Ok (filter (F.found false lay q) fs).

Inductive tanswer := TFile (i : nat) | TNone | TErr (e : F.err).

(* the search part of find_closest on a tree; fs = the files of the tree in the order of the directory walk *)
Definition tree_search (lay : F.layout) (fs : list F.file) (w b : list (Z * list Z)) (ex : list (Z * Z)) (t : Z)
  : tanswer :=
  let q := window_query lay t w b ex in
  if window_overflows lay t then TErr F.OverflowErr
  else if F.qend q - 1 <? F.qstart q then TErr F.ValueErr
  else match gsearch F.t0 F.t1 (F.found false lay q) t fs with
       | Some i => TFile i
       | None => TNone
       end.

(* the whole of find_closest on a tree: `exact` = the position of the file get_filename(t) names, when it exists
   (decided on the names, Model/C16_closest.exact_name); the short cut is taken without filters and for a file
   that is not excluded, and comes BEFORE the window arithmetic *)
Definition tree_closest (lay : F.layout) (fs : list F.file) (exact : option nat) (filtered : bool)
  (w b : list (Z * list Z)) (ex : list (Z * Z)) (t : Z) : tanswer :=
  let fallback := tree_search lay fs w b ex t in
  match exact with
  | Some i => match nth_error fs i with
              | Some f => if negb filtered && negb (F.excluded_model (window_query lay t w b ex) f)
                          then TFile i else fallback
              | None => fallback
              end
  | None => fallback
  end.

Definition t2o (a : tanswer) : option nat := match a with TFile i => Some i | _ => None end.

(* hypothesis on the timestamp: the window [t - P, t + P] stays inside datetime (the code computes both ends without
   a guard).  Nothing is asked about find's look-back from t - P any more: C01's theorems hold for every
   representable start since the look-back is clamped (before /repo bd49e45 this read t = P \/ 2 P <= t) *)
Definition window_ok (lay : F.layout) (t : Z) : Prop :=
  valid t /\
  match lay with
  | [] => t <= dt_max - 2
  | _ => F.lookback lay <= t /\ t + F.lookback lay <= dt_max - 1
  end.
Definition window_okb (lay : F.layout) (t : Z) : bool :=
  validb t &&
  match lay with
  | [] => t <=? dt_max - 2
  | _ => (F.lookback lay <=? t) && (t + F.lookback lay <=? dt_max - 1)
  end.

(* the brute-force candidate of the property, on the tree: a file whose coverage meets [start, end), that is
   not excluded and passes the filters = C01's `selected` for the window *)
Definition tcand (lay : F.layout) (t : Z) (w b : list (Z * list Z)) (ex : list (Z * Z)) (f : F.file) : bool :=
  F.selected (window_query lay t w b ex) f.

(* the property on the tree: the answer is a candidate; it covers t whenever a candidate does; otherwise its
   end-point distance is minimal among the candidates; None exactly when the tree has no candidate *)
Definition TreeSpec (lay : F.layout) (fs : list F.file) (w b : list (Z * list Z)) (ex : list (Z * Z)) (t : Z)
  (r : option nat) : Prop :=
  match r with
  | None => forall f, In f fs -> tcand lay t w b ex f = false
  | Some i => exists g, nth_error fs i = Some g /\ tcand lay t w b ex g = true /\
      ((exists a, In a fs /\ tcand lay t w b ex a = true /\ gcov F.t0 F.t1 t a = true) -> gcov F.t0 F.t1 t g = true) /\
      ((forall a, In a fs -> tcand lay t w b ex a = true -> gcov F.t0 F.t1 t a = false) ->
       forall a, In a fs -> tcand lay t w b ex a = true -> gdist F.t0 F.t1 t g <= gdist F.t0 F.t1 t a)
  end.
Definition o2t (r : option nat) : tanswer := match r with Some i => TFile i | None => TNone end.

(* a flat listing (names, coverages, string attributes: Model/C16_closest) describes the tree when the
   coverages are the same and the verdicts of filters and exclusions agree file by file *)
Definition agrees (emb : F.file -> file) (q : query) (qt : F.query) (fs : list F.file) : Prop :=
  forall f, In f fs ->
    ft0 (emb f) = F.t0 f /\ ft1 (emb f) = F.t1 f /\
    passes q (emb f) = F.passes qt f /\ excluded q (emb f) = F.excluded_spec qt f.

(* ------------------------------------------------------------------ directory positions (edge cases) *)

(* index of the directory period a time falls into, for the fixed-length levels (day, hour, minute, second) *)
Definition dir_index (p t : Z) : Z := t / p.

(* ------------------------------------------------------------------ the layout of a template *)

(* _standardise_datetime_args: year2 -> year, doy -> month + day; sub-second placeholders have no counterpart *)
Definition std_field (f : tfield) : list F.tfield :=
  match f with
  | FYear | FYear2 => [F.FYear] | FMonth => [F.FMonth] | FDay => [F.FDay] | FDoy => [F.FMonth; F.FDay]
  | FHour => [F.FHour] | FMinute => [F.FMinute] | FSecond => [F.FSecond]
  | FDeci | FCenti | FMilli | FMicro => []
  end.
Definition subsecond (f : tfield) : bool :=
  match f with FDeci | FCenti | FMilli | FMicro => true | _ => false end.

(* the path, character by character *)
Inductive ev := ESlash | EChar | EField (f : tfield) | EPlace.
Definition tok_events (t : tok) : list ev :=
  match t with
  | Lit s => map (fun a => if is_slash a then ESlash else EChar) s
  | T false f => [EField f]
  | T true _ => [EPlace]
  | U _ _ => [EPlace]
  | Star => [EPlace]
  end.
(* posixpath.dirname: everything before the last '/' *)
Fixpoint before_last_slash (l : list ev) : list ev :=
  match l with
  | [] => []
  | e :: l' => if existsb (fun x => match x with ESlash => true | _ => false end) l' then e :: before_last_slash l'
               else []
  end.
Definition close_chunk (has : bool) (cur : list F.tfield) : F.chunk := if has then F.CPat cur else F.CLit.
(* the base directory ends at the first placeholder; from there on every '/' closes a chunk *)
Fixpoint chunks (started has : bool) (cur : list F.tfield) (l : list ev) : F.layout :=
  match l with
  | [] => if started then [close_chunk has cur] else []
  | ESlash :: l' => if started then close_chunk has cur :: chunks true false [] l' else chunks false false [] l'
  | EChar :: l' => chunks started has cur l'
  | EField f :: l' => chunks true true (cur ++ std_field f) l'
  | EPlace :: l' => chunks true true cur l'
  end.
Definition layout_of (tp : list tok) : F.layout :=
  chunks false false [] (before_last_slash (flat_map tok_events tp)).

Definition chunk_eqb (a b : F.chunk) : bool :=
  match a, b with
  | F.CLit, F.CLit => true
  | F.CPat x, F.CPat y => (Nat.eqb (List.length x) (List.length y)) && forallb (fun p => F.tf_eqb (fst p) (snd p)) (combine x y)
  | _, _ => false
  end.
Definition layout_eqb (a b : F.layout) : bool :=
  Nat.eqb (List.length a) (List.length b) && forallb (fun p => chunk_eqb (fst p) (snd p)) (combine a b).

(* what ties a layout to a template for the window: the same temporal placeholders in the directory part *)
Definition fields_of_layout (tp : list tok) (lay : F.layout) : Prop :=
  F.all_fields lay = flat_map std_field (start_fields (dir_part tp)) /\
  (lay = [] <-> forallb is_lit (dir_part tp) = true) /\
  forallb (fun f => negb (subsecond f)) (start_fields (dir_part tp)) = true.
Definition tfl_eqb (a b : list F.tfield) : bool :=
  Nat.eqb (List.length a) (List.length b) && forallb (fun p => F.tf_eqb (fst p) (snd p)) (combine a b).
Definition fields_of_layoutb (tp : list tok) (lay : F.layout) : bool :=
  tfl_eqb (F.all_fields lay) (flat_map std_field (start_fields (dir_part tp))) &&
  Bool.eqb (match lay with [] => true | _ => false end) (forallb is_lit (dir_part tp)) &&
  forallb (fun f => negb (subsecond f)) (start_fields (dir_part tp)).

(* ------------------------------------------------------------------ fileset[...]: the dispatch of __getitem__

       if isinstance(item, (tuple, list)):  time_args = item[0];  filters = item[1]
       else:                                time_args = item;     filters = None
       if isinstance(time_args, slice):     return self.collect(time_args.start, time_args.stop, filters=filters)
       elif isinstance(time_args, (datetime, str)):
           filename = self.find_closest(time_args, filters=filters)
           if filename is None: return None
           return self.read(filename)
       (anything else: falls off the end, i.e. None)                                                       *)

Definition filters := (list (str * list str) * list (str * list str))%type.      (* white lists, black lists *)

Inductive pyval :=
| PNone
| PStr (s : str)
| PDatetime (t : Z)                         (* datetime and its subclasses (pandas.Timestamp) *)
| PSlice
| PFilters (f : filters)                    (* a dict *)
| PSeq (items : list pyval)                 (* tuple or list *)
| POther.                                   (* date, numpy.datetime64, numbers, ... *)

Inductive outcome (R : Type) := ORead (r : R) | ONoFile | OCollect | OIndexError | OTypeError.
Arguments ORead {R} r. Arguments ONoFile {R}. Arguments OCollect {R}. Arguments OIndexError {R}.
Arguments OTypeError {R}.

Section GetItem.
  Variable parse : str -> Z.                               (* to_datetime on a string (pandas): external *)
  Context {R : Type}.
  Variable closest : Z -> option filters -> option R.      (* find_closest(timestamp, filters) *)

  Definition split_item (item : pyval) : option (pyval * pyval) :=
    match item with
    | PSeq (a :: b :: _) => Some (a, b)
    | PSeq _ => None
    | x => Some (x, PNone)
    end.
  Definition as_filters (v : pyval) : option (option filters) :=
    match v with PNone => Some None | PFilters f => Some (Some f) | _ => None end.
  Definition of_closest (r : option R) : outcome R := match r with Some x => ORead x | None => ONoFile end.

  Definition getitem (item : pyval) : outcome R :=
    match split_item item with
    | None => OIndexError
    | Some (ta, fl) =>
        match ta with
        | PSlice => OCollect
        | PDatetime t => match as_filters fl with Some f => of_closest (closest t f) | None => OTypeError end
        | PStr s => match as_filters fl with Some f => of_closest (closest (parse s) f) | None => OTypeError end
        | _ => ONoFile
        end
    end.
End GetItem.

(* find_closest of Model/C16_closest with the per-call filters put into the configured query *)
Definition with_filters (xnames : list str) (xtimes : list (Z * Z)) (f : option filters) : query :=
  match f with
  | None => Query false [] [] xnames xtimes
  | Some (w, b) => Query true w b xnames xtimes
  end.
Definition closest_call (tp : list tok) (fill : list (key * str)) (fs : list file) (xnames : list str)
  (xtimes : list (Z * Z)) (t : Z) (f : option filters) : option nat :=
  closest_model tp fill fs (with_filters xnames xtimes f) t.

(* ------------------------------------------------------------------ a filters dict with several entries

   FileSet.find splits the dict the caller passes:
       white_list = {f: v for f, v in filters.items() if not f.startswith("!")}      (each value: one regex or a list)
       black_list = {f.lstrip("!"): convert(v) for f, v in filters.items() if f.startswith("!")}
   and a file is yielded when its path matches the template with EVERY white-listed placeholder restricted to its
   values, and FileSet._check_file(black_list, attr) finds no black-listed placeholder filled with a forbidden value:
       for placeholder, forbidden in black_list.items():
           value = placeholders.get(placeholder, None)
           if value is None: continue
           if forbidden.match(value): return False
       return True
   An entry of the dict: (true, k, vs) is the key "!k", (false, k, vs) the key "k"; vs = the listed values (a single
   value v is [v]).  The entries come in the order of the dict. *)
Definition fentry := (bool * str * list str)%type.
Definition fdict := list fentry.
Definition entry_neg (e : fentry) : bool := fst (fst e).
Definition entry_list (e : fentry) : str * list str := (snd (fst e), snd e).
Definition split_dict (d : fdict) : filters :=
  (map entry_list (filter (fun e => negb (entry_neg e)) d), map entry_list (filter entry_neg d)).
(* the query of a call find_closest(t, filters=d) on a fileset with the configured exclusions *)
Definition dict_query (d : fdict) (xnames : list str) (xtimes : list (Z * Z)) : query :=
  with_filters xnames xtimes (Some (split_dict d)).
(* ONE entry lets a file pass (a = the file's user placeholders) *)
Definition entry_ok (a : list (str * str)) (e : fentry) : bool :=
  if entry_neg e then black_ok a (entry_list e) else white_ok a (entry_list e).

(* the same in the vocabulary of C01's model (placeholders and values numbered) *)
Definition zentry := (bool * Z * list Z)%type.
Definition zentry_ok (f : F.file) (e : zentry) : bool :=
  let '(neg, p, vs) := e in
  match F.lookup p (F.attrs f) with
  | Some v => if neg then negb (F.memz v vs) else F.memz v vs
  | None => true
  end.
Definition zsplit (d : list zentry) : list (Z * list Z) * list (Z * list Z) :=
  (map (fun e => (snd (fst e), snd e)) (filter (fun e => negb (fst (fst e))) d),
   map (fun e => (snd (fst e), snd e)) (filter (fun e => fst (fst e)) d)).

(* the numbering the correspondence uses to hand a tree to C01's model: the user placeholders are numbered by their
   position in a list of (name, possible values), a value by its position among the values of its placeholder *)
Fixpoint pos (v : str) (l : list str) : Z :=
  match l with [] => 0 | x :: l' => if str_eqb v x then 0 else 1 + pos v l' end.
Definition pools := list (str * list str).
Definition pool_of (ps : pools) (k : str) : list str :=
  match find (fun p => str_eqb k (fst p)) ps with Some p => snd p | None => [] end.
Definition pool_kc (ps : pools) (k : str) : Z := pos k (map fst ps).
Definition pool_vc (ps : pools) (k v : str) : Z := pos v (pool_of ps k).
Definition pool_K (ps : pools) (k : str) : Prop := In k (map fst ps).
Definition pool_V (ps : pools) (k v : str) : Prop := In v (pool_of ps k).
(* no value of a placeholder is a prefix of another one (black lists are re.match, a prefix test) *)
Definition pools_ok (ps : pools) : bool := forallb (fun p => prefix_free (snd p)) ps.

(* ------------------------------------------------------------------ interface of the correspondence *)

Definition tenc (a : tanswer) : Z :=
  match a with TFile i => Z.of_nat i | TNone => -1 | TErr F.ValueErr => -2 | TErr F.OverflowErr => -3 end.

(* one tree: [layout_of tp = the harness's layout; fields_of_layout; C01's hypotheses on the tree; period agrees] *)
Definition run_tree_head (tp : list tok) (lay : F.layout) (fs : list F.file) : list Z :=
  [ b2z (layout_eqb (layout_of tp) lay);
    b2z (fields_of_layoutb tp lay);
    b2z (F.hyps lay fs);
    b2z (match period_of tp, tree_period lay with
         | None, None => true | Some a, Some b => a =? b | _, _ => false end) ].

(* the files excluded by name are a property of the query: mark them on the tree *)
Definition with_excl (xs : list Z) (fs : list F.file) : list F.file :=
  map (fun f => F.mkfile (F.fid f) (F.t0 f) (F.t1 f) (F.tdir f) (F.attrs f) (F.memz (F.fid f) xs)) fs.

(* one query on the tree (fs0 in the order of the directory walk; flat = the listing of Model/C16_closest in the SAME
   order; xs = the identities of the files excluded by name):
   [window_ok and exclusion periods well formed; composed tree model (search); flat model (search only); flat = tree;
    number of brute-force candidates on the tree; number of files in directories the walk visits;
    the listing describes the tree (agrees); the flat model's whole answer (with the short cut) = the composed
    tree_closest; the flat model's whole answer] *)
Definition run_tree_query (tp : list tok) (lay : F.layout) (fs0 : list F.file) (flat : list file)
  (qq : query * (list (Z * list Z) * list (Z * list Z)) * list Z * Z) : list Z :=
  let '(q, wb, xs, t) := qq in
  let '(w, b) := wb in
  let fs := with_excl xs fs0 in
  let ex := q_xtimes q in
  let qt := window_query lay t w b ex in
  let tr := tree_search lay fs w b ex t in
  let fl := search flat q (period_of tp) t in
  let cm := closest_model tp [] flat q t in
  [ b2z (window_okb lay t && forallb (fun p => fst p <=? snd p) ex);
    tenc tr;
    enc fl;
    b2z (match tr, fl with TFile i, Some j => Nat.eqb i j | TNone, None => true | _, _ => false end);
    Z.of_nat (List.length (filter (tcand lay t w b ex) fs));
    Z.of_nat (List.length (filter (fun f => F.visited false [] lay (F.dir_start lay (F.qstart qt)) (F.qend qt - 1)
                                                         (F.tdir f)) fs));
    b2z (forallb (fun f => Z.eqb (ft0 (fst f)) (F.t0 (snd f)) && Z.eqb (ft1 (fst f)) (F.t1 (snd f)) &&
                           Bool.eqb (passes q (fst f)) (F.passes qt (snd f)) &&
                           Bool.eqb (excluded q (fst f)) (F.excluded_spec qt (snd f))) (combine flat fs)
         && Nat.eqb (List.length flat) (List.length fs));
    b2z (match tree_closest lay fs (exact_name tp [] flat t) (q_filtered q) w b ex t, cm with
         | TFile i, Some j => Nat.eqb i j | TNone, None => true | _, _ => false end);
    enc cm ].
Definition run_tree (tp : list tok) (lay : F.layout) (fs : list F.file) (flat : list file)
  (qs : list (query * (list (Z * list Z) * list (Z * list Z)) * list Z * Z)) : list Z * list (list Z) :=
  (run_tree_head tp lay fs, map (run_tree_query tp lay fs flat) qs).
