(* C14 -- the quadratures of integrate_column / integrate_water_vapor against the continuum integral: definitions only.
   The quadrature is the list function `trapz` of Model/C14_column.v (the one the enclosures tie to numpy.trapezoid) applied
   to an integrand SAMPLED on the grid, `trapz (map f xs) xs`; the two forms of integrate_water_vapor are `iwv_hydro` and
   `iwv_general` of the same file applied to sampled profiles.  The continuum side is Coquelicot's Riemann integral. *)
From Coq Require Import Reals List.
From Coquelicot Require Import Coquelicot.
From TyphonGen Require Import atmosphere.
From Typhon Require Import Model.C14_column Model.C14_rint.
Import ListNotations.
Open Scope R_scope.

(* ---- grids *)
(* every step of the grid is at most d long *)
Fixpoint steps_within (d : R) (xs : list R) : Prop :=
  match xs with a :: ((b :: _) as l') => Rabs (b - a) <= d /\ steps_within d l' | _ => True end.
(* the grid starts at a and ends at b *)
Definition grid_from_to (a b : R) (xs : list R) : Prop := xs <> [] /\ hd 0 xs = a /\ last xs 0 = b.
(* a sequence of grids whose mesh (largest step) tends to 0 *)
Definition mesh_vanishes (grid : nat -> list R) : Prop :=
  forall d, 0 < d -> exists N, forall n, (N <= n)%nat -> steps_within d (grid n).
(* numpy.linspace(a, b, n + 2): n + 1 layers of equal depth (also for b < a) *)
Definition uniform_grid (a b : R) (n : nat) : list R :=
  map (fun k => a + INR k * ((b - a) / INR (S n))) (seq 0 (S (S n))).

(* ---- the continuum side (Coquelicot) under names a reader of Props/C14.v can look up here *)
Definition integrable (f : R -> R) (a b : R) : Prop := ex_RInt f a b.
Definition tends_to (u : nat -> R) (l : R) : Prop := is_lim_seq u l.
(* f is twice differentiable on [a, b] with derivatives df and ddf, the second one continuous *)
Definition C2_on (f df ddf : R -> R) (a b : R) : Prop :=
  forall x, a <= x <= b -> is_derive f x (df x) /\ is_derive df x (ddf x) /\ continuous ddf x.
Definition continuous_at (f : R -> R) (x : R) : Prop := continuous f x.

(* the grid as Coquelicot's pointed subdivisions (SF_seq): every layer pointed at its left / at its right end, and the
   Riemann sums of an integrand over them *)
Definition left_points (xs : list R) : @SF_seq R := SF_seq_f2 (fun x _ => x) xs.
Definition right_points (xs : list R) : @SF_seq R := SF_seq_f2 (fun _ y => y) xs.
Definition left_sum (f : R -> R) (xs : list R) : R := Riemann_sum f (left_points xs).
Definition right_sum (f : R -> R) (xs : list R) : R := Riemann_sum f (right_points xs).
(* what the filter Riemann_fine a b of Coquelicot's is_RInt asks of a pointed subdivision: its points are the grid xs, every
   layer holds its evaluation point, it runs from min a b to max a b, and its mesh is at most d *)
Definition fine_subdivision_of (xs : list R) (a b d : R) (ptd : @SF_seq R) : Prop :=
  SF_lx ptd = xs /\ seq_step (SF_lx ptd) <= d /\ pointed_subdiv ptd /\
  SF_h ptd = Rmin a b /\ seq.last (SF_h ptd) (SF_lx ptd) = Rmax a b.

(* ---- the integrands of the two forms of integrate_water_vapor for profiles given as functions *)
(* hydrostatic form: vmr as a function of pressure;  IWV = - 1/g int q(vmr(p)) dp *)
Definition hydro_integrand (fx : R -> R) (p : R) : R := vmr2specific_humidity (fx p).
(* general form: vmr, pressure and temperature as functions of height;  IWV = int vmr rho(p, T, R_v) dz *)
Definition vapour_integrand (fx fp fT : R -> R) (z : R) : R := fx z * density (fp z) (fT z) c_gas_constant_water_vapor.

(* ---- closed forms of the two analytic columns used for non-vacuity and by the harness *)
(* isothermal column at T0, vmr = x0 exp(-z/Hx), p = p0 exp(-z/Hp): the vapour density is rho0 exp(-k z),
   rho0 = x0 p0 / (R_v T0), k = 1/Hx + 1/Hp;  its integral from 0 to Z and the bound of its second derivative *)
Definition expo_column (x0 p0 T0 Hx Hp Z : R) : R :=
  let rho0 := x0 * p0 / (c_gas_constant_water_vapor * T0) in let k := / Hx + / Hp in rho0 * (1 - exp (- (k * Z))) / k.
Definition expo_curvature (x0 p0 T0 Hx Hp : R) : R :=
  let rho0 := x0 * p0 / (c_gas_constant_water_vapor * T0) in let k := / Hx + / Hp in k ^ 2 * rho0.
(* specific humidity q0 (p / ps)^2 between ps and p1:  1/g int q dp *)
Definition quad_column (q0 ps p1 : R) : R := q0 * (ps ^ 3 - p1 ^ 3) / (3 * ps ^ 2) / c_earth_standard_gravity.
