(* C17 -- vocabulary for the optimal-estimation theorems: symmetric positive (semi)definite matrices over an
   ordered field, defined by quadratic forms (no spectral theory), the Loewner order, and the two matrices
   whose inverses the formulas of typhon/retrieval/oem take.  Definitions only. *)
Set Warnings "-notation-overridden,-ambiguous-paths".
From mathcomp Require Import all_ssreflect all_algebra.
Set Implicit Arguments.
Unset Strict Implicit.
Import GRing.Theory Num.Theory.
Local Open Scope ring_scope.

Section Forms.
Variable F : realFieldType.

(* x^T M x as a scalar *)
Definition qf n (M : 'M[F]_n) (x : 'cV[F]_n) : F := (x^T *m M *m x) 0 0.
Definition posdef n (M : 'M[F]_n) : Prop := forall x : 'cV[F]_n, x != 0 -> 0 < qf M x.
Definition possemidef n (M : 'M[F]_n) : Prop := forall x : 'cV[F]_n, 0 <= qf M x.
Definition symmetric n (M : 'M[F]_n) : Prop := M^T = M.
(* "symmetric positive definite" of the property statement *)
Definition spd n (M : 'M[F]_n) : Prop := symmetric M /\ posdef M.
(* A <= B in the Loewner order: x^T (B - A) x >= 0 for every x *)
Definition loewner_le n (A B : 'M[F]_n) : Prop := possemidef (B - A).
(* x^T M y as a scalar: the bilinear form of M (an inner product when M is SPD) *)
Definition bil n (M : 'M[F]_n) (x y : 'cV[F]_n) : F := (x^T *m M *m y) 0 0.
(* T is self-adjoint for the inner product <x, y> = x^T P y  iff  P T is symmetric *)
Definition selfadjoint n (P T : 'M[F]_n) : Prop := symmetric (P *m T).
End Forms.

Section Canonical.
Variable F : fieldType.
Variables m n : nat.
(* the state-space (n-form) and measurement-space (m-form) matrices that get inverted *)
Definition Nmx (K : 'M[F]_(m.+1, n.+1)) (S_a : 'M[F]_(n.+1)) (S_y : 'M[F]_(m.+1)) : 'M[F]_(n.+1) :=
  K^T *m invmx S_y *m K + invmx S_a.
Definition Mmx (K : 'M[F]_(m.+1, n.+1)) (S_a : 'M[F]_(n.+1)) (S_y : 'M[F]_(m.+1)) : 'M[F]_(m.+1) :=
  K *m S_a *m K^T + S_y.
End Canonical.
