(* C15 -- executable model of the file-info cache of typhon/files/fileset.py
   (save_cache / load_cache / the cache lookup of get_info) and of the FileInfo <-> JSON
   dictionary conversion of typhon/files/handlers/common.py.
   Nothing but definitions: the model must stay runnable when a proof breaks.

   Characters are code points (Z); a string is a list of code points.  Times are field records
   (year, month, day, hour, minute, second, microsecond) with the digit-level behaviour of
   strftime / strptime("%Y-%m-%dT%H:%M:%S.%f"). *)
From Coq Require Import ZArith List Bool.
Import ListNotations.
Open Scope Z_scope.

(* ====================================================================================== *)
(* 1. The two files and the I/O sequence of save_cache                                     *)
(* ====================================================================================== *)
Section Disk.
  Context {A : Type}.      (* what one write primitive appends: a byte, a chunk, half a chunk *)

  Record disk := { main : option (list A); backup : option (list A) }.

  Inductive op :=
  | OpenTrunc            (* open(filename + ".backup", "w"): creates or truncates the backup *)
  | Write (a : A)        (* one write primitive on the backup *)
  | Close                (* leaving the with block *)
  | Rename.              (* shutil.move(backup, filename): atomic replace of the main file *)

  Definition step (d : disk) (o : op) : disk :=
    match o with
    | OpenTrunc => {| main := main d; backup := Some [] |}
    | Write a => {| main := main d;
                    backup := match backup d with Some b => Some (b ++ [a]) | None => None end |}
    | Close => d
    | Rename => match backup d with
                | Some b => {| main := Some b; backup := None |}
                | None => d
                end
    end.

  Definition run (ops : list op) (d : disk) : disk := fold_left step ops d.

  (* save_cache(filename) for a document that is written by |doc| primitives *)
  Definition save_ops (doc : list A) : list op := OpenTrunc :: map Write doc ++ [Close; Rename].

  (* the process dies after k primitives *)
  Definition crash_after (k : nat) (ops : list op) (d : disk) : disk := run (firstn k ops) d.

  (* all states a crash can leave, in order: element k is the state after k primitives *)
  Fixpoint prefix_states (ops : list op) (d : disk) : list disk :=
    d :: match ops with [] => [] | o :: t => prefix_states t (step d o) end.

  (* histories of saves, each either completing or dying after k primitives
     (an exception raised while serialising is the same thing as far as the files go) *)
  Inductive event := Save (doc : list A) (crash : option nat).

  Definition do_event (d : disk) (e : event) : disk :=
    match e with
    | Save doc None => run (save_ops doc) d
    | Save doc (Some k) => crash_after k (save_ops doc) d
    end.

  Definition completed (e : event) : bool :=
    match e with
    | Save doc None => true
    | Save doc (Some k) => (length (save_ops doc) <=? k)%nat
    end.

  Definition doc_of_event (e : event) : list A := match e with Save doc _ => doc end.

  (* specification: the main file holds the document of the last save that ran to its end *)
  Fixpoint last_completed (m : option (list A)) (h : list event) : option (list A) :=
    match h with
    | [] => m
    | e :: t => last_completed (if completed e then Some (doc_of_event e) else m) t
    end.

  Definition run_history (h : list event) (d : disk) : disk := fold_left do_event h d.
End Disk.
Arguments disk : clear implicits.
Arguments op : clear implicits.
Arguments event : clear implicits.

(* ====================================================================================== *)
(* 2. Times: strftime / strptime at the level of digits                                    *)
(* ====================================================================================== *)
Definition str := list Z.

Record dtm := { yr : Z; mo : Z; dy : Z; hh : Z; mi : Z; ss : Z; us : Z }.

Definition is_leap (y : Z) : bool :=
  ((y mod 4 =? 0) && negb (y mod 100 =? 0)) || (y mod 400 =? 0).
Definition days_in_month (y m : Z) : Z :=
  if m =? 2 then (if is_leap y then 29 else 28)
  else if (m =? 4) || (m =? 6) || (m =? 9) || (m =? 11) then 30 else 31.

(* what datetime(...) accepts: datetime.min = 0001-01-01T00:00:00.000000,
   datetime.max = 9999-12-31T23:59:59.999999 *)
Definition valid_time (t : dtm) : bool :=
  (1 <=? yr t) && (yr t <=? 9999) && (1 <=? mo t) && (mo t <=? 12) &&
  (1 <=? dy t) && (dy t <=? days_in_month (yr t) (mo t)) &&
  (0 <=? hh t) && (hh t <=? 23) && (0 <=? mi t) && (mi t <=? 59) &&
  (0 <=? ss t) && (ss t <=? 59) && (0 <=? us t) && (us t <=? 999999).

Definition dtm_eqb (a b : dtm) : bool :=
  (yr a =? yr b) && (mo a =? mo b) && (dy a =? dy b) && (hh a =? hh b) &&
  (mi a =? mi b) && (ss a =? ss b) && (us a =? us b).

Definition digit (d : Z) : Z := 48 + d.
Definition is_digit (c : Z) : bool := (48 <=? c) && (c <=? 57).

Definition fmt2 (z : Z) : str := [digit (z / 10); digit (z mod 10)].
Definition fmt4 (z : Z) : str :=
  [digit (z / 1000); digit (z / 100 mod 10); digit (z / 10 mod 10); digit (z mod 10)].
Definition fmt6 (z : Z) : str :=
  [digit (z / 100000); digit (z / 10000 mod 10); digit (z / 1000 mod 10);
   digit (z / 100 mod 10); digit (z / 10 mod 10); digit (z mod 10)].

(* decimal digits without padding (glibc's %Y), for 0 <= z <= 9999 *)
Definition fmt_plain (z : Z) : str :=
  if z <? 10 then [digit z]
  else if z <? 100 then fmt2 z
  else if z <? 1000 then [digit (z / 100); digit (z / 10 mod 10); digit (z mod 10)]
  else fmt4 z.

Definition c_dash : Z := 45.   Definition c_T : Z := 84.     Definition c_t : Z := 116.
Definition c_colon : Z := 58.  Definition c_dot : Z := 46.   Definition c_space : Z := 32.

Definition fmt_rest (t : dtm) : str :=
  [c_dash] ++ fmt2 (mo t) ++ [c_dash] ++ fmt2 (dy t) ++ [c_T] ++ fmt2 (hh t) ++ [c_colon] ++
  fmt2 (mi t) ++ [c_colon] ++ fmt2 (ss t) ++ [c_dot] ++ fmt6 (us t).

(* FileInfo.to_json_dict: the year with four digits (the code after fix C15_1) *)
Definition fmt_time (t : dtm) : str := fmt4 (yr t) ++ fmt_rest t.
(* the unchanged code: strftime("%Y") of glibc does not pad the year *)
Definition fmt_time_asis (t : dtm) : str := fmt_plain (yr t) ++ fmt_rest t.

(* longest run of ASCII digits at the front *)
Fixpoint span_digits (s : str) : str * str :=
  match s with
  | [] => ([], [])
  | c :: r => if is_digit c then let '(d, r') := span_digits r in (c :: d, r') else ([], s)
  end.

Definition num_of (ds : str) : Z := fold_left (fun acc c => acc * 10 + (c - 48)) ds 0.

Definition len (s : str) : Z := Z.of_nat (length s).

(* one numeric field of the regular expression that _strptime builds: a digit run of
   lo_len..hi_len digits with a value in lo..hi (the alternatives of %m %d %H %M %S are exactly
   the one- and two-digit numerals of their range; the run must end at the next literal, which is
   never a digit) *)
Definition field (lo_len hi_len lo hi : Z) (s : str) : option (Z * str) :=
  let '(ds, r) := span_digits s in
  let v := num_of ds in
  if (lo_len <=? len ds) && (len ds <=? hi_len) && (lo <=? v) && (v <=? hi)
  then Some (v, r) else None.

Definition expect (cs : list Z) (s : str) : option str :=
  match s with
  | c :: r => if existsb (Z.eqb c) cs then Some r else None
  | [] => None
  end.

(* %d also accepts " 1" .. " 9" *)
Definition field_day (s : str) : option (Z * str) :=
  match s with
  | c :: r => if c =? c_space
              then (let '(ds, r') := span_digits r in
                    if (len ds =? 1) && (1 <=? num_of ds) then Some (num_of ds, r') else None)
              else field 1 2 1 31 s
  | [] => None
  end.

(* %f: one to six digits, scaled to microseconds; nothing may follow *)
Definition field_frac (s : str) : option Z :=
  let '(ds, r) := span_digits s in
  match r with
  | [] => if (1 <=? len ds) && (len ds <=? 6)
          then Some (num_of ds * 10 ^ (6 - len ds)) else None
  | _ => None
  end.

Definition bind {X Y} (o : option X) (f : X -> option Y) : option Y :=
  match o with Some x => f x | None => None end.

(* datetime.strptime(s, "%Y-%m-%dT%H:%M:%S.%f"); None = ValueError.
   (re.IGNORECASE makes "t" as good as "T"; seconds 60 and 61 match the expression but are
   rejected by the datetime constructor, as are year 0 and days beyond the month's length.) *)
Definition parse_time (s : str) : option dtm :=
  bind (field 4 4 0 9999 s) (fun '(y, s) =>
  bind (expect [c_dash] s) (fun s =>
  bind (field 1 2 1 12 s) (fun '(m, s) =>
  bind (expect [c_dash] s) (fun s =>
  bind (field_day s) (fun '(d, s) =>
  bind (expect [c_T; c_t] s) (fun s =>
  bind (field 1 2 0 23 s) (fun '(h, s) =>
  bind (expect [c_colon] s) (fun s =>
  bind (field 1 2 0 59 s) (fun '(mn, s) =>
  bind (expect [c_colon] s) (fun s =>
  bind (field 1 2 0 61 s) (fun '(sc, s) =>
  bind (expect [c_dot] s) (fun s =>
  bind (field_frac s) (fun u =>
  let t := {| yr := y; mo := m; dy := d; hh := h; mi := mn; ss := sc; us := u |} in
  if valid_time t then Some t else None))))))))))))).

(* ====================================================================================== *)
(* 3. JSON values, cache entries, FileInfo.to_json_dict / from_json_dict, load_cache       *)
(* ====================================================================================== *)
Inductive json :=
| JNull | JBool (b : bool) | JNum (n : Z) | JStr (s : str)
| JArr (l : list json) | JObj (kv : list (str * json)).

Fixpoint str_eqb (a b : str) : bool :=
  match a, b with
  | [], [] => true
  | x :: a', y :: b' => (x =? y) && str_eqb a' b'
  | _, _ => false
  end.

(* keys of the info_cache dictionary: whatever JSON scalar stands under "path"
   (a list or an object is unhashable: TypeError) *)
Definition hashable (j : json) : bool :=
  match j with JArr _ | JObj _ => false | _ => true end.
Definition key_eqb (a b : json) : bool :=
  match a, b with
  | JNull, JNull => true
  | JBool x, JBool y => Bool.eqb x y
  | JNum x, JNum y => x =? y
  | JStr x, JStr y => str_eqb x y
  | _, _ => false
  end.

Record entry := { e_path : json; e_t0 : dtm; e_t1 : dtm; e_attr : json }.
Definition cache := list entry.       (* a Python dict: insertion order, unique keys *)

Fixpoint lookup (p : json) (c : cache) : option entry :=
  match c with
  | [] => None
  | e :: t => if key_eqb (e_path e) p then Some e else lookup p t
  end.

(* d[key] = value *)
Fixpoint upsert (e : entry) (c : cache) : cache :=
  match c with
  | [] => [e]
  | x :: t => if key_eqb (e_path x) (e_path e) then e :: t else x :: upsert e t
  end.
(* d.update(other) / the dictionary comprehension *)
Definition update (c : cache) (es : list entry) : cache := fold_left (fun acc e => upsert e acc) es c.

Definition k_path : str := [112; 97; 116; 104].           (* "path"  *)
Definition k_times : str := [116; 105; 109; 101; 115].    (* "times" *)
Definition k_attr : str := [97; 116; 116; 114].           (* "attr"  *)

Fixpoint get (k : str) (kv : list (str * json)) : option json :=
  match kv with
  | [] => None
  | (k', v) :: t => if str_eqb k' k then Some v else get k t
  end.

(* FileInfo.to_json_dict *)
Definition entry_json_with (fmt : dtm -> str) (e : entry) : json :=
  JObj [(k_path, e_path e);
        (k_times, JArr [JStr (fmt (e_t0 e)); JStr (fmt (e_t1 e))]);
        (k_attr, e_attr e)].
Definition entry_json := entry_json_with fmt_time.
(* the list handed to json.dump by save_cache *)
Definition doc_of (c : cache) : json := JArr (map entry_json c).
Definition doc_of_asis (c : cache) : json := JArr (map (entry_json_with fmt_time_asis) c).

(* json_dict["times"][i] handed to strptime: only a string can succeed; null is malformed
   (after fix C15_2; the unchanged code turns null into the list [None]) *)
Definition time_of (j : json) : option dtm :=
  match j with JStr s => parse_time s | _ => None end.

(* FileInfo.from_json_dict + the key expression json_dict["path"]; None = an exception *)
Definition decode_entry (j : json) : option entry :=
  match j with
  | JObj kv =>
      bind (get k_path kv) (fun p =>
      if negb (hashable p) then None else
      bind (get k_times kv) (fun ts =>
      match ts with
      | JArr (a :: b :: _) =>
          bind (time_of a) (fun t0 =>
          bind (time_of b) (fun t1 =>
          bind (get k_attr kv) (fun at_ =>
          (* FileInfo.__init__: attr None becomes {} *)
          Some {| e_path := p; e_t0 := t0; e_t1 := t1;
                  e_attr := match at_ with JNull => JObj [] | _ => at_ end |})))
      | _ => None
      end))
  | _ => None
  end.

(* `for json_dict in json_info_cache`: a list gives its elements, an object its keys, a string
   its characters, anything else is not iterable (TypeError) *)
Definition items (v : json) : option (list json) :=
  match v with
  | JArr l => Some l
  | JObj kv => Some (map (fun p => JStr (fst p)) kv)
  | JStr s => Some (map (fun c => JStr [c]) s)
  | _ => None
  end.

(* the dictionary comprehension: stops at the first entry that raises *)
Fixpoint decode_all (l : list json) : option (list entry) :=
  match l with
  | [] => Some []
  | j :: t => match decode_entry j with
              | None => None
              | Some e => match decode_all t with None => None | Some es => Some (e :: es) end
              end
  end.

Inductive note := Quiet | Warned.

(* load_cache on a parsed document: the new dictionary is complete before info_cache.update *)
Definition load (c0 : cache) (v : json) : cache * note :=
  match items v with
  | None => (c0, Warned)
  | Some l => match decode_all l with
              | None => (c0, Warned)
              | Some es => (update c0 (update [] es), Quiet)
              end
  end.

(* the state of the cache file as load_cache meets it *)
Inductive fstate (B : Type) := Missing | Unreadable | Content (b : B).
Arguments Missing {B}. Arguments Unreadable {B}. Arguments Content {B} b.

Section Codec.
  (* the json module: text of a value, value of a text *)
  Context {A : Type} (render : json -> list A) (parse : list A -> option json).

  Definition load_file (c0 : cache) (f : fstate (list A)) : cache * note :=
    match f with
    | Missing => (c0, Quiet)               (* os.path.exists is false: nothing happens *)
    | Unreadable => (c0, Warned)           (* open / decoding raises: caught *)
    | Content b => match parse b with
                   | None => (c0, Warned)  (* json.load raises: caught *)
                   | Some v => load c0 v
                   end
    end.

  Definition file_of (m : option (list A)) : fstate (list A) :=
    match m with None => Missing | Some b => Content b end.

  (* save_cache(filename) of the cache c, and a fresh FileSet(info_cache=filename) *)
  Definition save (c : cache) (d : disk A) : disk A := run (save_ops (render (doc_of c))) d.
  Definition restart (d : disk A) : cache * note := load_file [] (file_of (main d)).
End Codec.

(* ====================================================================================== *)
(* 4. get_info: cache lookup before any parsing                                            *)
(* ====================================================================================== *)
Section Find.
  Variable info_of : json -> entry.    (* what get_info works out without the cache *)

  Definition get_info (c : cache) (p : json) : entry * cache :=
    match lookup p c with
    | Some e => (e, c)
    | None => let e := info_of p in (e, upsert e c)
    end.

  (* find(): get_info for every candidate path in turn, keep what the filter accepts *)
  Fixpoint find_with (keep : entry -> bool) (c : cache) (paths : list json) : list entry * cache :=
    match paths with
    | [] => ([], c)
    | p :: t => let '(e, c1) := get_info c p in
                let '(r, c2) := find_with keep c1 t in
                ((if keep e then e :: r else r), c2)
    end.

  Definition consistent (c : cache) : Prop := Forall (fun e => e = info_of (e_path e)) c.
End Find.

(* ====================================================================================== *)
(* 5. helpers for the correspondence (evaluated by vm_compute on generated cases)          *)
(* ====================================================================================== *)
Definition mk_time (l : list Z) : dtm :=
  match l with
  | [y; m; d; h; n; s; u] => {| yr := y; mo := m; dy := d; hh := h; mi := n; ss := s; us := u |}
  | _ => {| yr := 0; mo := 0; dy := 0; hh := 0; mi := 0; ss := 0; us := 0 |}
  end.
Definition time_fields (t : dtm) : list Z := [yr t; mo t; dy t; hh t; mi t; ss t; us t].
Definition mk_entry (p : json) (t0 t1 : list Z) (a : json) : entry :=
  {| e_path := p; e_t0 := mk_time t0; e_t1 := mk_time t1; e_attr := a |}.

Definition note_b (n : note) : bool := match n with Warned => true | Quiet => false end.

(* observable form of a cache: (path, start fields, end fields, attr) in dictionary order *)
Definition show_cache (c : cache) : list (json * list Z * list Z * json) :=
  map (fun e => (e_path e, time_fields (e_t0 e), time_fields (e_t1 e), e_attr e)) c.
Definition show_load (r : cache * note) := (note_b (snd r), show_cache (fst r)).

(* the times as save_cache writes them, and what a restart makes of the saved document *)
Definition run_roundtrip (c : cache) :=
  (map (fun e => (fmt_time (e_t0 e), fmt_time (e_t1 e))) c, show_load (load [] (doc_of c))).

(* crash sweep: documents are lists of numbered atoms; class of the main file after every prefix of
   the save: -1 missing, 0 the old document, 1 the new document, 2 anything else *)
Definition zseq (base : Z) (n : Z) : list Z := map (fun i => base + Z.of_nat i) (seq 0 (Z.to_nat n)).
Definition lz_eqb := str_eqb.
Definition class_of (old new : list Z) (m : option (list Z)) : Z :=
  match m with
  | None => -1
  | Some b => if lz_eqb b new then 1 else if lz_eqb b old then 0 else 2
  end.
Definition old_disk (has_old : bool) (old : list Z) (stale : option Z) : disk Z :=
  {| main := if has_old then Some old else None;
     backup := match stale with Some n => Some (zseq 5000000 n) | None => None end |}.
Definition run_crash_sweep (has_old : bool) (old_len new_len : Z) (stale : option Z) : list Z :=
  let old := zseq 1000000 old_len in
  let new := zseq 2000000 new_len in
  map (fun d => class_of old new (main d)) (prefix_states (save_ops new) (old_disk has_old old stale)).

(* history: list of (document length, crash point or -1 for none); result: after every event the
   index of the event whose document is in the main file (-1 missing, -2 the initial document,
   -3 anything else) *)
Definition hist_event (k : nat) (e : Z * Z) : event Z :=
  Save (zseq (Z.of_nat (S k) * 1000000) (fst e))
       (if snd e <? 0 then None else Some (Z.to_nat (snd e))).
Fixpoint index_events (k : nat) (l : list (Z * Z)) : list (event Z) :=
  match l with [] => [] | e :: t => hist_event k e :: index_events (S k) t end.
Fixpoint which_doc (k : Z) (evs : list (event Z)) (b : list Z) : Z :=
  match evs with
  | [] => -3
  | e :: t => if lz_eqb b (doc_of_event e) then k else which_doc (k + 1) t b
  end.
Fixpoint hist_states (evs : list (event Z)) (d : disk Z) : list (disk Z) :=
  match evs with [] => [] | e :: t => let d' := do_event d e in d' :: hist_states t d' end.
Definition run_history_classes (has_old : bool) (old_len : Z) (l : list (Z * Z)) : list Z :=
  let evs := index_events 0 l in
  let old := zseq 0 old_len in
  map (fun d => match main d with
                | None => -1
                | Some b => if lz_eqb b old then -2 else which_doc 0 evs b
                end)
      (hist_states evs (old_disk has_old old None)).

(* ====================================================================================== *)
(* 6. Specifications (what a reader checks)                                                *)
(* ====================================================================================== *)
(* the JSON value j is a complete cache entry and e is literally what it says: nothing invented *)
Definition represents (j : json) (e : entry) : Prop :=
  exists kv s0 s1 rest a,
    j = JObj kv /\
    get k_path kv = Some (e_path e) /\ hashable (e_path e) = true /\
    get k_times kv = Some (JArr (JStr s0 :: JStr s1 :: rest)) /\
    parse_time s0 = Some (e_t0 e) /\ parse_time s1 = Some (e_t1 e) /\
    get k_attr kv = Some a /\ e_attr e = match a with JNull => JObj [] | _ => a end.

(* a document is well formed when it is a sequence of complete entries *)
Definition well_formed_doc (v : json) : Prop :=
  exists l es, items v = Some l /\ Forall2 represents l es.

(* what save_cache can hold: valid datetimes, a hashable path, attributes that are a dictionary *)
Definition entry_ok (e : entry) : Prop :=
  valid_time (e_t0 e) = true /\ valid_time (e_t1 e) = true /\ hashable (e_path e) = true /\
  exists kv, e_attr e = JObj kv.

(* a cache as the dictionary holds it: one entry per path *)
Definition cache_ok (c : cache) : Prop := Forall entry_ok c /\ NoDup (map e_path c).

Definition strict_prefix {A} (p l : list A) : Prop := exists r, r <> [] /\ l = p ++ r.

Section CodecHistory.
  Context {A : Type} (render : json -> list A).
  (* histories of saves of caches *)
  Definition cache_event (e : cache * option nat) : event A := Save (render (doc_of (fst e))) (snd e).
  Fixpoint last_cache (m : option cache) (h : list (cache * option nat)) : option cache :=
    match h with
    | [] => m
    | e :: t => last_cache (if completed (cache_event e) then Some (fst e) else m) t
    end.
End CodecHistory.
