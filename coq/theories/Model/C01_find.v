(* C01 -- executable model of FileSet.find (typhon/files/fileset.py) and its brute-force specification.
   DEFINITIONS ONLY (the lemmas are in Proofs/C01_find.v) so that the model stays runnable when a proof breaks.

   What is mirrored, with the line anchors of properties.jsonl:
     find                 : end' = end - 1us, ValueError if end' < start, look-back dir_start = start - P
                            unless there is no sub directory or start = datetime.min; when start - P is not
                            representable (OverflowError) the look-back is clamped: dir_start = datetime.min
                            (/repo bd49e45; before that commit the OverflowError left find: find_noclamp)
     _get_search_dirs     : per directory level ("chunk"): literal chunks are skipped; otherwise start/end are
                            truncated to a resolution and every directory is tested by _check_placeholders on
                            the placeholders parsed SO FAR (accumulated over the levels)
     _check_placeholders  : no year parsed -> keep; datetime(attrs...) works (year, month, day present and valid)
                            -> trunc(start) <= datetime <= trunc(end); otherwise compare the years only
     _get_matching_files  : closed-interval overlap with [start, end'], not excluded (name set / IntervalTree)
     white list           : part of the name regex (directories and files); black list: _check_file afterwards
     _prepare_find_return : stable sort by (t0, t1); bundles by count / by time bin
   The resolution used for the truncation is a switch:
     local = true   the finest placeholder of the CURRENT chunk  (the code before fix C01_1)
     local = false  the finest placeholder parsed so far          (the code after fix C01_1; theorems are about this)

   Datetimes are microseconds since 0001-01-01 (Base/Calendar). *)
From Coq Require Import ZArith List Bool.
From Typhon Require Import Base.Calendar Model.C03_tree.
Import ListNotations.
Open Scope Z_scope.

(* ------------------------------------------------------------------ files, layouts, queries *)

(* user placeholders and their values are numbered by the harness *)
Record file := { fid : Z;                    (* identity (index in the population) *)
                 t0 : Z; t1 : Z;             (* time coverage [t0, t1] *)
                 tdir : Z;                   (* the time the directory names of the file were rendered from *)
                 attrs : list (Z * Z);       (* user placeholder -> value *)
                 name_excl : bool }.         (* its path is in the exclude list *)

(* temporal placeholders that may appear in directory names, after _standardise_datetime_args
   (year2 -> year, doy -> month + day) *)
Inductive tfield := FYear | FMonth | FDay | FHour | FMinute | FSecond.

Definition tf_res (f : tfield) : res :=
  match f with FYear => RYear | FMonth => RMonth | FDay => RDay | FHour => RHour
             | FMinute => RMinute | FSecond => RSecond end.
Definition tf_eqb (a b : tfield) : bool := res_rank (tf_res a) =? res_rank (tf_res b).
Definition has (f : tfield) (l : list tfield) : bool := existsb (tf_eqb f) l.

(* one directory level: a literal name, or a pattern with these temporal placeholders (possibly none:
   only user placeholders / wildcards) *)
Inductive chunk := CLit | CPat (fs : list tfield).
Definition layout := list chunk.

(* _get_time_resolution(...)[0]: the finest temporal placeholder, "year" if there is none *)
Definition finer (a b : res) : res := if res_rank a <? res_rank b then b else a.
Definition finest (l : list tfield) : res := fold_right (fun f r => finer (tf_res f) r) RYear l.

Definition chunk_fields (c : chunk) : list tfield := match c with CLit => [] | CPat fs => fs end.
Definition all_fields (lay : layout) : list tfield := flat_map chunk_fields lay.

Record query := { qstart : Z; qend : Z;
                  white : list (Z * list Z);       (* placeholder -> allowed values *)
                  black : list (Z * list Z);       (* placeholder -> forbidden values *)
                  excl : list (Z * Z) }.           (* excluded periods (closed) *)

Inductive err := ValueErr | OverflowErr.
Inductive result (A : Type) := Ok (x : A) | Err (e : err).
Arguments Ok {A} x. Arguments Err {A} e.

(* ------------------------------------------------------------------ filters and exclusion *)

Fixpoint lookup (p : Z) (l : list (Z * Z)) : option Z :=
  match l with [] => None | (k, v) :: t => if k =? p then Some v else lookup p t end.
Definition memz (v : Z) (l : list Z) : bool := existsb (Z.eqb v) l.

(* a placeholder that does not occur in the path is not constrained *)
Definition white_ok (w : list (Z * list Z)) (f : file) : bool :=
  forallb (fun '(p, vs) => match lookup p (attrs f) with Some v => memz v vs | None => true end) w.
Definition black_ok (b : list (Z * list Z)) (f : file) : bool :=
  forallb (fun '(p, vs) => match lookup p (attrs f) with Some v => negb (memz v vs) | None => true end) b.
Definition passes (q : query) (f : file) : bool := white_ok (white q) f && black_ok (black q) f.

(* specification: by name, or the coverage intersects an excluded period (closed intervals) *)
Definition excluded_spec (q : query) (f : file) : bool :=
  name_excl f || existsb (overlaps (t0 f, t1 f)) (number (excl q)).
(* is_excluded: name set, then `file.times in IntervalTree(periods)` (the C03 model of the tree) *)
Definition excluded_model (q : query) (f : file) : bool :=
  name_excl f || match excl q with [] => false | _ => contains_ivl (number (excl q)) (t0 f, t1 f) end.

(* ------------------------------------------------------------------ sorting by (t0, t1), stable *)

Definition key_le (a b : file) : bool := (t0 a <? t0 b) || ((t0 a =? t0 b) && (t1 a <=? t1 b)).
Fixpoint insert_key (x : file) (l : list file) : list file :=
  match l with
  | [] => [x]
  | y :: t => if key_le x y then x :: y :: t else y :: insert_key x t
  end.
Definition sort_key (l : list file) : list file := fold_right insert_key [] l.
(* Python's sorted() is stable: the files of one coverage (a, b) keep the order of the stream (the directory
   walk).  insert_key puts x in FRONT of the first y with key x <= key y and fold_right inserts the head of the
   stream last, so the model sort is stable too (Proofs: sort_key_stable); has_key selects one coverage *)
Definition has_key (a b : Z) (f : file) : bool := (t0 f =? a) && (t1 f =? b).

(* ------------------------------------------------------------------ the specification *)

Definition selected (q : query) (f : file) : bool :=
  (t0 f <? qend q) && (qstart q <=? t1 f) && negb (excluded_spec q f) && passes q f.
Definition find_spec (fs : list file) (q : query) : list file := sort_key (filter (selected q) fs).

(* ------------------------------------------------------------------ the algorithm *)

(* datetime(attrs...) for a directory whose names come from the fields of d: needs year, month, day;
   absent finer fields are 0; None = the constructor raised (the `except` branch) *)
Definition dir_time (acc : list tfield) (d : Z) : option Z :=
  if has FMonth acc && has FDay acc then
    let f := fields d in
    mk (year f) (month f) (day f)
       (if has FHour acc then hour f else 0)
       (if has FMinute acc then minute f else 0)
       (if has FSecond acc then second f else 0) 0
  else None.

(* _check_placeholders for one level; acc = placeholders parsed so far (this level included),
   own = placeholders of this level; ds, e = dir_start and end' of find *)
Definition level_ok (local : bool) (acc own : list tfield) (ds e d : Z) : bool :=
  let r := if local then finest own else finest acc in
  let sc := trunc_to r ds in
  let ec := trunc_to r e in
  if has FYear acc then
    match dir_time acc d with
    | Some x => (sc <=? x) && (x <=? ec)
    | None => (year_of sc <=? year_of d) && (year_of d <=? year_of ec)
    end
  else true.

(* is the directory of a file (rendered from d) among the search directories? *)
Fixpoint visited (local : bool) (acc : list tfield) (lay : layout) (ds e d : Z) : bool :=
  match lay with
  | [] => true
  | CLit :: rest => visited local acc rest ds e d
  | CPat own :: rest =>
      let acc' := acc ++ own in
      level_ok local acc' own ds e d && visited local acc' rest ds e d
  end.

(* _sub_dir_time_resolution: None without sub directory, else the period of the finest directory placeholder *)
Definition lookback (lay : layout) : Z := match lay with [] => 0 | _ => period (finest (all_fields lay)) end.

(* fileset.py 1154-1160:
       if self._sub_dir_time_resolution is None or start == datetime.min:  dir_start = start
       else:
           try:                   dir_start = start - self._sub_dir_time_resolution
           except OverflowError:  dir_start = datetime.min
   datetime - timedelta raises OverflowError exactly when the result lies before datetime.min (= 0 here).
   For a representable start (0 <= s) this is max(0, s - P)  (Proofs: dir_start_clamp). *)
Definition dir_start (lay : layout) (s : Z) : Z :=
  match lay with
  | [] => s
  | _ => if s =? 0 then s else if s - lookback lay <? 0 then 0 else s - lookback lay
  end.

Definition found (local : bool) (lay : layout) (q : query) (f : file) : bool :=
  let e := qend q - 1 in
  white_ok (white q) f
  && visited local [] lay (dir_start lay (qstart q)) e (tdir f)
  && ((t0 f <=? e) && (t1 f >=? qstart q))
  && negb (excluded_model q f)
  && black_ok (black q) f.

Definition find_gen (local : bool) (lay : layout) (fs : list file) (q : query) : result (list file) :=
  if qend q - 1 <? qstart q then Err ValueErr
  else Ok (sort_key (filter (found local lay q) fs)).

Definition find_model := find_gen false.     (* the code after fix C01_1 *)
Definition find_asis  := find_gen true.      (* the code before it *)

(* the code before /repo bd49e45 (fix F-C01-6): the look-back was not clamped, `start - P` raised OverflowError
   out of find for every start with datetime.min < start < datetime.min + P; elsewhere it is the present code *)
Definition lookback_overflows (lay : layout) (s : Z) : bool :=
  match lay with [] => false | _ => negb (s =? 0) && (s - lookback lay <? 0) end.
Definition find_noclamp (lay : layout) (fs : list file) (q : query) : result (list file) :=
  if qend q - 1 <? qstart q then Err ValueErr
  else if lookback_overflows lay (qstart q) then Err OverflowErr
  else find_model lay fs q.

(* ------------------------------------------------------------------ hypotheses of the theorems *)

(* levels: whenever a full date (year, month, day) has been parsed, the parsed placeholders are exactly
   year .. finest (no gap such as {day}/{minute} without {hour}); and a time of day is never parsed before
   some part of the date (_to_datetime_args refuses {hour}/{year}... with a ValueError as soon as such a
   directory exists; the model does not mirror that error, the layouts are excluded here) *)
Definition dated (acc : list tfield) : bool :=
  match acc with [] => true | _ => has FYear acc || has FMonth acc || has FDay acc end.
Definition contiguous (acc : list tfield) : bool :=
  forallb (fun f => Bool.eqb (has f acc) (res_rank (tf_res f) <=? res_rank (finest acc)))
          [FYear; FMonth; FDay; FHour; FMinute; FSecond].
Fixpoint no_gaps_from (acc : list tfield) (lay : layout) : bool :=
  match lay with
  | [] => true
  | CLit :: rest => no_gaps_from acc rest
  | CPat own :: rest =>
      let acc' := acc ++ own in
      (if has FYear acc' && has FMonth acc' && has FDay acc' then contiguous acc' else true)
      && dated acc' && no_gaps_from acc' rest
  end.
Definition no_gaps (lay : layout) : bool := no_gaps_from [] lay.

Definition valid_file (f : file) : Prop := valid (t0 f) /\ valid (t1 f) /\ t0 f <= t1 f.
Definition well_placed (f : file) : Prop := tdir f = t0 f.
Definition short (lay : layout) (f : file) : Prop :=
  match lay with [] => True | _ => t1 f - t0 f <= lookback lay end.
Definition wf_query (q : query) : Prop :=
  valid (qstart q) /\ qstart q < qend q <= dt_max /\ Forall (fun '(a, b) => a <= b) (excl q).

Definition valid_fileb (f : file) : bool := validb (t0 f) && validb (t1 f) && (t0 f <=? t1 f).
Definition hyp_fileb (lay : layout) (f : file) : bool :=
  valid_fileb f && (tdir f =? t0 f) && match lay with [] => true | _ => t1 f - t0 f <=? lookback lay end.

(* ------------------------------------------------------------------ `t in fileset`, len(fileset) *)

Definition instant (t : Z) (ex : list (Z * Z)) : query :=
  {| qstart := t; qend := t + 1; white := []; black := []; excl := ex |}.
Definition everything (ex : list (Z * Z)) : query :=
  {| qstart := 0; qend := dt_max - 1; white := []; black := []; excl := ex |}.

Definition contains_model (lay : layout) (fs : list file) (ex : list (Z * Z)) (t : Z) : bool :=
  match find_model lay fs (instant t ex) with Ok (_ :: _) => true | _ => false end.
Definition len_model (lay : layout) (fs : list file) (ex : list (Z * Z)) : Z :=
  match find_model lay fs (everything ex) with Ok l => Z.of_nat (length l) | Err _ => -1 end.

(* ------------------------------------------------------------------ bundles *)

(* files[i:i+k] for i in range(0, len(files), k) *)
Fixpoint bundle_n_aux {A} (fuel : nat) (k : nat) (l : list A) : list (list A) :=
  match fuel with
  | O => []
  | S fu => match l with [] => [] | _ => firstn k l :: bundle_n_aux fu k (skipn k l) end
  end.
Definition bundle_n {A} (k : nat) (l : list A) : list (list A) := bundle_n_aux (length l) k l.

(* pandas groupby(Grouper(freq=w)) of a tick frequency: bins of width w anchored at midnight of the first
   start time (origin = 'start_day'); empty bins are dropped *)
Definition bin_of (w origin : Z) (f : file) : Z := (t0 f - origin) / w.
Fixpoint group_runs {A} (b : A -> Z) (l : list A) : list (list A) :=
  match l with
  | [] => []
  | x :: t =>
      match group_runs b t with
      | (y :: g) :: gs => if b x =? b y then (x :: y :: g) :: gs else [x] :: (y :: g) :: gs
      | _ => [[x]]
      end
  end.
Definition origin_of (l : list file) : Z := match l with [] => 0 | x :: _ => trunc_to RDay (t0 x) end.
Definition bundle_f (w : Z) (l : list file) : list (list file) := group_runs (bin_of w (origin_of l)) l.

(* the same, spelled out: with o = midnight of the day of the first file of the sequence (t0 / us_day * us_day),
   a file starting at t falls into bin number floor((t - o) / w), which is the semi-open interval
   [o + k w, o + (k + 1) w)  (Proofs: bin_edges_lemma, bundle_f_bins).  What the harness compares with pandas, per
   bundle: [bin number; left edge; right edge (exclusive); number of files] *)
Definition bin_lo (w o k : Z) : Z := o + k * w.
Definition bundle_edges (w : Z) (l : list file) : list (list Z) :=
  map (fun g => match g with
                | [] => []
                | x :: _ => let k := bin_of w (origin_of l) x in
                            [k; bin_lo w (origin_of l) k; bin_lo w (origin_of l) (k + 1); Z.of_nat (length g)]
                end) (bundle_f w l).

(* ------------------------------------------------------------------ single-file filesets *)

(* the path has no placeholder: the coverage is `time_coverage` ([datetime.min, datetime.max] by default);
   Some true = the file is yielded, Some false = nothing (NoFilesError with no_files_error), None = ValueError *)
Definition single_find (cov : Z * Z) (s e : Z) : option bool :=
  if e - 1 <? s then None else Some ((fst cov <=? e - 1) && (snd cov >=? s)).

(* ------------------------------------------------------------------ helpers for the correspondence *)

Definition mkfile (i a b d : Z) (at_ : list (Z * Z)) (x : bool) : file :=
  {| fid := i; t0 := a; t1 := b; tdir := d; attrs := at_; name_excl := x |}.
Definition mkq (s e : Z) (w b : list (Z * list Z)) (ex : list (Z * Z)) : query :=
  {| qstart := s; qend := e; white := w; black := b; excl := ex |}.

Definition ids (r : result (list file)) : result (list Z) :=
  match r with Ok l => Ok (map fid l) | Err e => Err e end.

(* everything the harness needs about one query: fixed model, as-is model, specification *)
Definition run_find (lay : layout) (fs : list file) (q : query)
  : result (list Z) * result (list Z) * list Z :=
  (ids (find_model lay fs q), ids (find_asis lay fs q), map fid (find_spec fs q)).

Definition hyps (lay : layout) (fs : list file) : bool := no_gaps lay && forallb (hyp_fileb lay) fs.

(* boolean forms of the query hypotheses, evaluated per generated case *)
Definition wf_queryb (q : query) : bool :=
  validb (qstart q) && (qstart q <? qend q) && (qend q <=? dt_max) && forallb (fun '(a, b) => a <=? b) (excl q).

(* results as lists of integers (the harness parses nothing else): Ok l -> 0 :: l, errors -> [1] / [2]
   (find_model never answers [2] any more: the look-back is clamped; find_noclamp and C16's window do) *)
Definition enc (r : result (list Z)) : list Z :=
  match r with Ok l => 0 :: l | Err ValueErr => [1] | Err OverflowErr => [2] end.
Definition b2z (b : bool) : Z := if b then 1 else 0.
Definition sizes {A} (l : list (list A)) : list Z := map (fun b => Z.of_nat (length b)) l.

(* one find() call: [hypotheses of the query; fixed model; as-is model; specification; bundle sizes of the
   specified sequence; bundle sizes of the model's sequence]  (bk > 0: bundles of bk files, bw > 0: bundles by bins of bw microseconds) *)
Definition run_query (lay : layout) (fs : list file) (q : query) (bk bw : Z) : list (list Z) :=
  let sp := find_spec fs q in
  let bsz := fun l : list file =>
    if 0 <? bk then sizes (bundle_n (Z.to_nat bk) l) else if 0 <? bw then sizes (bundle_f bw l) else [] in
  [ [b2z (wf_queryb q)];
    enc (ids (find_model lay fs q));
    [];   (* (the as-is model is evaluated only in Props/C01.v: it is not needed to decide a case) *)
    map fid sp;
    bsz sp;
    bsz (match find_model lay fs q with Ok l => l | Err _ => [] end) ].

(* `t in fileset` for several t, and len(fileset): model and specification *)
Definition run_contains (lay : layout) (fs : list file) (ex : list (Z * Z)) (ts : list Z) : list (list Z) :=
  map (fun t => [b2z (contains_model lay fs ex t); b2z (existsb (selected (instant t ex)) fs);
                 b2z (validb t)]) ts.
Definition run_len (lay : layout) (fs : list file) (ex : list (Z * Z)) : list (list Z) :=
  [[len_model lay fs ex; Z.of_nat (length (filter (selected (everything ex)) fs))]].

(* The same three, evaluated on demand (C01 extension).  Inside the hypotheses of find_sound_complete the theorem
   says find_model = find_spec, so the harness needs the algorithmic model only OUTSIDE them (or when it asks for
   the redundant re-check, full = true).  `if` evaluates one branch only under vm_compute, `&&` evaluates both
   arguments: the directory-pruning part of find_model (calendar arithmetic per file and level) is thus skipped
   where the specification decides.  A skipped model is printed as [3] / 2 / -2.
   hc = hyps lay fs, computed once per case.  Last row of a query: the bin edges of the time bundles. *)
Definition run_query_lazy (full hc : bool) (lay : layout) (fs : list file) (q : query) (bk bw : Z) : list (list Z) :=
  let sp := find_spec fs q in
  let hq := wf_queryb q in
  let bsz := fun l : list file =>
    if 0 <? bk then sizes (bundle_n (Z.to_nat bk) l) else if 0 <? bw then sizes (bundle_f bw l) else [] in
  let md := if full || negb (hc && hq) then Some (find_model lay fs q) else None in
  [ [b2z hq];
    match md with Some r => enc (ids r) | None => [3] end;
    [];
    map fid sp;
    bsz sp;
    match md with Some (Ok l) => bsz l | _ => [] end ]
  ++ (if 0 <? bw then bundle_edges bw sp else []).
Definition run_contains_lazy (full hc : bool) (lay : layout) (fs : list file) (ex : list (Z * Z)) (ts : list Z)
  : list (list Z) :=
  map (fun t => let hq := validb t in
                [if full || negb (hc && hq) then b2z (contains_model lay fs ex t) else 2;
                 b2z (existsb (selected (instant t ex)) fs); b2z hq]) ts.
Definition run_len_lazy (full hc : bool) (lay : layout) (fs : list file) (ex : list (Z * Z)) : list (list Z) :=
  [[if full || negb hc then len_model lay fs ex else -2;
    Z.of_nat (length (filter (selected (everything ex)) fs))]].

(* ------------------------------------------------------------------ a concrete instance (non-vacuity, refutation of the as-is code)
   layout  {year}/{month}/{day}/{sensor}/ ;  three files, the third one crosses midnight;
   the period is 2018-03-06 01:00 -- 2018-03-06 02:00 *)
Definition ex_time (y m d h : Z) : Z := match mk y m d h 0 0 0 with Some t => t | None => 0 end.
Definition ex_lay : layout := [CPat [FYear]; CPat [FMonth]; CPat [FDay]; CPat []].
Definition ex_files : list file :=
  [ mkfile 0 (ex_time 2018 1 1 12) (ex_time 2018 1 1 13) (ex_time 2018 1 1 12) [(0, 1)] false;
    mkfile 1 (ex_time 2018 3 5 12) (ex_time 2018 3 5 13) (ex_time 2018 3 5 12) [(0, 1)] false;
    mkfile 2 (ex_time 2018 3 5 23) (ex_time 2018 3 6 2) (ex_time 2018 3 5 23) [(0, 2)] false;
    mkfile 3 (ex_time 2018 3 6 1) (ex_time 2018 3 6 1) (ex_time 2018 3 6 1) [(0, 2)] true;
    mkfile 4 (ex_time 2018 3 6 2) (ex_time 2018 3 6 3) (ex_time 2018 3 6 2) [(0, 1)] false ].
Definition ex_query : query := mkq (ex_time 2018 3 6 1) (ex_time 2018 3 6 2) [] [] [].

(* four files, three of them with the same coverage, in the order of the directory walk (sat = 2, 0, 1):
   the sorted result must keep 10, 11, 12 in that order behind file 13, which starts earlier *)
Definition ex_ties : list file :=
  [ mkfile 10 (ex_time 2018 3 5 12) (ex_time 2018 3 5 13) (ex_time 2018 3 5 12) [(0, 2)] false;
    mkfile 11 (ex_time 2018 3 5 12) (ex_time 2018 3 5 13) (ex_time 2018 3 5 12) [(0, 0)] false;
    mkfile 13 (ex_time 2018 3 5 11) (ex_time 2018 3 5 13) (ex_time 2018 3 5 11) [(0, 0)] false;
    mkfile 12 (ex_time 2018 3 5 12) (ex_time 2018 3 5 13) (ex_time 2018 3 5 12) [(0, 1)] false ].

(* near datetime.min: layout {year}/{month}/{day}; a file on 0001-01-01 12:00 - 13:00, a file on 0001-01-02 starting
   exactly at the end of the period, a file in 2018; the period 0001-01-01 00:00:01 -- 0001-01-02 00:00 starts within
   one look-back (one day) of datetime.min: start - P is not representable *)
Definition ex_min_lay : layout := [CPat [FYear]; CPat [FMonth]; CPat [FDay]].
Definition ex_min_files : list file :=
  [ mkfile 0 (ex_time 1 1 1 12) (ex_time 1 1 1 13) (ex_time 1 1 1 12) [] false;
    mkfile 1 (ex_time 1 1 2 0) (ex_time 1 1 2 1) (ex_time 1 1 2 0) [] false;
    mkfile 2 (ex_time 2018 3 5 12) (ex_time 2018 3 5 13) (ex_time 2018 3 5 12) [] false ].
Definition ex_min_query : query := mkq us_second (ex_time 1 1 2 0) [] [] [].
