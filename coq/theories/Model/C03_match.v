(* C03 -- executable model of the whole of FileSet.match (typhon/files/fileset.py): the period clause
   (open sides, widening by max_interval, clamping at datetime.min / datetime.max), the two find() calls,
   the conversion to integer seconds and the matching step of Model/C03_tree.v.
   Nothing but definitions: the model must stay runnable when a proof breaks.

   Time axis: integer MICROSECONDS (the resolution of datetime) relative to any whole-second origin.
   [dmin, dmax] is the range of datetime on that axis (datetime.min .. datetime.max). *)
From Coq Require Import ZArith List Bool.
From Typhon Require Import Model.C03_tree.
Import ListNotations.
Open Scope Z_scope.

Definition US : Z := 1000000.   (* microseconds per second *)

(* the range of datetime on the axis "microseconds since 1970-01-01T00:00:00" (the axis of numpy's M8[us]) *)
Definition DT_MIN : Z := -62135596800000000.   (* 0001-01-01T00:00:00 *)
Definition DT_MAX : Z := 253402300799999999.   (* 9999-12-31T23:59:59.999999 *)

Definition default (d : Z) (o : option Z) : Z := match o with Some x => x | None => d end.

(* datetime + timedelta: OverflowError (None) when the result leaves the range of datetime *)
Definition dt_add (dmin dmax t d : Z) : option Z :=
  let r := t + d in if (dmin <=? r) && (r <=? dmax) then Some r else None.

(* match(), first block: what is handed to the two find() calls as (start, end).
     if max_interval is not None:
         start = datetime.min if start is None else to_datetime(start)
         end = datetime.max if end is None else to_datetime(end)
         try: start = start - max_interval   except OverflowError: start = datetime.min
         try: end = end + max_interval       except OverflowError: end = datetime.max          *)
Definition match_period (dmin dmax : Z) (mi start end_ : option Z) : option Z * option Z :=
  match mi with
  | None => (start, end_)
  | Some m =>
      let s := default dmin start in
      let e := default dmax end_ in
      (Some (default dmin (dt_add dmin dmax s (- m))), Some (default dmax (dt_add dmin dmax e m)))
  end.

Inductive err := ValueError | OverflowError | NoFilesError | NaTError.
Inductive outcome := Raised (e : err) | Yields (l : list (Z * list Z)).

(* find(), head: defaults, `end -= timedelta(microseconds=1)` (semi-open period), `if end < start: raise ValueError`.
   The result is the CLOSED period a file must overlap. *)
Definition find_period (dmin dmax : Z) (start end_ : option Z) : err + Z * Z :=
  let s := default dmin start in
  match dt_add dmin dmax (default dmax end_) (-1) with
  | None => inl OverflowError
  | Some e => if e <? s then inl ValueError else inr (s, e)
  end.

(* find(), body for a flat template: every file of the listing whose coverage overlaps the closed period
   (IntervalTree.interval_overlaps(file_info.times, (start, end))), in the order of the listing;
   NoFilesError when there is none.  The listing is numbered: idx = position in the listing. *)
Definition find_sel (pe : Z * Z) (files : list (Z * Z)) : list ivl := filter (overlaps pe) (number files).

(* `.astype("M8[s]").astype(int)`: whole seconds, rounded towards minus infinity *)
Definition secs (f : ivl) : Z * Z := (lo f / US, hi f / US).

(* int(max_interval.total_seconds()): whole seconds, rounded towards zero *)
Definition mi_secs (m : Z) : Z := Z.quot m US.

Definition ivl0 : ivl := {| lo := 0; hi := 0; idx := 0 |}.

(* files1[i], [files2[oi] for oi in sorted(overlapping_files)]: local row numbers back to files (their listing positions) *)
Definition back (f1 f2 : list ivl) (r : Z * list Z) : Z * list Z :=
  (idx (nth (Z.to_nat (fst r)) f1 ivl0), map (fun j => idx (nth (Z.to_nat j) f2 ivl0)) (snd r)).

(* match() after the period block: the two find() calls, seconds, widening of the secondaries, tree query per primary.
   s, e: what is handed to find() as start and end. *)
Definition match_body (dmin dmax : Z) (mi s e : option Z) (prim sec : list (Z * Z)) : outcome :=
  match find_period dmin dmax s e with
  | inl x => Raised x
  | inr pe =>
      let f1 := find_sel pe prim in
      let f2 := find_sel pe sec in
      match f1, f2 with
      | [], _ => Raised NoFilesError
      | _, [] => Raised NoFilesError
      | _, _ =>
          let t1 := map secs f1 in
          let t2 := map secs f2 in
          let t2w := match mi with None => t2 | Some m => widen (mi_secs m) t2 end in
          Yields (map (back f1 f2) (match_from 0 t1 (number t2w)))
      end
  end.

(* FileSet.match(other, start, end, max_interval) on the listings (find order) of the two filesets.
   mi, start, end_: None = argument not given.  All times in microseconds. *)
Definition match_full (dmin dmax : Z) (mi start end_ : option Z) (prim sec : list (Z * Z)) : outcome :=
  let '(s, e) := match_period dmin dmax mi start end_ in match_body dmin dmax mi s e prim sec.

(* ---------- the specification: brute force over the two listings ---------- *)
Definition mi_us (mi : option Z) : Z := default 0 mi.

(* what the arguments are: max_interval not negative, start and end (when given) datetimes *)
Definition period_ok (dmin dmax : Z) (mi start end_ : option Z) : Prop :=
  0 <= mi_us mi /\ dmin <= default dmin start <= dmax /\ dmin <= default dmax end_ <= dmax.

(* the period widened by max_interval and clamped to the range of datetime, as the closed interval of
   microseconds a file has to touch: [max(dmin, start - mi), min(dmax, end + mi) - 1us] *)
Definition wperiod (dmin dmax : Z) (mi start end_ : option Z) : Z * Z :=
  (Z.max dmin (default dmin start - mi_us mi), Z.min dmax (default dmax end_ + mi_us mi) - 1).

(* the coverage of s (in whole seconds), widened by ms seconds on both sides, intersects the coverage of p *)
Definition partner (ms : Z) (p s : ivl) : bool := widened_overlap ms (secs p) (secs s).

Definition partners_of (pe : Z * Z) (ms : Z) (p : ivl) (sec : list (Z * Z)) : list Z :=
  map idx (filter (fun s => overlaps pe s && partner ms p s) (number sec)).

Definition match_full_spec (dmin dmax : Z) (mi start end_ : option Z) (prim sec : list (Z * Z)) : list (Z * list Z) :=
  let pe := wperiod dmin dmax mi start end_ in
  let ms := mi_us mi / US in
  flat_map (fun p => if overlaps pe p
                     then match partners_of pe ms p sec with [] => [] | js => [(idx p, js)] end
                     else []) (number prim).

(* the file at position i of a listing *)
Definition file_at (files : list (Z * Z)) (i : Z) : ivl :=
  let c := nth (Z.to_nat i) files (0, 0) in {| lo := fst c; hi := snd c; idx := i |}.

(* ---------- the tree without fuel: what _build_tree computes, as a relation ---------- *)
Inductive built : list ivl -> tree -> Prop :=
| built_nil : built [] Leaf
| built_node l tl tr :
    l <> [] ->
    built (filter (fun i => hi i <? center_of l) l) tl ->
    built (filter (fun i => center_of l <? lo i) l) tr ->
    built l (Node (center_of l) (filter (fun i => (lo i <=? center_of l) && (center_of l <=? hi i)) l) tl tr).

Fixpoint depth (t : tree) : nat :=
  match t with Leaf => O | Node _ _ l r => S (Nat.max (depth l) (depth r)) end.

(* ---------- helpers for the correspondence ---------- *)
(* the find() listing order: by start, then by end (sorted(key=lambda x: (x.times[0], x.times[1]))) *)
Definition key_le (a b : Z * Z) : Prop := fst a < fst b \/ (fst a = fst b /\ snd a <= snd b).
Definition key_leb (a b : Z * Z) : bool := (fst a <? fst b) || ((fst a =? fst b) && (snd a <=? snd b)).
