(* C05 -- executable model of Collocator.collocate_filesets (typhon/collocations/collocator.py 109-523)
   on top of FileSet.match (Model/C03_tree.v).  Definitions only.

   Data flow of the code:  find (both filesets, period widened by max_interval)  ->  match (C03)
   ->  np.array_split of the match list over min(processes, #matches) workers  ->  per worker: flat list of
   (primary, secondary) file pairs, align (skips pairs with an unreadable file when skip_file_errors),
   collocate() per pair, bundling state machine (cached_data / current_bundle_tag / final flush)
   ->  result queue (Model/C05_queue.v)  ->  yielded datasets or written files.

   `collocate` (property C04) and the spatial relation `near` are PARAMETERS of the model (Section
   variables); what is assumed about collocate is stated as hypotheses in Proofs/C05_pipeline.v. *)
From Coq Require Import ZArith List Bool.
From Typhon Require Import Model.C03_tree.
Import ListNotations.
Open Scope Z_scope.

Record pt := { ptime : Z; pid : Z }.                       (* time in microseconds, unique id *)
Record file := { c0 : Z; c1 : Z; pts : list pt }.          (* name-derived coverage [c0, c1] in microseconds *)
Record cfg := { p_start : Z; p_end : Z; mi : Z }.            (* period (microseconds), max_interval in SECONDS *)

Definition US : Z := 1000000.
Definition mius (c : cfg) : Z := mi c * US.
Definition sec (t : Z) : Z := t / US.                       (* .astype("M8[s]") : floor to whole seconds *)
Definition all_pts (F : list file) : list pt := flat_map pts F.

Definition pt_eqb (p q : pt) : bool := (ptime p =? ptime q) && (pid p =? pid q).

(* FileSet.find(start - mi, end + mi): coverage intersects the widened period, end exclusive (C01) *)
Definition found (c : cfg) (F : list file) : list file :=
  filter (fun f => (c0 f <? p_end c + mius c) && (p_start c - mius c <=? c1 f)) F.
Definition covs (F : list file) : list (Z * Z) := map (fun f => (sec (c0 f), sec (c1 f))) F.

(* the point-level criterion of a collocation (temporal part + window), `near` = the spatial part *)
Definition inwin (c : cfg) (p : pt) : bool := (p_start c <=? ptime p) && (ptime p <=? p_end c).

Definition nofile : file := {| c0 := 0; c1 := 0; pts := [] |}.
Definition nthf (i : Z) (F : list file) : file := nth (Z.to_nat i) F nofile.

(* match list -> flat list of (primary index, secondary index), as `matches` in _process_caller *)
Definition flat (ms : list (Z * list Z)) : list (Z * Z) := flat_map (fun m => map (pair (fst m)) (snd m)) ms.

(* np.array_split(l, k): l mod k chunks of size l/k+1, then chunks of size l/k *)
Fixpoint take_chunks {X} (sizes : list nat) (l : list X) : list (list X) :=
  match sizes with
  | [] => []
  | s :: r => firstn s l :: take_chunks r (skipn s l)
  end.
Definition split_sizes (n k : nat) : list nat :=
  repeat (S (n / k))%nat (n mod k)%nat ++ repeat (n / k)%nat (k - n mod k)%nat.
Definition array_split {X} (k : nat) (l : list X) : list (list X) := take_chunks (split_sizes (length l) k) l.

Definition cset := list (pt * pt).                          (* one compact collocation dataset: its pairs *)
Inductive mode := MNone | MPrimary | MDaily.

Definition DAY : Z := 86400 * US.
Definition zmin_l (d : Z) (l : list Z) := fold_right Z.min d l.
Definition zmax_l (d : Z) (l : list Z) := fold_right Z.max d l.
(* attrs start_time / end_time : first and last PRIMARY time of the set *)
Definition set_start (s : cset) : Z := match map (fun x => ptime (fst x)) s with [] => 0 | x :: r => zmin_l x r end.
Definition set_end (s : cset) : Z := match map (fun x => ptime (fst x)) s with [] => 0 | x :: r => zmax_l x r end.
Definition tag_of (md : mode) (pidx : Z) (s : cset) : Z :=
  match md with MPrimary => pidx | MDaily => set_start s / DAY | MNone => 0 end.

(* the loop of _process_caller over what _collocate_matches yields.  An item = (index of the primary of
   matches[processed], result of collocate: None when nothing was found).  cache = cached_data,
   cur = current_bundle_tag.  The value is the list of bundles handed to _save_and_return, in order. *)
Fixpoint loop (md : mode) (items : list (Z * option cset)) (cache : list cset) (cur : option Z) : list (list cset) :=
  match items with
  | [] => match cache with [] => [] | _ => [cache] end
  | (_, None) :: r => loop md r cache cur
  | (pidx, Some s) :: r =>
      match md with
      | MNone => [s] :: loop md r cache cur
      | _ =>
          let t := tag_of md pidx s in
          let save := match cur with None => false | Some t0 => negb (t0 =? t) end in
          if save then cache :: loop md r [s] (Some t) else loop md r (cache ++ [s]) (Some t)
      end
  end.
Definition somes (items : list (Z * option cset)) : list cset :=
  flat_map (fun it => match snd it with Some s => [s] | None => [] end) items.

(* MUTANTS of the loop, for the refutation examples: no final flush; bundle flushed but not cleared *)
Fixpoint loop_noflush (md : mode) (items : list (Z * option cset)) (cache : list cset) (cur : option Z) : list (list cset) :=
  match items with
  | [] => []
  | (_, None) :: r => loop_noflush md r cache cur
  | (pidx, Some s) :: r =>
      match md with
      | MNone => [s] :: loop_noflush md r cache cur
      | _ =>
          let t := tag_of md pidx s in
          let save := match cur with None => false | Some t0 => negb (t0 =? t) end in
          if save then cache :: loop_noflush md r [s] (Some t) else loop_noflush md r (cache ++ [s]) (Some t)
      end
  end.

(* the output fileset: write(name) replaces an existing file of that name *)
Definition fs := list ((Z * Z) * cset).
Fixpoint fs_write (name : Z * Z) (data : cset) (d : fs) : fs :=
  match d with
  | [] => [(name, data)]
  | (n, x) :: r => if (fst n =? fst name) && (snd n =? snd name) then (n, data) :: r else (n, x) :: fs_write name data r
  end.
Definition write_all (name_of : cset -> Z * Z) (sets : list cset) : fs :=
  fold_left (fun d s => fs_write (name_of s) s d) sets [].
(* _save_and_return: the name is rendered from start_time / end_time; res = resolution of the template *)
Definition name_of (res : Z) (s : cset) : Z * Z := (set_start s / res, set_end s / res).

Section Pipeline.
  Variable near : Z -> Z -> bool.
  Variable collocate : cfg -> list pt -> list pt -> cset.

  Definition okpair (c : cfg) (p s : pt) : bool :=
    inwin c p && inwin c s && (Z.abs (ptime p - ptime s) <? mius c) && near (pid p) (pid s).

  Definition matches (c : cfg) (A B : list file) : list (Z * list Z) :=
    match_model (mi c) (covs (found c A)) (covs (found c B)).

  Definition coll_pair (c : cfg) (A B : list file) (ij : Z * Z) : cset :=
    collocate c (pts (nthf (fst ij) (found c A))) (pts (nthf (snd ij) (found c B))).

  (* bad = the unreadable file (true: primary fileset) by its index among the found files; with
     skip_file_errors align() skips every pair that involves it *)
  Definition is_bad (bad : option (bool * Z)) (ij : Z * Z) : bool :=
    match bad with
    | None => false
    | Some (true, k) => fst ij =? k
    | Some (false, k) => snd ij =? k
    end.

  Definition worker_items (c : cfg) (bad : option (bool * Z)) (A B : list file) (ch : list (Z * list Z))
    : list (Z * option cset) :=
    let fl := flat ch in
    let yielded := filter (fun ij => negb (is_bad bad ij)) fl in
    combine (map fst fl)
            (map (fun ij => match coll_pair c A B ij with [] => None | r => Some r end) yielded).

  (* what each worker hands to _save_and_return (bundles concatenated by concat_collocations) *)
  Definition pipeline (c : cfg) (k : nat) (md : mode) (bad : option (bool * Z)) (A B : list file)
    : list (list cset) :=
    let ms := matches c A B in
    map (fun ch => map (@concat _) (loop md (worker_items c bad A B ch) [] None))
        (array_split (Nat.min k (length ms)) ms).

  Definition total (c : cfg) (k : nat) (md : mode) (bad : option (bool * Z)) (A B : list file) : cset :=
    concat (concat (pipeline c k md bad A B)).
End Pipeline.

(* ---------- brute-force collocate used to run the model on generated cases (it meets the hypotheses made
   about `collocate`, lemma bf_ok) ---------- *)
Definition collocate_bf (near : Z -> Z -> bool) (c : cfg) (P S : list pt) : cset :=
  flat_map (fun p => flat_map (fun s => if okpair near c p s then [(p, s)] else []) S) P.

Definition near_of (l : list (Z * Z)) (a b : Z) : bool := existsb (fun x => (fst x =? a) && (snd x =? b)) l.

(* ---------- interface of the correspondence ---------- *)
Definition mk_file (x : Z * Z * list (Z * Z)) : file :=
  {| c0 := fst (fst x); c1 := snd (fst x); pts := map (fun q => {| ptime := fst q; pid := snd q |}) (snd x) |}.
Definition ids (s : cset) : list (Z * Z) := map (fun x => (pid (fst x), pid (snd x))) s.
Definition describe (s : cset) : list (Z * Z) * Z * Z := (ids s, set_start s, set_end s).

(* run_case: emitted sets per worker (id pairs, first/last primary time), the specification (collocate of all
   data), the match list, and the three hypotheses of the theorems as booleans *)
Fixpoint nodupb (l : list Z) : bool :=
  match l with [] => true | x :: r => negb (existsb (Z.eqb x) r) && nodupb r end.
Definition cover_ok (F : list file) : bool :=
  forallb (fun f => forallb (fun p => (c0 f <=? ptime p) && (ptime p <=? c1 f)) (pts f)) F.

Definition run_case (nearl : list (Z * Z)) (c : cfg) (k : nat) (md : mode) (bad : option (bool * Z))
           (A B : list (Z * Z * list (Z * Z)))
  : list (list (list (Z * Z) * Z * Z)) * list (Z * Z) * list (Z * list Z) * bool :=
  let near := near_of nearl in
  let FA := map mk_file A in
  let FB := map mk_file B in
  (map (map describe) (pipeline (collocate_bf near) c k md bad FA FB),
   ids (collocate_bf near c (all_pts FA) (all_pts FB)),
   matches c FA FB,
   nodupb (map pid (all_pts FA)) && nodupb (map pid (all_pts FB)) && cover_ok FA && cover_ok FB && (0 <=? mi c)).
