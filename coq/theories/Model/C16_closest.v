(* Model/C16_closest.v -- executable model of typhon.files.fileset.FileSet.find_closest
   (and therefore of fileset[t] / fileset[t, filters], which only read the file find_closest names).
   DEFINITIONS ONLY (lemmas: Proofs/C16_closest.v; statements: Props/C16.v).

   The code (fileset.py, find_closest):
     1. single-file fileset: return the path when it is a file, else ValueError;
     2. exact-name short cut: path = get_filename(t); if it is a file, return it
        (UnknownPlaceholderError / UnfilledPlaceholderError of get_filename are swallowed);
          -- as is: returned unconditionally (defect #12: also when the file is excluded, or rejected by `filters`)
          -- after fixes/C16_1_*.patch: only when no filters are given and the file is not excluded
     3. window: [t - P, t + P) with P = the finest temporal placeholder of the sub-directory part
        (366 days when the sub-directories carry no temporal placeholder), all of time when the template has no
        sub-directory with placeholders;
     4. files = find(window, sort=False, filters): the files whose coverage overlaps the window, that pass the
        filters and are not excluded.  find() is C01's business; here the candidate set is its brute-force
        specification (the correspondence only builds populations inside C01's hypotheses);
     5. the first file covering t, else np.argmin of min(|t0 - t|, |t1 - t|) (first minimum);
        no files: NoFilesError (raised by find) / None.

   Times are microseconds since 0001-01-01 (Base/Calendar.v); names and templates are those of C02
   (Model/C02_template.v: `render` = get_filename). *)
From Coq Require Import ZArith List Bool Ascii String.
From Typhon Require Import Base.Calendar Model.C02_template.
Import ListNotations.
Open Scope Z_scope.

(* ------------------------------------------------------------------ files, queries *)

(* a file of the fileset: its path, its coverage [ft0, ft1] (closed), its user placeholders *)
Record file := File { fname : str; ft0 : Z; ft1 : Z; fattrs : list (str * str) }.

(* what the caller configures: filters (white lists / black lists over user placeholders; q_filtered = a
   `filters` argument is given at all), exclude_files, exclude_times *)
Record query := Query {
  q_filtered : bool;
  q_white : list (str * list str);
  q_black : list (str * list str);
  q_xnames : list str;
  q_xtimes : list (Z * Z) }.

Fixpoint alookup (k : str) (b : list (str * str)) : option str :=
  match b with [] => None | (k', v) :: b' => if str_eqb k k' then Some v else alookup k b' end.

(* white list: the placeholder's regex is replaced by the alternation of the allowed values (delimited by the
   neighbouring literals of the template, hence equality); a placeholder the path does not have is ignored *)
Definition white_ok (a : list (str * str)) (w : str * list str) : bool :=
  match alookup (fst w) a with Some v => existsb (str_eqb v) (snd w) | None => true end.
(* black list (_check_file): re.compile("v1|v2|...").match(value), i.e. some forbidden value is a PREFIX *)
Definition black_ok (a : list (str * str)) (b : str * list str) : bool :=
  match alookup (fst b) a with Some v => negb (existsb (fun p => is_prefix p v) (snd b)) | None => true end.
Definition passes (q : query) (f : file) : bool :=
  negb (q_filtered q) ||
  (forallb (white_ok (fattrs f)) (q_white q) && forallb (black_ok (fattrs f)) (q_black q)).

(* is_excluded: the path is in exclude_files, or the coverage intersects an excluded period
   (`file.times in IntervalTree(periods)`; closed intervals -- C03 proves the tree equal to this brute force) *)
Definition excluded (q : query) (f : file) : bool :=
  existsb (str_eqb (fname f)) (q_xnames q) ||
  existsb (fun p => (fst p <=? ft1 f) && (ft0 f <=? snd p)) (q_xtimes q).

(* ------------------------------------------------------------------ the sub-directory period *)

Definition is_slash (a : ascii) : bool := Ascii.eqb a "/"%char.
Definition slash_lit (t : tok) : bool := match t with Lit l => existsb is_slash l | _ => false end.
(* the tokens of posixpath.dirname(path): everything before the literal holding the last '/' *)
Fixpoint dir_part (tp : list tok) : list tok :=
  match tp with
  | [] => []
  | t :: tp' => if existsb slash_lit tp' then t :: dir_part tp' else []
  end.
Definition is_lit (t : tok) : bool := match t with Lit _ => true | _ => false end.

(* FileSet._temporal_resolution (doy counts as day, year2 as year) *)
Definition field_period (f : tfield) : Z :=
  match f with
  | FYear | FYear2 => 366 * us_day | FMonth => 31 * us_day | FDay | FDoy => us_day
  | FHour => us_hour | FMinute => us_minute | FSecond => us_second
  | FDeci => 100000 | FCenti => 10000 | FMilli => 1000 | FMicro => 1
  end.
(* _sub_dir_time_resolution: None when the directory part has no placeholder / wildcard; otherwise the smallest
   period of its (start) temporal placeholders, 366 days when it has none *)
Definition period_of (tp : list tok) : option Z :=
  let d := dir_part tp in
  if forallb is_lit d then None
  else Some (fold_right Z.min (366 * us_day) (map field_period (start_fields d))).

(* ------------------------------------------------------------------ the specification *)

Definition covers (t : Z) (f : file) : Prop := ft0 f <= t <= ft1 f.
Definition coversb (t : Z) (f : file) : bool := (ft0 f <=? t) && (t <=? ft1 f).
(* distance to the nearer end of the coverage *)
Definition dist (t : Z) (f : file) : Z := Z.min (Z.abs (ft0 f - t)) (Z.abs (ft1 f - t)).

(* within one sub-directory period around t: the coverage meets [t - P, t + P) *)
Definition near (P : option Z) (t : Z) (f : file) : Prop :=
  match P with None => True | Some p => t - p <= ft1 f /\ ft0 f < t + p end.
Definition nearb (P : option Z) (t : Z) (f : file) : bool :=
  match P with None => true | Some p => (t - p <=? ft1 f) && (ft0 f <? t + p) end.

Definition candidate (fs : list file) (q : query) (P : option Z) (t : Z) (f : file) : Prop :=
  In f fs /\ near P t f /\ passes q f = true /\ excluded q f = false.
Definition candb (q : query) (P : option Z) (t : Z) (f : file) : bool :=
  nearb P t f && passes q f && negb (excluded q f).

(* The answer is None (NoFilesError / None) or the index of a file in the listing `fs`.
   ClosestSpec is the property: the answer is a candidate; it covers t whenever some candidate does; otherwise
   its end-point distance is minimal among the candidates; None exactly when there is no candidate. *)
Definition ClosestSpec (fs : list file) (q : query) (P : option Z) (t : Z) (r : option nat) : Prop :=
  match r with
  | None => forall f, ~ candidate fs q P t f
  | Some i => exists g, nth_error fs i = Some g /\ candidate fs q P t g /\
      ((exists f, candidate fs q P t f /\ covers t f) -> covers t g) /\
      ((forall f, candidate fs q P t f -> ~ covers t f) ->
       forall f, candidate fs q P t f -> dist t g <= dist t f)
  end.

(* the boolean checker applied to the implementation's answer (ties, several covering files: all accepted) *)
Definition closest_ok (fs : list file) (q : query) (P : option Z) (t : Z) (r : option nat) : bool :=
  let cs := filter (candb q P t) fs in
  match r with
  | None => match cs with [] => true | _ => false end
  | Some i => match nth_error fs i with
              | None => false
              | Some g => candb q P t g &&
                          (if existsb (coversb t) cs then coversb t g
                           else forallb (fun f => dist t g <=? dist t f) cs)
              end
  end.

(* ------------------------------------------------------------------ the algorithm *)

Fixpoint find_index_from {A} (p : A -> bool) (k : nat) (l : list A) : option nat :=
  match l with [] => None | x :: l' => if p x then Some k else find_index_from p (S k) l' end.
Definition find_index {A} (p : A -> bool) (l : list A) : option nat := find_index_from p 0%nat l.

Fixpoint indexed_from {A} (k : nat) (l : list A) : list (nat * A) :=
  match l with [] => [] | x :: l' => (k, x) :: indexed_from (S k) l' end.
Definition indexed {A} (l : list A) : list (nat * A) := indexed_from 0%nat l.

(* get_filename(t) names an existing file *)
Definition exact_name (tp : list tok) (fill : list (key * str)) (fs : list file) (t : Z) : option nat :=
  match render tp t t fill with
  | Ok n => find_index (fun f => str_eqb (fname f) n) fs
  | Error _ => None
  end.

(* find(t - P, t + P, sort=False, filters): end' = end - 1us; closed-interval overlap with [start, end'];
   without sub-directory period the window is [datetime.min, datetime.max) *)
Definition in_window (P : option Z) (t : Z) (f : file) : bool :=
  match P with
  | None => (ft0 f <=? dt_max - 1 - 1) && (0 <=? ft1 f)
  | Some p => (ft0 f <=? t + p - 1) && (t - p <=? ft1 f)
  end.
Definition found (q : query) (P : option Z) (t : Z) (f : file) : bool :=
  in_window P t f && passes q f && negb (excluded q f).

(* np.argmin: the first minimum *)
Definition better (t : Z) (b p : nat * file) : nat * file :=
  if dist t (snd p) <? dist t (snd b) then p else b.

Definition search (fs : list file) (q : query) (P : option Z) (t : Z) : option nat :=
  match filter (fun p => found q P t (snd p)) (indexed fs) with
  | [] => None
  | c :: cs' =>
      match find (fun p => coversb t (snd p)) (c :: cs') with
      | Some p => Some (fst p)
      | None => Some (fst (fold_left (better t) cs' c))
      end
  end.

(* after the fix: the short cut is taken only without filters and for a file that is not excluded *)
Definition closest_model (tp : list tok) (fill : list (key * str)) (fs : list file) (q : query) (t : Z)
  : option nat :=
  let fallback := search fs q (period_of tp) t in
  match exact_name tp fill fs t with
  | Some i => match nth_error fs i with
              | Some f => if negb (q_filtered q) && negb (excluded q f) then Some i else fallback
              | None => fallback
              end
  | None => fallback
  end.

(* the unchanged code: the exactly named file is returned whatever the exclusions and filters say *)
Definition closest_asis (tp : list tok) (fill : list (key * str)) (fs : list file) (q : query) (t : Z)
  : option nat :=
  match exact_name tp fill fs t with
  | Some i => Some i
  | None => search fs q (period_of tp) t
  end.

(* single-file fileset (a path without placeholders): the path when it is a file, else ValueError;
   neither the timestamp nor the filters are looked at *)
Inductive sanswer := SPath | SValueError.
Definition single_model (is_file : bool) (t : Z) (q : query) : sanswer :=
  if is_file then SPath else SValueError.

(* ------------------------------------------------------------------ hypotheses, as booleans for the harness *)

(* coverage well formed and inside datetime (a start at datetime.max itself is outside find's semi-open window) *)
Definition file_ok (f : file) : Prop := 0 <= ft0 f /\ ft0 f <= ft1 f /\ ft0 f <= dt_max - 2.
Definition file_okb (f : file) : bool := (0 <=? ft0 f) && (ft0 f <=? ft1 f) && (ft0 f <=? dt_max - 2).

(* "t is given at the resolution of the file names": a file that get_filename(t) names covers t *)
Definition name_hyp (tp : list tok) (fill : list (key * str)) (fs : list file) (t : Z) : Prop :=
  forall f, In f fs -> render tp t t fill = Ok (fname f) -> covers t f.
Definition name_hypb (tp : list tok) (fill : list (key * str)) (fs : list file) (t : Z) : bool :=
  match render tp t t fill with
  | Ok n => forallb (fun f => negb (str_eqb (fname f) n) || coversb t f) fs
  | Error _ => true
  end.

(* datetime(y, m, d, h) for the examples *)
Definition ymdh (y m d h : Z) : Z := match mk y m d h 0 0 0 with Some t => t | None => 0 end.

(* ------------------------------------------------------------------ interface of the correspondence *)

Definition enc (r : option nat) : Z := match r with None => -1 | Some i => Z.of_nat i end.
Definition dec (z : Z) : option nat := if z <? 0 then None else Some (Z.to_nat z).
Definition b2z (b : bool) : Z := if b then 1 else 0.
Definition period_z (tp : list tok) : Z := match period_of tp with None => -1 | Some p => p end.

(* what the correspondence accepts: any answer the rule allows, and -- outside the hypothesis on the timestamp's
   resolution, where the property says nothing -- also the exactly named file the (fixed) short cut returns.
   Under the hypotheses of model_meets_spec this is closest_ok. *)
Definition algo_ok (tp : list tok) (fill : list (key * str)) (fs : list file) (q : query) (t : Z) (r : option nat)
  : bool :=
  closest_ok fs q (period_of tp) t r ||
  match exact_name tp fill fs t, r with
  | Some i, Some j => match nth_error fs i with
                      | Some f => negb (q_filtered q) && negb (excluded q f) && Nat.eqb i j
                      | None => false
                      end
  | _, _ => false
  end.

(* why an answer is rejected: 0 accepted, 1 not a file of the listing, 2 excluded, 3 rejected by the filters,
   4 outside the neighbourhood, 5 does not cover t although a candidate does, 6 not nearest, 7 absence reported
   although there are candidates *)
Definition diagnose (fs : list file) (q : query) (P : option Z) (t : Z) (r : option nat) : Z :=
  let cs := filter (candb q P t) fs in
  match r with
  | None => match cs with [] => 0 | _ => 7 end
  | Some i => match nth_error fs i with
     | None => 1
     | Some g => if excluded q g then 2 else if negb (passes q g) then 3 else if negb (nearb P t g) then 4
                 else if existsb (coversb t) cs then (if coversb t g then 0 else 5)
                 else if forallb (fun f => dist t g <=? dist t f) cs then 0 else 6
     end
  end.
(* number of indices the checker accepts *)
Definition n_accept (fs : list file) (q : query) (P : option Z) (t : Z) : Z :=
  Z.of_nat (List.length (filter (fun i => closest_ok fs q P t (Some i)) (seq 0 (List.length fs)))).

(* one query against one tree, observed answer `obs` (encoded):
   [hypotheses; closest_ok obs; algo_ok obs; diagnose obs; model; closest_ok model; as-is model; exact name;
    #candidates; #covering candidates; #accepted indices] *)
Definition run_query (tp : list tok) (fs : list file) (qto : query * Z * Z) : list Z :=
  let '(q, t, obs) := qto in
  let P := period_of tp in
  let m := closest_model tp [] fs q t in
  let cs := filter (candb q P t) fs in
  [ b2z (forallb file_okb fs && name_hypb tp [] fs t);
    b2z (closest_ok fs q P t (dec obs));
    b2z (algo_ok tp [] fs q t (dec obs));
    diagnose fs q P t (dec obs);
    enc m;
    b2z (closest_ok fs q P t m);
    enc (closest_asis tp [] fs q t);
    enc (exact_name tp [] fs t);
    Z.of_nat (List.length cs);
    Z.of_nat (List.length (filter (coversb t) cs));
    n_accept fs q P t ].
Definition run_case (tp : list tok) (fs : list file) (qs : list (query * Z * Z)) : Z * list (list Z) :=
  (period_z tp, map (run_query tp fs) qs).
