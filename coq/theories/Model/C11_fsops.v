(* Model/C11_fsops.v -- executable model of the file operations of typhon.files.fileset.FileSet:
     __setitem__ / write, read / __getitem__ (exact name) / collect, find (as the brute-force filter),
     move / copy (with optional conversion, _move_single_file after fix C11_1), delete / dry run.
                                                                              DEFINITIONS ONLY.

   A DISK is an association list path -> content (first binding wins; `dstore` keeps keys unique).
   File names come from Model/C02_template.v: `render` = get_filename, `info` = get_info (times and
   user attributes parsed back from a name).  The compression format of a name is decided as in
   files/utils.py (Model/C12_compress.v: fmt_of_name, the advertised formats gz bz2 zip xz).

   post_reader (a field of the fileset record) is a function of the ENTRY of the file that is read and of the data:
   FileSet.read hands the handler the decompressed temporary file but post_reader the FileInfo it was called with.

   External components are Section variables:
     enc h w x / dec h r b   -- the handler number h writing data x with write_args w / reading with read_args r
     pack f b / unpack f b   -- the codec of compression format f
   The theorems assume of them only what they state (dec (enc x) = x, unpack (pack b) = b); the
   harness instantiates them with the toy instance at the end of this file, which is the canonical form
   the harness reduces real files to (a list of integers: compression code, handler code, payload).

   The selection of files by find() is C01's business: here it is the brute-force filter
   (every file of the disk the template parses, whose coverage intersects [start, end - 1us], that
   passes the white and black lists), or an explicit list of files. *)
From Coq Require Import ZArith List Bool Ascii String.
From Typhon Require Import Base.Calendar Model.C02_template.
From Typhon Require Model.C12_compress.
Import ListNotations.
Open Scope Z_scope.

(* what an operation can raise, as a small enum *)
Inductive oerr :=
| ENoFiles                 (* NoFilesError: the selection by period is empty *)
| EName (e : err)          (* get_filename failed: UnfilledPlaceholderError, UnknownPlaceholderError *)
| ENoFile                  (* the file is not on the disk (FileNotFoundError) *)
| ECodec                   (* the content is not in the compression format its name announces *)
| EHandler                 (* the handler cannot write this object / read this content *)
| ESame                    (* copy of a file onto itself (shutil.SameFileError) *)
| EPeriod                  (* find(): end - 1us < start (ValueError) *)
| EConvert.                (* move(convert=f): the user's function raises for this object *)
Inductive res (A : Type) := Good (a : A) | Bad (e : oerr).
Arguments Good {A} a. Arguments Bad {A} e.
Definition rbind {A B} (r : res A) (f : A -> res B) : res B :=
  match r with Good a => f a | Bad e => Bad e end.

(* the compression format a path announces (compress()/decompress(): splitext + is_compression_format) *)
Definition zfmt (p : str) : option str :=
  let f := C12_compress.fmt_of_name p in if C12_compress.is_adv f then Some f else None.

Definition attrs := list (str * str).
Definition fill_of (a : attrs) : list (key * str) := map (fun kv => (KU (fst kv), snd kv)) a.

(* a file found by find(): path, start, end, user attributes *)
Record entry := En { e_path : str; e_s : Z; e_e : Z; e_attr : attrs }.

(* FileInfo(path): what read("some/path") builds from a string -- no times, no attributes (times are None in the
   code; an entry carries 0 there) *)
Definition bare (p : str) : entry := En p 0 0 [].

(* selection arguments of find()/map(): period [start, stop), white list, black list, or explicit files *)
Record sel := Sel { s_start : Z; s_stop : Z; s_white : list (str * list str);
                    s_black : list (str * list str); s_files : option (list str) }.

Fixpoint assoc_s (n : str) (a : attrs) : option str :=
  match a with [] => None | (k, v) :: a' => if str_eqb n k then Some v else assoc_s n a' end.

(* filters={"name": v | [v...]}: the placeholder is limited to the listed values *)
Definition white_ok (w : list (str * list str)) (a : attrs) : bool :=
  forallb (fun nv => match assoc_s (fst nv) a with
                     | Some v => existsb (str_eqb v) (snd nv)
                     | None => true end) w.
(* filters={"!name": v | [v...]}: re.compile("v1|v2").match(value) -- a PREFIX test *)
Definition black_ok (b : list (str * list str)) (a : attrs) : bool :=
  forallb (fun nv => match assoc_s (fst nv) a with
                     | Some v => negb (existsb (fun x => is_prefix x v) (snd nv))
                     | None => true end) b.

Section Ops.
Variables Data Bytes : Type.
Variable enc : Z -> Z -> Data -> option Bytes.
Variable dec : Z -> Z -> Bytes -> option Data.
Variable pack : str -> Bytes -> Bytes.
Variable unpack : str -> Bytes -> option Bytes.

Definition disk := list (str * Bytes).

Fixpoint dlook (p : str) (d : disk) : option Bytes :=
  match d with [] => None | (k, v) :: d' => if str_eqb k p then Some v else dlook p d' end.
Definition dremove (p : str) (d : disk) : disk := filter (fun kv => negb (str_eqb (fst kv) p)) d.
Definition dstore (p : str) (b : Bytes) (d : disk) : disk := (p, b) :: dremove p d.
Definition paths (d : disk) : list str := map fst d.

(* a FileSet: template, time_coverage, handler, read_args, write_args, post_reader, compress, decompress.
   post_reader is `callable(file_info, file_data)`: a function of the FileInfo of the file that is read (path, times,
   attributes) AND of the data. *)
Record fset := FSet { tpl : list tok; cov : option Z; hid : Z; rargs : Z; wargs : Z;
                      post : entry -> Data -> Data; zc : bool; zd : bool }.

Definition finfo (F : fset) (p : str) : result (Z * Z * attrs) :=
  info (Cfg ViaFilename (cov F) None None []) (tpl F) p.

(* FileSet.write: handler.write into the (temporary) file, compressed when the name says so *)
Definition encode (F : fset) (x : Data) (p : str) : option Bytes :=
  match enc (hid F) (wargs F) x with
  | None => None
  | Some b => Some (match (if zc F then zfmt p else None) with Some f => pack f b | None => b end)
  end.
Definition write_file (F : fset) (x : Data) (p : str) (d : disk) : res disk :=
  match encode F x p with Some b => Good (dstore p b d) | None => Bad EHandler end.

(* FileSet.read(file_info): decompress when the name says so, handler.read with read_args, post_reader.
   `en` is the FileInfo the caller hands in (an entry reported by find(), or `bare p` for a string).  The HANDLER is
   given the decompressed bytes (in the code: a copy of the FileInfo whose path is the temporary decompressed file);
   the POST_READER is given en ITSELF -- the file of the fileset, the same path, times and attributes that find()
   reports, whether the file is compressed or not (read_applies_post_reader_to_own_entry). *)
Definition decode (F : fset) (en : entry) (b : Bytes) : res Data :=
  match (match (if zd F then zfmt (e_path en) else None) with Some f => unpack f b | None => Some b end) with
  | None => Bad ECodec
  | Some raw => match dec (hid F) (rargs F) raw with
                | None => Bad EHandler
                | Some x => Good (post F en x)
                end
  end.
Definition read_file (F : fset) (en : entry) (d : disk) : res Data :=
  match dlook (e_path en) d with None => Bad ENoFile | Some b => decode F en b end.
(* what the HANDLER returns for the content b of a file named p: decompression decided by the name, read_args --
   before post_reader (decode = handler_read, then post_reader on the caller's FileInfo: decode_factor) *)
Definition handler_read (F : fset) (p : str) (b : Bytes) : res Data :=
  match (match (if zd F then zfmt p else None) with Some f => unpack f b | None => Some b end) with
  | None => Bad ECodec
  | Some raw => match dec (hid F) (rargs F) raw with None => Bad EHandler | Some x => Good x end
  end.

(* ------------------------------------------------------------------ selection (brute force) *)

Definition entry_of (F : fset) (p : str) : list entry :=
  match finfo F p with Ok (s, e, a) => [En p s e a] | Error _ => [] end.
Definition selected_by (sl : sel) (en : entry) : bool :=
  (e_s en <=? s_stop sl - 1) && (s_start sl <=? e_e en)
  && white_ok (s_white sl) (e_attr en) && black_ok (s_black sl) (e_attr en).
Definition entries (F : fset) (sl : sel) (d : disk) : list entry :=
  match s_files sl with
  | Some ps => flat_map (entry_of F) ps
  | None => filter (selected_by sl) (flat_map (entry_of F) (paths d))
  end.
(* find() raises for an inverted period and (no_files_error) for an empty answer; an explicit list is taken as is *)
Definition find (F : fset) (sl : sel) (d : disk) : res (list entry) :=
  match s_files sl with
  | Some _ => Good (entries F sl d)
  | None => if s_stop sl - 1 <? s_start sl then Bad EPeriod
            else match entries F sl d with [] => Bad ENoFiles | es => Good es end
  end.

Fixpoint foldM {A} (f : disk -> A -> res disk) (l : list A) (d : disk) : res disk :=
  match l with
  | [] => Good d
  | x :: l' => match f d x with Good d' => foldM f l' d' | Bad e => Bad e end
  end.
Fixpoint mapM {A B} (f : A -> res B) (l : list A) : res (list B) :=
  match l with
  | [] => Good []
  | x :: l' => rbind (f x) (fun y => rbind (mapM f l') (fun ys => Good (y :: ys)))
  end.

(* ------------------------------------------------------------------ move / copy *)

(* destination.get_filename(file_info.times, fill=file_info.attr) *)
Definition target (G : fset) (en : entry) : result str :=
  render (tpl G) (e_s en) (e_e en) (fill_of (e_attr en)).

(* convert: read through the source fileset, apply the user's function, encode for the destination *)
Definition recode (F G : fset) (f : Data -> Data) (en : entry) (q : str) (b : Bytes) : res Bytes :=
  rbind (decode F en b) (fun x => match encode G (f x) q with Some c => Good c | None => Bad EHandler end).

(* _move_single_file *)
Definition move1 (F G : fset) (copy : bool) (conv : option (Data -> Data)) (d : disk) (en : entry) : res disk :=
  match target G en with
  | Error e => Bad (EName e)
  | Ok q =>
      let p := e_path en in
      match dlook p d with
      | None => Bad ENoFile
      | Some b =>
          match conv with
          | Some f => rbind (recode F G f en q b) (fun c =>
                        let d' := dstore q c d in Good (if copy then d' else dremove p d'))
          | None => if str_eqb p q then (if copy then Bad ESame else Good d)
                    else let d' := dstore q b d in Good (if copy then d' else dremove p d')
          end
      end
  end.
Definition move (F G : fset) (copy : bool) (conv : option (Data -> Data)) (sl : sel) (d : disk) : res disk :=
  rbind (find F sl d) (fun es => foldM (move1 F G copy conv) es d).

(* ------------------------------------------------------------------ delete *)

Definition delete1 (d : disk) (en : entry) : res disk :=
  match dlook (e_path en) d with None => Bad ENoFile | Some _ => Good (dremove (e_path en) d) end.
Definition delete (F : fset) (dry : bool) (sl : sel) (d : disk) : res disk :=
  rbind (find F sl d) (fun es => if dry then Good d else foldM delete1 es d).

(* ------------------------------------------------------------------ operations and histories *)

Inductive op :=
| OWrite (F : fset) (s e : Z) (fill : attrs) (x : Data)      (* F[s:e, fill] = x *)
| OWriteAt (F : fset) (p : str) (x : Data)                   (* F.write(x, p) *)
| ORead (F : fset) (en : entry)                              (* F.read(file_info); F.read("path") = ORead F (bare path) *)
| OGet (F : fset) (t : Z)                                    (* F[t] through the exact-name short cut *)
| OCollect (F : fset) (sl : sel)                             (* F.collect(...), F[s:e] *)
| OFind (F : fset) (sl : sel)
| OMove (F G : fset) (copy : bool) (conv : option (Data -> Data)) (sl : sel)
| ODelete (F : fset) (dry : bool) (sl : sel).

Inductive obs :=
| VNone
| VData (x : Data)
| VList (l : list (str * Data))                              (* path, content *)
| VFiles (l : list entry)
| VUnspecified.                                              (* outside this property (C16) *)

Definition step (o : op) (d : disk) : res (disk * obs) :=
  match o with
  | OWrite F s e fl x =>
      match render (tpl F) s e (fill_of fl) with
      | Error er => Bad (EName er)
      | Ok p => rbind (write_file F x p d) (fun d' => Good (d', VNone))
      end
  | OWriteAt F p x => rbind (write_file F x p d) (fun d' => Good (d', VNone))
  | ORead F en => rbind (read_file F en d) (fun x => Good (d, VData x))
  | OGet F t =>
      (* find_closest: the file with exactly this name exists -> get_info(name) -> read(that FileInfo) *)
      match render (tpl F) t t [] with
      | Ok p => match dlook p d, entry_of F p with
                | Some _, en :: _ => rbind (read_file F en d) (fun x => Good (d, VData x))
                | _, _ => Good (d, VUnspecified)
                end
      | Error _ => Good (d, VUnspecified)
      end
  | OCollect F sl =>
      rbind (find F sl d) (fun es =>
      rbind (mapM (fun en => rbind (read_file F en d) (fun x => Good (e_path en, x))) es)
            (fun l => Good (d, VList l)))
  | OFind F sl => rbind (find F sl d) (fun es => Good (d, VFiles es))
  | OMove F G copy conv sl => rbind (move F G copy conv sl d) (fun d' => Good (d', VNone))
  | ODelete F dry sl => rbind (delete F dry sl d) (fun d' => Good (d', VNone))
  end.

(* a history; an operation that raises leaves the model's disk as it was and the history goes on
   (the harness re-synchronises: an operation that raised half way is not continued from) *)
Fixpoint run (ops : list op) (d : disk) : res disk :=
  match ops with
  | [] => Good d
  | o :: ops' => rbind (step o d) (fun r => run ops' (fst r))
  end.

(* the paths an operation may create, overwrite or remove *)
Definition targets_of (G : fset) (es : list entry) : list str :=
  flat_map (fun en => match target G en with Ok q => [q] | Error _ => [] end) es.
Definition touched (o : op) (d : disk) : list str :=
  match o with
  | OWrite F s e fl _ => match render (tpl F) s e (fill_of fl) with Ok p => [p] | Error _ => [] end
  | OWriteAt _ p _ => [p]
  | OMove F G copy _ sl => let es := entries F sl d in
                           (if copy then [] else map e_path es) ++ targets_of G es
  | ODelete F dry sl => if dry then [] else map e_path (entries F sl d)
  | _ => []
  end.

(* the hypotheses of move_conserves as a boolean: every target name is generated, the target names are
   pairwise distinct and do not exist yet, no file is selected twice *)
Fixpoint nodupb (l : list str) : bool :=
  match l with [] => true | x :: l' => negb (existsb (str_eqb x) l') && nodupb l' end.
Definition fresh (d : disk) (q : str) : bool := match dlook q d with None => true | Some _ => false end.
Definition move_hyp (F G : fset) (sl : sel) (d : disk) : bool :=
  let es := entries F sl d in
  let qs := targets_of G es in
  Nat.eqb (List.length qs) (List.length es) && nodupb qs && nodupb (map e_path es) && forallb (fresh d) qs.
Definition op_hyp_g (o : op) (d : disk) : bool :=
  match o with OMove F G _ _ sl => move_hyp F G sl d | _ => true end.

(* ------------------------------------------------------------------ a move whose conversion fails for some files
   move(target, convert=f): the user's function may raise for an object (f x = None), and the handler of the target
   may be unable to store what it is handed (enc = None).  The worker of such a file raises after the file was read and
   before anything is written; _move_single_file removes the original only AFTER destination.write has returned, so
   a file that did not arrive at its target is still at its source. *)
Definition recodep (F G : fset) (f : Data -> option Data) (en : entry) (q : str) (b : Bytes) : res Bytes :=
  rbind (decode F en b) (fun x =>
    match f x with
    | None => Bad EConvert
    | Some y => match encode G y q with Some c => Good c | None => Bad EHandler end
    end).

(* _move_single_file with a conversion that may fail (move1 is the case of a conversion that never does) *)
Definition move1p (F G : fset) (copy : bool) (conv : option (Data -> option Data)) (d : disk) (en : entry) : res disk :=
  match target G en with
  | Error e => Bad (EName e)
  | Ok q =>
      let p := e_path en in
      match dlook p d with
      | None => Bad ENoFile
      | Some b =>
          match conv with
          | Some f => rbind (recodep F G f en q b) (fun c =>
                        let d' := dstore q c d in Good (if copy then d' else dremove p d'))
          | None => if str_eqb p q then (if copy then Bad ESame else Good d)
                    else let d' := dstore q b d in Good (if copy then d' else dremove p d')
          end
      end
  end.

(* The workers of FileSet.map treat the selected files in parallel.  When one of them raises, move() raises, and which
   of the OTHER files have been treated by then is not determined by the property (the executor has finished those that
   come before the failing one in the order of find(); later ones may have run, be running -- they are waited for --
   or have been cancelled).  `done` = the files whose worker ran to its end, in the order they did. *)
Definition move_part (F G : fset) (copy : bool) (conv : option (Data -> option Data)) (done : list entry) (d : disk) : res disk :=
  foldM (move1p F G copy conv) done d.

(* workers one after the other (max_workers = 1): the disk when the first failing file is met, and its error *)
Fixpoint foldP {A} (f : disk -> A -> res disk) (l : list A) (d : disk) : disk * option oerr :=
  match l with
  | [] => (d, None)
  | x :: l' => match f d x with Good d' => foldP f l' d' | Bad e => (d, Some e) end
  end.
Definition movep (F G : fset) (copy : bool) (conv : option (Data -> option Data)) (sl : sel) (d : disk) : res (disk * option oerr) :=
  rbind (find F sl d) (fun es => Good (foldP (move1p F G copy conv) es d)).

(* the selected files whose conversion fails on the disk d *)
Definition failsb (F G : fset) (conv : option (Data -> option Data)) (d : disk) (en : entry) : bool :=
  match target G en, dlook (e_path en) d, conv with
  | Ok q, Some b, Some f => match recodep F G f en q b with Good _ => false | Bad _ => true end
  | _, _, _ => false
  end.
(* the selected files that are present under their target name on the disk d' *)
Definition arrivedb (G : fset) (d' : disk) (en : entry) : bool :=
  match target G en with
  | Ok q => match dlook q d' with Some _ => true | None => false end
  | Error _ => false
  end.
(* what the property prescribes for the tree after a move, given the tree d' that is observed afterwards: the files
   that arrived are moved, every other file is where it was (move_given_sound) *)
Definition move_given (F G : fset) (copy : bool) (conv : option (Data -> option Data)) (sl : sel) (d d' : disk) : res disk :=
  rbind (find F sl d) (fun es => move_part F G copy conv (filter (arrivedb G d') es) d).
(* the hypotheses of move_failure_conserves as a boolean: those of move_conserves, and every selected file exists *)
Definition movep_hyp (F G : fset) (sl : sel) (d : disk) : bool :=
  move_hyp F G sl d && forallb (fun en => negb (fresh d (e_path en))) (entries F sl d).

(* ------------------------------------------------------------------ the period a written file is found under
   F[s:e, fill] = x, then find(): what the property promises for each way of spelling the end (C02):
     no end fields        -> (s, s + time_coverage) resp. (s, s)
     a complete end       -> (s, e)
     only sub-day fields  -> (s, e's spelt fields completed by those of s, moved on by the unit above the coarsest
                             spelt end field when that would precede s); = (s, e) in the exact class
   None = get_info raises OverflowError (the period would end after 9999-12-31). *)
Definition start_okb (tp : list tok) (s : Z) : bool :=
  validb s && has_date (start_fields tp) && in_range (start_fields tp) (fields s)
  && at_resolution (start_fields tp) (fields s) && no_parse_only (start_fields tp).
Definition wif_period (F : fset) (s e : Z) : option Z :=
  let tp := tpl F in
  match end_fields tp with
  | [] => match cov F with Some c => add s c | None => Some s end
  | _ => if end_full tp then Some e
         else match complete tp (fields s) (fields e) with
              | Some r => let e' := roll (unit_above tp) s r in if validb e' then Some e' else None
              | None => None
              end
  end.
(* the hypotheses of C02's no_end_fields / roundtrip_end_full / roundtrip_end_partial as one boolean *)
Definition wif_hyp (F : fset) (s e : Z) (fill : attrs) : bool :=
  let tp := tpl F in let ef := end_fields tp in
  start_okb tp s && validb e && (s <=? e) && deterministic (fill_of fill) tp &&
  (match ef with [] => true | _ => false end
   || (end_full tp && in_range ef (fields e) && at_resolution ef (fields e) && no_parse_only ef)
   || end_partial tp).
(* the exact class of the sub-day end kind (hypotheses of C02's end_partial_exact): there the period is (s, e) *)
Definition wif_exact (F : fset) (s e : Z) : bool :=
  end_partial (tpl F) && end_exact (tpl F) (fields e) && (0 <=? e - s) && (e - s <? unit_above (tpl F)).

(* ------------------------------------------------------------------ arguments of a single call
   read(file, **read_args), collect(..., read_args={..}), write(data, file, **write_args):
         read_args = {**self.read_args, **read_args}          (fileset.py, read and write)
   A NEW dictionary is built for the call: the call's own entries override the defaults key by key, and the
   FileSet object keeps its defaults.  Keyword dictionaries are association lists (first binding wins), so
   {**a, **b} is b ++ a.  `kcode` is the handler's reading of a dictionary (the code enc / dec are indexed by). *)
Definition kwargs := list (str * Z).
Fixpoint klook (k : str) (a : kwargs) : option Z :=
  match a with [] => None | (k', v) :: a' => if str_eqb k k' then Some v else klook k a' end.
Definition kmerge (dflt call : kwargs) : kwargs := call ++ dflt.
Variable kcode : kwargs -> Z.

(* a FileSet OBJECT: what __init__ stored; read_args and write_args are its default dictionaries *)
Record fobj := FObj { o_tpl : list tok; o_cov : option Z; o_hid : Z; o_rd : kwargs; o_wd : kwargs;
                      o_post : entry -> Data -> Data; o_zc : bool; o_zd : bool }.
(* the fileset as ONE call with the read arguments cr and the write arguments cw sees it *)
Definition view (O : fobj) (cr cw : kwargs) : fset :=
  FSet (o_tpl O) (o_cov O) (o_hid O) (kcode (kmerge (o_rd O) cr)) (kcode (kmerge (o_wd O) cw))
       (o_post O) (o_zc O) (o_zd O).

Inductive ocall :=
| CRead (a : kwargs) (en : entry)               (* O.read(file_info, **a) *)
| CCollect (a : kwargs) (sl : sel)              (* O.collect(..., read_args=a) *)
| CWrite (a : kwargs) (x : Data) (p : str)      (* O.write(x, p, **a) *)
| CPlain (f : fset -> op).                      (* any operation of `op` on O with its defaults: O[s:e] = x, O.move(..), ... *)

(* one call: the object as it is afterwards, and the outcome *)
Definition call_step (O : fobj) (c : ocall) (d : disk) : fobj * res (disk * obs) :=
  (O, match c with
      | CRead a en => step (ORead (view O a []) en) d
      | CCollect a sl => step (OCollect (view O a []) sl) d
      | CWrite a x p => step (OWriteAt (view O [] a) p x) d
      | CPlain f => step (f (view O [] [])) d
      end).
(* a history of calls on one object (stops at the first exception, like `run`) *)
Fixpoint calls (O : fobj) (cs : list ocall) (d : disk) : fobj * res (disk * list obs) :=
  match cs with
  | [] => (O, Good (d, []))
  | c :: cs' => match call_step O c d with
                | (O1, Good (d1, ob)) => let (O2, r) := calls O1 cs' d1 in
                                         (O2, rbind r (fun x => Good (fst x, ob :: snd x)))
                | (O1, Bad e) => (O1, Bad e)
                end
  end.

(* operations that only READ: read, fileset[t], collect / icollect / fileset[s:e], find, and a dry run of delete.
   reading_keeps_disk: they hand back the WHOLE disk as it was (no path gone, none new -- nothing left in a temporary
   directory --, no content changed), also when several selected files share their base name *)
Definition reads (o : op) : bool :=
  match o with
  | ORead _ _ | OGet _ _ | OCollect _ _ | OFind _ _ => true
  | ODelete _ dry _ => dry
  | _ => false
  end.

End Ops.

Arguments FSet {Data}. Arguments tpl {Data}. Arguments cov {Data}. Arguments hid {Data}.
Arguments rargs {Data}. Arguments wargs {Data}. Arguments post {Data}. Arguments zc {Data}. Arguments zd {Data}.
Arguments dlook {Bytes}. Arguments dstore {Bytes}. Arguments dremove {Bytes}. Arguments paths {Bytes}.
Arguments OWrite {Data}. Arguments OWriteAt {Data}. Arguments ORead {Data}. Arguments OGet {Data}.
Arguments OCollect {Data}. Arguments OFind {Data}. Arguments OMove {Data}. Arguments ODelete {Data}.
Arguments VNone {Data}. Arguments VData {Data}. Arguments VList {Data}. Arguments VFiles {Data}.
Arguments VUnspecified {Data}.
Arguments finfo {Data}. Arguments target {Data}. Arguments targets_of {Data}.
Arguments wif_period {Data}. Arguments wif_hyp {Data}. Arguments wif_exact {Data}.
Arguments FObj {Data}. Arguments o_tpl {Data}. Arguments o_cov {Data}. Arguments o_hid {Data}. Arguments o_rd {Data}.
Arguments o_wd {Data}. Arguments o_post {Data}. Arguments o_zc {Data}. Arguments o_zd {Data}.
Arguments CRead {Data}. Arguments CCollect {Data}. Arguments CWrite {Data}. Arguments CPlain {Data}.

(* ------------------------------------------------------------------ the toy instance run by the harness
   Data  = Z (the number a test object carries);
   Bytes = list Z: [h; v] = payload v written by handler h (1 pickle, 2 JSON, 3 CSV, 4 NetCDF), and
           [c; h; v] = the same wrapped by compression c (11 gz, 12 bz2, 13 zip, 14 xz).
   This is the canonical form tools/props/c11.py reduces every real file to (magic bytes of
   gzip/bz2/xz/zip, then pickle / JSON / CSV / NetCDF sniffing), independently of typhon. *)
Definition zcode (f : str) : Z :=
  if str_eqb f (s2l "gz") then 11 else if str_eqb f (s2l "bz2") then 12
  else if str_eqb f (s2l "zip") then 13 else if str_eqb f (s2l "xz") then 14 else 19.
Definition t_enc (h w x : Z) : option (list Z) := Some [h; x + w].
Definition t_dec (h r : Z) (b : list Z) : option Z :=
  match b with [h'; v] => if h =? h' then Some (v - r) else None | _ => None end.
Definition t_pack (f : str) (b : list Z) : list Z := zcode f :: b.
Definition t_unpack (f : str) (b : list Z) : option (list Z) :=
  match b with c :: b' => if c =? zcode f then Some b' else None | [] => None end.

Definition t_fset := @fset Z.

(* post_readers of the harness: one that only adds k to the payload, and one that LABELS the payload with the file it
   is told it comes from: a checksum of the path (relative to the root of the tree), of the two times and of the
   attributes of the FileInfo it is handed.  tools/harness/c11_run.py (PostLabel) computes the same number from the
   FileInfo object that FileSet.read passes to post_reader. *)
Definition hstr (s : str) : Z :=
  fold_left (fun h c => (h * 31 + Z.of_N (N_of_ascii c)) mod 9973) s 7.
Definition t_lab (en : entry) : Z :=
  (hstr (e_path en) + (e_s en) mod 9973 + 7 * ((e_e en) mod 9973)
   + fold_right (fun kv a => a + 3 * hstr (fst kv) + hstr (snd kv)) 0 (e_attr en)) mod 9973.
Definition t_add (k : Z) : entry -> Z -> Z := fun _ x => x + k.
Definition t_label (k : Z) : entry -> Z -> Z := fun en x => x + k + 1000 * t_lab en.
(* the FileInfo get_info(p) builds for a file of the fileset (what find() reports); `bare p` when the name does not parse *)
Definition t_info (F : t_fset) (p : str) : entry :=
  match entry_of Z F p with en :: _ => en | [] => bare p end.
Definition t_step := step Z (list Z) t_enc t_dec t_pack t_unpack.
Definition op_hyp := op_hyp_g Z (list Z).

(* printable results *)
Definition out_entry (en : entry) : string * Z * Z * list (string * string) :=
  (l2s (e_path en), e_s en, e_e en, out_attrs (e_attr en)).
Inductive tobs := TNone | TData (x : Z) | TList (l : list (string * Z))
                | TFiles (l : list (string * Z * Z * list (string * string))) | TUnspecified.
Inductive tres := TGood (d : list (string * list Z)) (o : tobs) | TBad (e : oerr).
Definition in_disk (d : list (string * list Z)) : list (str * list Z) := map (fun kv => (s2l (fst kv), snd kv)) d.
Definition out_disk (d : list (str * list Z)) : list (string * list Z) := map (fun kv => (l2s (fst kv), snd kv)) d.
Definition out_obs (o : obs Z) : tobs :=
  match o with
  | VNone => TNone | VData x => TData x
  | VList l => TList (map (fun kv => (l2s (fst kv), snd kv)) l)
  | VFiles l => TFiles (map out_entry l)
  | VUnspecified => TUnspecified
  end.
Definition run_step (o : op Z) (d : list (string * list Z)) : tres :=
  match t_step o (in_disk d) with
  | Good (d', ob) => TGood (out_disk d') (out_obs ob)
  | Bad e => TBad e
  end.
Definition attrs_in (a : list (string * string)) : attrs := map (fun kv => (s2l (fst kv), s2l (snd kv))) a.
Definition filt_in (a : list (string * list string)) : list (str * list str) :=
  map (fun kv => (s2l (fst kv), map s2l (snd kv))) a.

(* per-call arguments on the toy instance: the handlers of the harness take one keyword, `offset` (default 0) *)
Definition t_kcode (a : kwargs) : Z := match klook (s2l "offset") a with Some v => v | None => 0 end.
Definition t_fobj := @fobj Z.
Definition t_call_step := call_step Z (list Z) t_enc t_dec t_pack t_unpack t_kcode.
Definition t_calls := calls Z (list Z) t_enc t_dec t_pack t_unpack t_kcode.
Definition kw_in (a : list (string * Z)) : kwargs := map (fun kv => (s2l (fst kv), snd kv)) a.
Definition kw_out (a : kwargs) : list (string * Z) := map (fun kv => (l2s (fst kv), snd kv)) a.
(* one call on an object: the outcome and the object's default dictionaries afterwards *)
Definition run_call (O : t_fobj) (c : ocall Z) (d : list (string * list Z))
  : tres * list (string * Z) * list (string * Z) :=
  let (O', r) := t_call_step O c (in_disk d) in
  (match r with Good (d', ob) => TGood (out_disk d') (out_obs ob) | Bad e => TBad e end,
   kw_out (o_rd O'), kw_out (o_wd O')).
(* what the property promises for F[s:e, fill] = x: (hypotheses hold, exact class, end of the period found,
   the name written -- "" when get_filename raises) *)
Definition run_wif (F : t_fset) (s e : Z) (fill : attrs) : bool * bool * option Z * string :=
  (wif_hyp F s e fill, wif_exact F s e, wif_period F s e,
   match render (tpl F) s e (fill_of fill) with Ok p => l2s p | Error _ => EmptyString end).

(* a move whose conversion fails on the toy instance: a convert function that raises for ONE payload (and adds k to every
   other), a target handler that cannot store ONE payload (it raises before it opens the file) *)
Definition t_convp (k : Z) (bad : option Z) : Z -> option Z :=
  fun x => match bad with Some v => if x =? v then None else Some (x + k) | None => Some (x + k) end.
Definition t_encp (bad : option Z) (h w x : Z) : option (list Z) :=
  match bad with Some v => if x =? v then None else t_enc h w x | None => t_enc h w x end.
(* (sequential workers: the tree when every file could be converted, else the first error;
    what the property prescribes given the observed tree `after`;
    the selected files whose conversion fails;  the hypotheses of move_failure_conserves) *)
Definition run_movep (wbad : option Z) (F G : t_fset) (copy : bool) (conv : option (Z -> option Z)) (sl : sel)
                     (d after : list (string * list Z)) : tres * tres * list string * bool :=
  (match movep Z (list Z) (t_encp wbad) t_dec t_pack t_unpack F G copy conv sl (in_disk d) with
   | Good (d', None) => TGood (out_disk d') TNone
   | Good (_, Some e) => TBad e
   | Bad e => TBad e
   end,
   match move_given Z (list Z) (t_encp wbad) t_dec t_pack t_unpack F G copy conv sl (in_disk d) (in_disk after) with
   | Good d' => TGood (out_disk d') TNone
   | Bad e => TBad e
   end,
   map (fun en => l2s (e_path en))
       (filter (failsb Z (list Z) (t_encp wbad) t_dec t_pack t_unpack F G conv (in_disk d)) (entries Z (list Z) F sl (in_disk d))),
   movep_hyp Z (list Z) F G sl (in_disk d)).
