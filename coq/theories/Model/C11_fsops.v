(* Model/C11_fsops.v -- executable model of the file operations of typhon.files.fileset.FileSet:
     __setitem__ / write, read / __getitem__ (exact name) / collect, find (as the brute-force filter),
     move / copy (with optional conversion, _move_single_file after fix C11_1), delete / dry run.
                                                                              DEFINITIONS ONLY.

   A DISK is an association list path -> content (first binding wins; `dstore` keeps keys unique).
   File names come from Model/C02_template.v: `render` = get_filename, `info` = get_info (times and
   user attributes parsed back from a name).  The compression format of a name is decided as in
   files/utils.py (Model/C12_compress.v: fmt_of_name, the advertised formats gz bz2 zip xz).

   External components are Section variables:
     enc h w x / dec h r b   -- the handler number h writing data x with write_args w / reading with read_args r
     pack f b / unpack f b   -- the codec of compression format f
   The theorems assume of them only what they state (dec (enc x) = x, unpack (pack b) = b); the
   harness instantiates them with the toy instance at the end of this file, which is the canonical form
   the harness reduces real files to (a list of integers: compression code, handler code, payload).

   The selection of files by find() is C01's business: here it is the brute-force filter
   (every file of the disk the template parses, whose coverage intersects [start, end - 1us], that
   passes the white and black lists), or an explicit list of files. *)
From Coq Require Import ZArith List Bool Ascii String.
From Typhon Require Import Base.Calendar Model.C02_template.
From Typhon Require Model.C12_compress.
Import ListNotations.
Open Scope Z_scope.

(* what an operation can raise, as a small enum *)
Inductive oerr :=
| ENoFiles                 (* NoFilesError: the selection by period is empty *)
| EName (e : err)          (* get_filename failed: UnfilledPlaceholderError, UnknownPlaceholderError *)
| ENoFile                  (* the file is not on the disk (FileNotFoundError) *)
| ECodec                   (* the content is not in the compression format its name announces *)
| EHandler                 (* the handler cannot write this object / read this content *)
| ESame                    (* copy of a file onto itself (shutil.SameFileError) *)
| EPeriod.                 (* find(): end - 1us < start (ValueError) *)
Inductive res (A : Type) := Good (a : A) | Bad (e : oerr).
Arguments Good {A} a. Arguments Bad {A} e.
Definition rbind {A B} (r : res A) (f : A -> res B) : res B :=
  match r with Good a => f a | Bad e => Bad e end.

(* the compression format a path announces (compress()/decompress(): splitext + is_compression_format) *)
Definition zfmt (p : str) : option str :=
  let f := C12_compress.fmt_of_name p in if C12_compress.is_adv f then Some f else None.

Definition attrs := list (str * str).
Definition fill_of (a : attrs) : list (key * str) := map (fun kv => (KU (fst kv), snd kv)) a.

(* a file found by find(): path, start, end, user attributes *)
Record entry := En { e_path : str; e_s : Z; e_e : Z; e_attr : attrs }.

(* selection arguments of find()/map(): period [start, stop), white list, black list, or explicit files *)
Record sel := Sel { s_start : Z; s_stop : Z; s_white : list (str * list str);
                    s_black : list (str * list str); s_files : option (list str) }.

Fixpoint assoc_s (n : str) (a : attrs) : option str :=
  match a with [] => None | (k, v) :: a' => if str_eqb n k then Some v else assoc_s n a' end.

(* filters={"name": v | [v...]}: the placeholder is limited to the listed values *)
Definition white_ok (w : list (str * list str)) (a : attrs) : bool :=
  forallb (fun nv => match assoc_s (fst nv) a with
                     | Some v => existsb (str_eqb v) (snd nv)
                     | None => true end) w.
(* filters={"!name": v | [v...]}: re.compile("v1|v2").match(value) -- a PREFIX test *)
Definition black_ok (b : list (str * list str)) (a : attrs) : bool :=
  forallb (fun nv => match assoc_s (fst nv) a with
                     | Some v => negb (existsb (fun x => is_prefix x v) (snd nv))
                     | None => true end) b.

Section Ops.
Variables Data Bytes : Type.
Variable enc : Z -> Z -> Data -> option Bytes.
Variable dec : Z -> Z -> Bytes -> option Data.
Variable pack : str -> Bytes -> Bytes.
Variable unpack : str -> Bytes -> option Bytes.

Definition disk := list (str * Bytes).

Fixpoint dlook (p : str) (d : disk) : option Bytes :=
  match d with [] => None | (k, v) :: d' => if str_eqb k p then Some v else dlook p d' end.
Definition dremove (p : str) (d : disk) : disk := filter (fun kv => negb (str_eqb (fst kv) p)) d.
Definition dstore (p : str) (b : Bytes) (d : disk) : disk := (p, b) :: dremove p d.
Definition paths (d : disk) : list str := map fst d.

(* a FileSet: template, time_coverage, handler, read_args, write_args, post_reader, compress, decompress *)
Record fset := FSet { tpl : list tok; cov : option Z; hid : Z; rargs : Z; wargs : Z;
                      post : Data -> Data; zc : bool; zd : bool }.

Definition finfo (F : fset) (p : str) : result (Z * Z * attrs) :=
  info (Cfg ViaFilename (cov F) None None []) (tpl F) p.

(* FileSet.write: handler.write into the (temporary) file, compressed when the name says so *)
Definition encode (F : fset) (x : Data) (p : str) : option Bytes :=
  match enc (hid F) (wargs F) x with
  | None => None
  | Some b => Some (match (if zc F then zfmt p else None) with Some f => pack f b | None => b end)
  end.
Definition write_file (F : fset) (x : Data) (p : str) (d : disk) : res disk :=
  match encode F x p with Some b => Good (dstore p b d) | None => Bad EHandler end.

(* FileSet.read: decompress when the name says so, handler.read with read_args, post_reader *)
Definition decode (F : fset) (p : str) (b : Bytes) : res Data :=
  match (match (if zd F then zfmt p else None) with Some f => unpack f b | None => Some b end) with
  | None => Bad ECodec
  | Some raw => match dec (hid F) (rargs F) raw with
                | None => Bad EHandler
                | Some x => Good (post F x)
                end
  end.
Definition read_file (F : fset) (p : str) (d : disk) : res Data :=
  match dlook p d with None => Bad ENoFile | Some b => decode F p b end.

(* ------------------------------------------------------------------ selection (brute force) *)

Definition entry_of (F : fset) (p : str) : list entry :=
  match finfo F p with Ok (s, e, a) => [En p s e a] | Error _ => [] end.
Definition selected_by (sl : sel) (en : entry) : bool :=
  (e_s en <=? s_stop sl - 1) && (s_start sl <=? e_e en)
  && white_ok (s_white sl) (e_attr en) && black_ok (s_black sl) (e_attr en).
Definition entries (F : fset) (sl : sel) (d : disk) : list entry :=
  match s_files sl with
  | Some ps => flat_map (entry_of F) ps
  | None => filter (selected_by sl) (flat_map (entry_of F) (paths d))
  end.
(* find() raises for an inverted period and (no_files_error) for an empty answer; an explicit list is taken as is *)
Definition find (F : fset) (sl : sel) (d : disk) : res (list entry) :=
  match s_files sl with
  | Some _ => Good (entries F sl d)
  | None => if s_stop sl - 1 <? s_start sl then Bad EPeriod
            else match entries F sl d with [] => Bad ENoFiles | es => Good es end
  end.

Fixpoint foldM {A} (f : disk -> A -> res disk) (l : list A) (d : disk) : res disk :=
  match l with
  | [] => Good d
  | x :: l' => match f d x with Good d' => foldM f l' d' | Bad e => Bad e end
  end.
Fixpoint mapM {A B} (f : A -> res B) (l : list A) : res (list B) :=
  match l with
  | [] => Good []
  | x :: l' => rbind (f x) (fun y => rbind (mapM f l') (fun ys => Good (y :: ys)))
  end.

(* ------------------------------------------------------------------ move / copy *)

(* destination.get_filename(file_info.times, fill=file_info.attr) *)
Definition target (G : fset) (en : entry) : result str :=
  render (tpl G) (e_s en) (e_e en) (fill_of (e_attr en)).

(* convert: read through the source fileset, apply the user's function, encode for the destination *)
Definition recode (F G : fset) (f : Data -> Data) (p q : str) (b : Bytes) : res Bytes :=
  rbind (decode F p b) (fun x => match encode G (f x) q with Some c => Good c | None => Bad EHandler end).

(* _move_single_file *)
Definition move1 (F G : fset) (copy : bool) (conv : option (Data -> Data)) (d : disk) (en : entry) : res disk :=
  match target G en with
  | Error e => Bad (EName e)
  | Ok q =>
      let p := e_path en in
      match dlook p d with
      | None => Bad ENoFile
      | Some b =>
          match conv with
          | Some f => rbind (recode F G f p q b) (fun c =>
                        let d' := dstore q c d in Good (if copy then d' else dremove p d'))
          | None => if str_eqb p q then (if copy then Bad ESame else Good d)
                    else let d' := dstore q b d in Good (if copy then d' else dremove p d')
          end
      end
  end.
Definition move (F G : fset) (copy : bool) (conv : option (Data -> Data)) (sl : sel) (d : disk) : res disk :=
  rbind (find F sl d) (fun es => foldM (move1 F G copy conv) es d).

(* ------------------------------------------------------------------ delete *)

Definition delete1 (d : disk) (en : entry) : res disk :=
  match dlook (e_path en) d with None => Bad ENoFile | Some _ => Good (dremove (e_path en) d) end.
Definition delete (F : fset) (dry : bool) (sl : sel) (d : disk) : res disk :=
  rbind (find F sl d) (fun es => if dry then Good d else foldM delete1 es d).

(* ------------------------------------------------------------------ operations and histories *)

Inductive op :=
| OWrite (F : fset) (s e : Z) (fill : attrs) (x : Data)      (* F[s:e, fill] = x *)
| OWriteAt (F : fset) (p : str) (x : Data)                   (* F.write(x, p) *)
| ORead (F : fset) (p : str)                                 (* F.read(p) *)
| OGet (F : fset) (t : Z)                                    (* F[t] through the exact-name short cut *)
| OCollect (F : fset) (sl : sel)                             (* F.collect(...), F[s:e] *)
| OFind (F : fset) (sl : sel)
| OMove (F G : fset) (copy : bool) (conv : option (Data -> Data)) (sl : sel)
| ODelete (F : fset) (dry : bool) (sl : sel).

Inductive obs :=
| VNone
| VData (x : Data)
| VList (l : list (str * Data))                              (* path, content *)
| VFiles (l : list entry)
| VUnspecified.                                              (* outside this property (C16) *)

Definition step (o : op) (d : disk) : res (disk * obs) :=
  match o with
  | OWrite F s e fl x =>
      match render (tpl F) s e (fill_of fl) with
      | Error er => Bad (EName er)
      | Ok p => rbind (write_file F x p d) (fun d' => Good (d', VNone))
      end
  | OWriteAt F p x => rbind (write_file F x p d) (fun d' => Good (d', VNone))
  | ORead F p => rbind (read_file F p d) (fun x => Good (d, VData x))
  | OGet F t =>
      match render (tpl F) t t [] with
      | Ok p => match dlook p d with
                | Some _ => rbind (read_file F p d) (fun x => Good (d, VData x))
                | None => Good (d, VUnspecified)
                end
      | Error _ => Good (d, VUnspecified)
      end
  | OCollect F sl =>
      rbind (find F sl d) (fun es =>
      rbind (mapM (fun en => rbind (read_file F (e_path en) d) (fun x => Good (e_path en, x))) es)
            (fun l => Good (d, VList l)))
  | OFind F sl => rbind (find F sl d) (fun es => Good (d, VFiles es))
  | OMove F G copy conv sl => rbind (move F G copy conv sl d) (fun d' => Good (d', VNone))
  | ODelete F dry sl => rbind (delete F dry sl d) (fun d' => Good (d', VNone))
  end.

(* a history; an operation that raises leaves the model's disk as it was and the history goes on
   (the harness re-synchronises: an operation that raised half way is not continued from) *)
Fixpoint run (ops : list op) (d : disk) : res disk :=
  match ops with
  | [] => Good d
  | o :: ops' => rbind (step o d) (fun r => run ops' (fst r))
  end.

(* the paths an operation may create, overwrite or remove *)
Definition targets_of (G : fset) (es : list entry) : list str :=
  flat_map (fun en => match target G en with Ok q => [q] | Error _ => [] end) es.
Definition touched (o : op) (d : disk) : list str :=
  match o with
  | OWrite F s e fl _ => match render (tpl F) s e (fill_of fl) with Ok p => [p] | Error _ => [] end
  | OWriteAt _ p _ => [p]
  | OMove F G copy _ sl => let es := entries F sl d in
                           (if copy then [] else map e_path es) ++ targets_of G es
  | ODelete F dry sl => if dry then [] else map e_path (entries F sl d)
  | _ => []
  end.

(* the hypotheses of move_conserves as a boolean: every target name is generated, the target names are
   pairwise distinct and do not exist yet, no file is selected twice *)
Fixpoint nodupb (l : list str) : bool :=
  match l with [] => true | x :: l' => negb (existsb (str_eqb x) l') && nodupb l' end.
Definition fresh (d : disk) (q : str) : bool := match dlook q d with None => true | Some _ => false end.
Definition move_hyp (F G : fset) (sl : sel) (d : disk) : bool :=
  let es := entries F sl d in
  let qs := targets_of G es in
  Nat.eqb (List.length qs) (List.length es) && nodupb qs && nodupb (map e_path es) && forallb (fresh d) qs.
Definition op_hyp_g (o : op) (d : disk) : bool :=
  match o with OMove F G _ _ sl => move_hyp F G sl d | _ => true end.

End Ops.

Arguments FSet {Data}. Arguments tpl {Data}. Arguments cov {Data}. Arguments hid {Data}.
Arguments rargs {Data}. Arguments wargs {Data}. Arguments post {Data}. Arguments zc {Data}. Arguments zd {Data}.
Arguments dlook {Bytes}. Arguments dstore {Bytes}. Arguments dremove {Bytes}. Arguments paths {Bytes}.
Arguments OWrite {Data}. Arguments OWriteAt {Data}. Arguments ORead {Data}. Arguments OGet {Data}.
Arguments OCollect {Data}. Arguments OFind {Data}. Arguments OMove {Data}. Arguments ODelete {Data}.
Arguments VNone {Data}. Arguments VData {Data}. Arguments VList {Data}. Arguments VFiles {Data}.
Arguments VUnspecified {Data}.
Arguments finfo {Data}. Arguments target {Data}. Arguments targets_of {Data}.

(* ------------------------------------------------------------------ the toy instance run by the harness
   Data  = Z (the number a test object carries);
   Bytes = list Z: [h; v] = payload v written by handler h (1 pickle, 2 JSON, 3 CSV, 4 NetCDF), and
           [c; h; v] = the same wrapped by compression c (11 gz, 12 bz2, 13 zip, 14 xz).
   This is the canonical form tools/props/c11.py reduces every real file to (magic bytes of
   gzip/bz2/xz/zip, then pickle / JSON / CSV / NetCDF sniffing), independently of typhon. *)
Definition zcode (f : str) : Z :=
  if str_eqb f (s2l "gz") then 11 else if str_eqb f (s2l "bz2") then 12
  else if str_eqb f (s2l "zip") then 13 else if str_eqb f (s2l "xz") then 14 else 19.
Definition t_enc (h w x : Z) : option (list Z) := Some [h; x + w].
Definition t_dec (h r : Z) (b : list Z) : option Z :=
  match b with [h'; v] => if h =? h' then Some (v - r) else None | _ => None end.
Definition t_pack (f : str) (b : list Z) : list Z := zcode f :: b.
Definition t_unpack (f : str) (b : list Z) : option (list Z) :=
  match b with c :: b' => if c =? zcode f then Some b' else None | [] => None end.

Definition t_fset := @fset Z.
Definition t_step := step Z (list Z) t_enc t_dec t_pack t_unpack.
Definition op_hyp := op_hyp_g Z (list Z).

(* printable results *)
Definition out_entry (en : entry) : string * Z * Z * list (string * string) :=
  (l2s (e_path en), e_s en, e_e en, out_attrs (e_attr en)).
Inductive tobs := TNone | TData (x : Z) | TList (l : list (string * Z))
                | TFiles (l : list (string * Z * Z * list (string * string))) | TUnspecified.
Inductive tres := TGood (d : list (string * list Z)) (o : tobs) | TBad (e : oerr).
Definition in_disk (d : list (string * list Z)) : list (str * list Z) := map (fun kv => (s2l (fst kv), snd kv)) d.
Definition out_disk (d : list (str * list Z)) : list (string * list Z) := map (fun kv => (l2s (fst kv), snd kv)) d.
Definition out_obs (o : obs Z) : tobs :=
  match o with
  | VNone => TNone | VData x => TData x
  | VList l => TList (map (fun kv => (l2s (fst kv), snd kv)) l)
  | VFiles l => TFiles (map out_entry l)
  | VUnspecified => TUnspecified
  end.
Definition run_step (o : op Z) (d : list (string * list Z)) : tres :=
  match t_step o (in_disk d) with
  | Good (d', ob) => TGood (out_disk d') (out_obs ob)
  | Bad e => TBad e
  end.
Definition attrs_in (a : list (string * string)) : attrs := map (fun kv => (s2l (fst kv), s2l (snd kv))) a.
Definition filt_in (a : list (string * list string)) : list (str * list str) :=
  map (fun kv => (s2l (fst kv), map s2l (snd kv))) a.
