(* C20 -- robustness margin of the index arithmetic: definitions only (see Proofs/C20_margin.v, Props/C20.v).

   A coordinate is x = n / D degrees (D > 0).  Cell edges are the multiples of 1/120 degree.  The margin is
   1 / M degree (M > 0; the harness uses M = 2^40). *)
From Coq Require Import ZArith List Bool.
From Typhon Require Import Model.C20_srtm.
Open Scope Z_scope.

(* x is farther than 1/M degree from EVERY cell edge k/120:   |n/D - k/120| > 1/M  <->  120 D < M |120 n - k D| *)
Definition off_edges (M D n : Z) : Prop := forall k, 120 * D < M * Z.abs (120 * n - k * D).

(* the same, decided: look at the two neighbouring edges only *)
Definition off_edges_b (M D n : Z) : bool :=
  let m := (120 * n) mod D in (120 * D <? M * m) && (120 * D <? M * (D - m)).

(* x' = n'/D' differs from x = n/D by at most 1/M degree:   |n'/D' - n/D| <= 1/M *)
Definition within (M D n D' n' : Z) : Prop := M * Z.abs (n' * D - n * D') <= D * D'.
Definition within_b (M D n D' n' : Z) : bool := M * Z.abs (n' * D - n * D') <=? D * D'.

(* x and x' lie strictly inside the same cell *)
Definition same_cell (D n D' n' : Z) : Prop :=
  exists k, k * D < 120 * n < (k + 1) * D /\ k * D' < 120 * n' < (k + 1) * D'.

Definition rect_off_edges (M : Z) (r : rect) : Prop :=
  off_edges M (rD r) (rlat0 r) /\ off_edges M (rD r) (rlon0 r) /\
  off_edges M (rD r) (rlat1 r) /\ off_edges M (rD r) (rlon1 r).
Definition rect_off_edges_b (M : Z) (r : rect) : bool :=
  off_edges_b M (rD r) (rlat0 r) && off_edges_b M (rD r) (rlon0 r) &&
  off_edges_b M (rD r) (rlat1 r) && off_edges_b M (rD r) (rlon1 r).

(* r' is r with every corner moved by at most 1/M degree (any denominator) *)
Definition rect_within (M : Z) (r r' : rect) : Prop :=
  0 < rD r' /\
  within M (rD r) (rlat0 r) (rD r') (rlat0 r') /\ within M (rD r) (rlon0 r) (rD r') (rlon0 r') /\
  within M (rD r) (rlat1 r) (rD r') (rlat1 r') /\ within M (rD r) (rlon1 r) (rD r') (rlon1 r').
Definition rect_within_b (M : Z) (r r' : rect) : bool :=
  (0 <? rD r') &&
  within_b M (rD r) (rlat0 r) (rD r') (rlat0 r') && within_b M (rD r) (rlon0 r) (rD r') (rlon0 r') &&
  within_b M (rD r) (rlat1 r) (rD r') (rlat1 r') && within_b M (rD r) (rlon1 r) (rD r') (rlon1 r').

Definition rect_same_cells (r r' : rect) : Prop :=
  same_cell (rD r) (rlat0 r) (rD r') (rlat0 r') /\ same_cell (rD r) (rlon0 r) (rD r') (rlon0 r') /\
  same_cell (rD r) (rlat1 r) (rD r') (rlat1 r') /\ same_cell (rD r) (rlon1 r) (rD r') (rlon1 r').

(* the margin used by the harness: 2^-40 degree (about 0.1 micrometre on the ground; 1.1e-10 cell) *)
Definition margin40 : Z := 2 ^ 40.
