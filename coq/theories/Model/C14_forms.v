(* C14 -- the two formulations of integrate_water_vapor side by side: definitions only.
   The general form  int rho_v dz  is evaluated over the heights that the code's own pressure2height gives for the MOIST
   column, i.e. pressure2height(p, T_v) called with the virtual temperature T_v (pressure2height works with the density of
   dry air, density(p, T) with the default R; at T_v that is the density of the moist air). *)
From Coq Require Import Reals List.
From TyphonGen Require Import atmosphere.
From Typhon Require Import Model.C14_column.
Import ListNotations.
Open Scope R_scope.

(* the denominator of vmr2specific_humidity:  q x = x / moist_factor x  (syntactically) *)
Definition moist_factor (x : R) : R := (1 - x) * c_molar_mass_dry_air / c_molar_mass_water + x.
(* the temperature at which dry air has the density of the moist air: T_v = T R_v / (R_d ((1 - x) Md / Mw + x)),
   the textbook T / (1 - x (1 - Mw / Md)) up to the rounding of the two gas constants (Proofs: virtual_temperature_textbook) *)
Definition virtual_temperature (x T : R) : R :=
  T * c_gas_constant_water_vapor / (c_gas_constant_dry_air * moist_factor x).
(* the hydrostatic height of the moist column, by the model of the code's pressure2height *)
Definition moist_height (vmr p T : list R) : list R := pressure2height p (zip2 virtual_temperature vmr T).
Definition moist_density (x p T : R) : R := density p (virtual_temperature x T) c_gas_constant_dry_air.

(* per-layer quantities: a function / a predicate of the two levels (x0, p0, T0), (x1, p1, T1) that bound a layer *)
Fixpoint layer_map {A} (f : R -> R -> R -> R -> R -> R -> A) (x p T : list R) : list A :=
  match x, p, T with
  | x0 :: ((x1 :: _) as x'), p0 :: ((p1 :: _) as p'), T0 :: ((T1 :: _) as T') => f x0 p0 T0 x1 p1 T1 :: layer_map f x' p' T'
  | _, _, _ => []
  end.
Fixpoint layer_all (P : R -> R -> R -> R -> R -> R -> Prop) (x p T : list R) : Prop :=
  match x, p, T with
  | x0 :: ((x1 :: _) as x'), p0 :: ((p1 :: _) as p'), T0 :: ((T1 :: _) as T') => P x0 p0 T0 x1 p1 T1 /\ layer_all P x' p' T'
  | _, _, _ => True
  end.

(* the layer of the hydrostatic form, the layer defect of the general form, and the relative contrast of the layer *)
Definition layer_hydro (x0 p0 T0 x1 p1 T1 : R) : R :=
  (p0 - p1) * (vmr2specific_humidity x1 + vmr2specific_humidity x0) / 2 / c_earth_standard_gravity.
Definition layer_defect (x0 p0 T0 x1 p1 T1 : R) : R :=
  (p0 - p1) / (2 * c_earth_standard_gravity) * (vmr2specific_humidity x0 - vmr2specific_humidity x1) *
  ((moist_density x0 p0 T0 - moist_density x1 p1 T1) / (moist_density x0 p0 T0 + moist_density x1 p1 T1)).
Definition layer_contrast (x0 p0 T0 x1 p1 T1 : R) : R :=
  (p0 / p1 - 1) + (c_molar_mass_dry_air / c_molar_mass_water - 1) * Rabs (x0 - x1) + Rabs (T0 - T1) / T0.

(* profiles whose steps are controlled by the pressure step (Lipschitz in ln p, or in p on a bounded range) *)
Definition smooth_layer (Lx LT d : R) (x0 p0 T0 x1 p1 T1 : R) : Prop :=
  p0 / p1 - 1 <= d /\ Rabs (x0 - x1) <= Lx * (p0 / p1 - 1) /\ Rabs (T0 - T1) <= LT * (p0 / p1 - 1).
Definition forms_constant (Lx LT Tmin : R) : R := 1 + (c_molar_mass_dry_air / c_molar_mass_water - 1) * Lx + LT / Tmin.

(* witnesses used by the non-vacuity examples: a geometric pressure grid *)
Fixpoint geom (a r : R) (k : nat) : list R := match k with O => [a] | S k' => a :: geom (a / r) r k' end.
Definition witness_grid (n : nat) : list R := geom 100000 (1 + / INR (S n)) (S n).
