(* C03 -- the code AS IT WAS before the repairs 082daed (typhon/trees.py: four defects), 26612d6 and fdf1ba2
   (FileSet.match: period widening), as executable models with one switch per repaired defect.
   With every switch off the models are the models of the repaired code (lemmas asis_off_query, asis_off_point in Proofs/C03_asis.v).
   Nothing but definitions. *)
From Coq Require Import ZArith List Bool.
From Typhon Require Import Model.C03_tree Model.C03_match.
Import ListNotations.
Open Scope Z_scope.

Record flags := {
  f_colsort : bool;    (* np.sort(indexed_intervals, axis=0): every COLUMN sorted on its own *)
  f_anyzero : bool;    (* _build_tree: `if not intervals.any(): return None` *)
  f_spannone : bool;   (* _query: whole-span short cut `return []  # TODO: Return all intervals` *)
  f_ptself : bool      (* _query_point: recursion into `node` instead of node.left / node.right *)
}.
Definition flags_off : flags := {| f_colsort := false; f_anyzero := false; f_spannone := false; f_ptself := false |}.
Definition flags_before_082daed : flags := {| f_colsort := true; f_anyzero := true; f_spannone := true; f_ptself := true |}.

Fixpoint zip3 (a b c : list Z) : list ivl :=
  match a, b, c with
  | x :: a', y :: b', z :: c' => {| lo := x; hi := y; idx := z |} :: zip3 a' b' c'
  | _, _, _ => []
  end.
Definition sort_cols (l : list ivl) : list ivl := zip3 (sort_z (map lo l)) (sort_z (map hi l)) (sort_z (map idx l)).

Definition all_zero (l : list ivl) : bool := forallb (fun i => (lo i =? 0) && (hi i =? 0) && (idx i =? 0)) l.
Definition is_nil {A} (l : list A) : bool := match l with [] => true | _ => false end.
Definition is_leaf (t : tree) : bool := match t with Leaf => true | _ => false end.

Fixpoint build_asis (fl : flags) (fuel : nat) (l : list ivl) : tree :=
  match fuel with
  | O => Leaf
  | S f =>
    if (if f_anyzero fl then all_zero l else is_nil l) then Leaf else
      let c := center_of l in
      Node c
        (filter (fun i => (lo i <=? c) && (c <=? hi i)) l)
        (build_asis fl f (filter (fun i => hi i <? c) l))
        (build_asis fl f (filter (fun i => c <? lo i) l))
  end.

Definition mk_tree_asis (fl : flags) (ivs : list ivl) : tree :=
  build_asis fl (length ivs) (if f_colsort fl then sort_cols ivs else sort_lo ivs).

Definition query_asis (fl : flags) (ivs : list ivl) (q : Z * Z) : list Z :=
  if (fst q <=? tmin ivs) && (tmin ivs <=? snd q) && (fst q <=? tmax ivs) && (tmax ivs <=? snd q)
  then (if f_spannone fl then [] else map idx ivs)
  else tquery (mk_tree_asis fl ivs) q.

(* the point query with a recursion budget: None = the budget ran out (RecursionError) *)
Fixpoint tquery_pt_asis (self : bool) (fuel : nat) (t : tree) (p : Z) : option (list Z) :=
  match fuel with
  | O => None
  | S f =>
    match t with
    | Leaf => Some []
    | Node c ce l r =>
        let go (child : tree) := tquery_pt_asis self f (if self then t else child) p in
        match (if (p <? c) && negb (is_leaf l) then go l else Some []) with
        | None => None
        | Some a =>
          match (if (c <? p) && negb (is_leaf r) then go r else Some []) with
          | None => None
          | Some b => Some (map idx (filter (covers p) ce) ++ a ++ b)
          end
        end
    end
  end.

Definition query_pt_asis (fl : flags) (fuel : nat) (ivs : list ivl) (p : Z) : option (list Z) :=
  if negb ((tmin ivs <=? p) && (p <=? tmax ivs)) then Some []
  else tquery_pt_asis (f_ptself fl) fuel (mk_tree_asis fl ivs) p.

(* ---------- FileSet.match, period block ----------
   before 26612d6:   start = to_datetime(start) - max_interval ; end = to_datetime(end) + max_interval
   before fdf1ba2:   the same inside try / except OverflowError (clamping)
   in both, to_datetime(None) is NaT and NaT -+ timedelta stays NaT, on which find() fails. *)
Definition shift_asis (clamp : bool) (dmin dmax dflt : Z) (t : option Z) (d : Z) : err + option Z :=
  match t with
  | None => inr None                                   (* NaT *)
  | Some x =>
      match dt_add dmin dmax x d with
      | Some r => inr (Some r)
      | None => if clamp then inr (Some dflt) else inl OverflowError
      end
  end.

Definition match_full_asis (clamp : bool) (dmin dmax : Z) (mi start end_ : option Z) (prim sec : list (Z * Z)) : outcome :=
  match mi with
  | None => match_body dmin dmax mi start end_ prim sec
  | Some m =>
      match shift_asis clamp dmin dmax dmin start (- m) with
      | inl x => Raised x
      | inr s =>
          match shift_asis clamp dmin dmax dmax end_ m with
          | inl x => Raised x
          | inr e =>
              match s, e with
              | Some _, Some _ => match_body dmin dmax mi s e prim sec
              | _, _ => Raised NaTError
              end
          end
      end
  end.
