(* C04 -- executable model of Collocator.collocate (typhon/collocations/collocator.py, after
   fixes/C04_1..3):
     collocate 598-866, _to_original 868-872, _prepare_data 888-942, _get_common_time_period 945-975,
     _get_not_nans 978-979, _flat_to_main_coord 982-1053, _create_return 1055-1196,
     spatial_search_with_temporal_binning 1202-1270, _bin_pairs 1272-1280, _spatial_search_bin 1282-1295,
     spatial_search 1297-1326, _build_spatial_index / _spatial_is_cached 1328-1347,
     _choose_points_to_build_index 1349-1392, _temporal_check / _get_intervals 1398-1416.
   Nothing but definitions: the model must stay runnable when a proof breaks.

   External components are Section variables:
     P      a position (lat, lon), NaN-free;          D  the type of a distance
     near   "straight-line distance <= max_distance"  (GeoIndex.query with a correct tree: its result is,
            by Props/C06.v pairs_exact_any_perm, for every shuffler a permutation of the brute-force list
            used here -- the order of the pairs is not observable in any theorem of C04)
     dist   the distance GeoIndex.query reports next to a pair (Props/C06.v distances_aligned)
     ctest  Collocator._spatial_is_cached: (new points, points of the kept index) -> reuse?
            after fixes/C04_2 this is np.array_equal on lat and lon; before, np.allclose with broadcasting.
   Times are integers (nanoseconds, datetime64[ns]); max_interval is an integer number of nanoseconds. *)
From Coq Require Import ZArith List Bool Arith Lia.
From Typhon Require Import Model.C13_compact.
Import ListNotations.
Open Scope Z_scope.

(* ------------------------------------------------------------------ generic helpers *)
Section Sort.
  Context {A : Type} (key : A -> Z).
  (* xarray sortby = stable sort by the key *)
  Fixpoint insert (x : A) (l : list A) : list A :=
    match l with
    | [] => [x]
    | y :: t => if key y <? key x then y :: insert x t else x :: y :: t
    end.
  Definition isort (l : list A) : list A := fold_right insert [] l.
End Sort.

Definition zmin_l (l : list Z) : Z := match l with [] => 0 | x :: t => fold_right Z.min x t end.
Definition zmax_l (l : list Z) : Z := match l with [] => 0 | x :: t => fold_right Z.max x t end.
Definition isnil {A} (l : list A) : bool := match l with [] => true | _ => false end.
Definition indexed {A} (l : list A) : list (nat * A) := combine (seq 0 (length l)) l.

Section Collocate.
  Variable P : Type.
  Variable D : Type.
  Variable near : P -> P -> bool.
  Variable dist : P -> P -> D.
  Variable ctest : list P -> list P -> bool.

  (* a data point: the harness' `id` variable, its time, its position (None = NaN latitude or longitude) *)
  Record pt := mk_pt { pid : Z; ptime : Z; ppos : option P }.
  Definition d0 : pt := mk_pt 0 0 None.
  Definition has_pos (p : pt) : bool := match ppos p with Some _ => true | None => false end.

  (* the two layouts: time/lat/lon on one shared dimension, or time per scan line and lat/lon per
     (scan line, scan position) *)
  Definition line := (Z * list (Z * option P))%type.
  Inductive dataset := Flat (pts : list pt) | Grid (lines : list line).

  Definition line_pts (l : line) : list pt := map (fun c => mk_pt (fst c) (fst l) (snd c)) (snd l).
  (* _flat_to_main_coord: rename, resp. stack(collocation=(scnline, scnpos)) = row-major, time broadcast *)
  Definition points_of (d : dataset) : list pt :=
    match d with Flat l => l | Grid ls => flat_map line_pts ls end.
  (* the time variable (one entry per element of the main dimension) *)
  Definition times_of (d : dataset) : list Z :=
    match d with Flat l => map ptime l | Grid ls => map fst ls end.

  (* ---------------------------------------------------------------- configuration *)
  Record cfg := mk_cfg { mi : Z; wstart : Z; wend : Z }.            (* max_interval [ns], start, end *)
  (* tuning: bin width bin_factor*max_interval [ns], origin of the pandas bins, magnitude_factor, and the
     size threshold (1 000 000 in the code) above which the binned path is taken *)
  Record tune := mk_tune { bw : Z; borigin : Z; mfac : Z; thr : Z }.

  (* _get_common_time_period *)
  Definition common_start (c : cfg) (t1 t2 : list Z) : Z :=
    Z.max (wstart c) (Z.max (zmin_l t1 - mi c) (zmin_l t2 - mi c)).
  Definition common_end (c : cfg) (t1 t2 : list Z) : Z :=
    Z.min (wend c) (Z.min (zmax_l t1 + mi c) (zmax_l t2 + mi c)).
  Definition in_range (lo hi t : Z) : bool := (lo <=? t) && (t <=? hi).

  (* where(...).dropna, sortby, sel: elements of the main dimension inside the window, sorted by time *)
  Definition select (lo hi : Z) (d : dataset) : dataset :=
    match d with
    | Flat l => Flat (isort ptime (filter (fun p => in_range lo hi (ptime p)) l))
    | Grid ls => Grid (isort fst (filter (fun l => in_range lo hi (fst l)) ls))
    end.

  (* NaN filter: lat1 = lat[not_nans] ...; original_indices = arange(n)[not_nans] *)
  Definition poslist (l : list pt) : list P :=
    flat_map (fun p => match ppos p with Some x => [x] | None => [] end) l.
  Fixpoint orig_from (k : nat) (f : list pt) : list nat :=
    match f with
    | [] => []
    | p :: t => if has_pos p then k :: orig_from (S k) t else orig_from (S k) t
    end.
  Definition orig_of (f : list pt) : list nat := orig_from 0 f.

  (* ---------------------------------------------------------------- spatial_search *)
  Record state := mk_state { sidx : option (list P); swp : bool }.    (* self.index (its points), self.index_with_primary *)
  Definition init_state : state := mk_state None false.

  Definition cached (st : state) (L : list P) : bool :=
    match sidx st with Some ix => ctest L ix | None => false end.

  (* _choose_points_to_build_index *)
  Definition choose (mf : Z) (st : state) (L1 L2 : list P) : bool :=
    let n1 := Z.of_nat (length L1) in
    let n2 := Z.of_nat (length L2) in
    if n2 * mf <? n1 then true
    else if n1 * mf <? n2 then false
    else if swp st && cached st L1 then true
    else if negb (swp st) && cached st L2 then false
    else n2 <? n1.

  (* GeoIndex(B).query(Q, r): rows (build index, query index), with the distances *)
  Definition gquery (B Q : list P) : list (nat * nat * D) :=
    flat_map (fun jq =>
      flat_map (fun ib => if near (snd ib) (snd jq) then [(fst ib, fst jq, dist (snd ib) (snd jq))] else [])
               (indexed B)) (indexed Q).
  Definition swap3 (x : nat * nat * D) : nat * nat * D := (snd (fst x), fst (fst x), snd x).

  Definition spatial_search (mf : Z) (st : state) (L1 L2 : list P) : state * list (nat * nat * D) :=
    let wp := choose mf st L1 L2 in
    let B := if wp then L1 else L2 in
    let Q := if wp then L2 else L1 in
    (* _build_spatial_index: the kept index when the test accepts it, a new one otherwise *)
    let ix := match sidx st with Some i' => if ctest B i' then i' else B | None => B end in
    let res := gquery ix Q in
    (mk_state (Some ix) wp, if wp then res else map swap3 res).

  (* ---------------------------------------------------------------- temporal pre-binning *)
  Definition binof (w o t : Z) : Z := (t - o) / w.          (* pd.Grouper(freq=w): bin number of time t *)
  Definition edge (w o b : Z) : Z := o + b * w.             (* its label = left edge *)
  Definition bins_of (w o : Z) (ts : list Z) : list Z :=
    let b0 := binof w o (zmin_l ts) in
    let b1 := binof w o (zmax_l ts) in
    map (fun k => b0 + Z.of_nat k) (seq 0 (Z.to_nat (b1 - b0 + 1))).

  Definition shift3 (o1 o2 : nat) (x : nat * nat * D) : nat * nat * D :=
    ((o1 + fst (fst x))%nat, (o2 + snd (fst x))%nat, snd x).

  (* _bin_pairs + _spatial_search_bin for the bin b of A (sorted by time) against B (sorted by time) *)
  Definition bin_search (mf m w o : Z) (A B : list pt) (st : state) (b : Z) : state * list (nat * nat * D) :=
    let c1 := filter (fun p => binof w o (ptime p) =? b) A in
    let start := edge w o b in
    let lo := start - m in
    let hi := zmax_l (map ptime c1) + m in
    let off1 := length (filter (fun p => ptime p <? start) A) in        (* index.searchsorted(chunk1_start) *)
    let off2 := length (filter (fun p => ptime p <? lo) B) in           (* index.searchsorted(chunk2_start) *)
    let c2 := filter (fun p => in_range lo hi (ptime p)) B in           (* secondary.loc[chunk2_start:chunk2_end] *)
    if isnil c1 || isnil c2 then (st, [])
    else let r := spatial_search mf st (poslist c1) (poslist c2) in
         (fst r, map (shift3 off1 off2) (snd r)).

  Fixpoint fold_bins (f : state -> Z -> state * list (nat * nat * D)) (st : state) (bs : list Z)
    : state * list (nat * nat * D) :=
    match bs with
    | [] => (st, [])
    | b :: t => let r := f st b in
                let r' := fold_bins f (fst r) t in
                (fst r', snd r ++ snd r')
    end.

  Definition binned_search (mf m w o : Z) (st : state) (V1 V2 : list pt) : state * list (nat * nat * D) :=
    let swapped := (length V1 <? length V2)%nat in
    let A := if swapped then V2 else V1 in
    let B := if swapped then V1 else V2 in
    let r := fold_bins (bin_search mf m w o A B) st (bins_of w o (map ptime A)) in
    (fst r, if swapped then map swap3 (snd r) else snd r).

  (* ---------------------------------------------------------------- temporal check *)
  Definition sec : Z := 1000000000.
  (* _get_intervals: abs(t1 - t2).astype("timedelta64[s]")  -- whole seconds, truncated *)
  Definition interval_s (t1 t2 : Z) : Z := Z.abs (t1 - t2) / sec.
  (* intervals < max_interval *)
  Definition passes (m t1 t2 : Z) : bool := interval_s t1 t2 * sec <? m.

  (* ---------------------------------------------------------------- _create_return *)
  Record result := mk_res {
    r_prim : list pt; r_sec : list pt;          (* the stored points of both groups *)
    r_prow : list nat; r_srow : list nat;       (* Collocations/pairs[0], [1] *)
    r_int : list Z; r_dist : list D             (* Collocations/interval [s], Collocations/distance *)
  }.

  Definition create_return (f1 f2 v1 v2 : list pt) (o1 o2 : list nat) (ok : list (nat * nat * D)) : option result :=
    match ok with
    | [] => None
    | _ =>
      (* _to_original *)
      let rp := map (fun x => nth (fst (fst x)) o1 0%nat) ok in
      let rs := map (fun x => nth (snd (fst x)) o2 0%nat) ok in
      let cp := compact rp in
      let cs := compact rs in
      Some (mk_res (gather d0 (fst cp) f1) (gather d0 (fst cs) f2) (snd cp) (snd cs)
                   (map (fun x => interval_s (ptime (nth (fst (fst x)) v1 d0)) (ptime (nth (snd (fst x)) v2 d0))) ok)
                   (map snd ok))
    end.

  (* ---------------------------------------------------------------- collocate *)
  Definition collocate (tn : tune) (st : state) (c : cfg) (dp ds : dataset) : state * option result :=
    let lo := common_start c (times_of dp) (times_of ds) in
    let hi := common_end c (times_of dp) (times_of ds) in
    let sp := select lo hi dp in
    let ss := select lo hi ds in
    if isnil (times_of sp) || isnil (times_of ss) then (st, None)
    else
      let f1 := points_of sp in
      let f2 := points_of ss in
      let v1 := filter has_pos f1 in
      let v2 := filter has_pos f2 in
      let r := if thr tn <? Z.of_nat (length v1 * length v2)
               then binned_search (mfac tn) (mi c) (bw tn) (borigin tn) st v1 v2
               else spatial_search (mfac tn) st (poslist v1) (poslist v2) in
      if isnil (snd r) then (fst r, None)
      else
        let ok := filter (fun x => passes (mi c) (ptime (nth (fst (fst x)) v1 d0)) (ptime (nth (snd (fst x)) v2 d0)))
                         (snd r) in
        (fst r, create_return f1 f2 v1 v2 (orig_of f1) (orig_of f2) ok).

  (* a Collocator object with a history of earlier calls *)
  Definition call := (tune * cfg * dataset * dataset)%type.
  Definition do_call (st : state) (k : call) : state :=
    fst (collocate (fst (fst (fst k))) st (snd (fst (fst k))) (snd (fst k)) (snd k)).
  Definition after_history (h : list call) : state := fold_left do_call h init_state.

  (* ---------------------------------------------------------------- observation and specification *)
  (* the pairs of a result, identified by the original data they carry *)
  Definition ids (r : result) : list (Z * Z) :=
    combine (map pid (gather d0 (r_prow r) (r_prim r))) (map pid (gather d0 (r_srow r) (r_sec r))).
  Definition ids_opt (r : option result) : list (Z * Z) := match r with Some x => ids x | None => [] end.

  Definition nearp (p s : pt) : bool :=
    match ppos p, ppos s with Some a, Some b => near a b | _, _ => false end.
  Definition in_win (c : cfg) (p : pt) : bool := in_range (wstart c) (wend c) (ptime p).
  Definition collocated (c : cfg) (ps : pt * pt) : bool :=
    nearp (fst ps) (snd ps) && (Z.abs (ptime (fst ps) - ptime (snd ps)) <? mi c)
    && in_win c (fst ps) && in_win c (snd ps).
  (* brute force over all pairs of points *)
  Definition spec_pairs (c : cfg) (dp ds : dataset) : list (Z * Z) :=
    map (fun ps => (pid (fst ps), pid (snd ps)))
        (filter (collocated c) (list_prod (points_of dp) (points_of ds))).
  (* the same without materialising the product (used for large generated cases; equal by lemma) *)
  Definition collocated_lazy (c : cfg) (p s : pt) : bool :=
    if nearp p s then
      if Z.abs (ptime p - ptime s) <? mi c then if in_win c p then in_win c s else false else false
    else false.
  Definition spec_pairs_lean (c : cfg) (dp ds : dataset) : list (Z * Z) :=
    flat_map (fun p => map (fun s => (pid p, pid s)) (filter (collocated_lazy c p) (points_of ds)))
             (points_of dp).

  Definition set_eq {A} (a b : list A) : Prop := forall x, In x a <-> In x b.
  Definition whole_seconds (m : Z) : Prop := exists k, m = k * sec.
End Collocate.

Arguments mk_pt {P}. Arguments pid {P}. Arguments ptime {P}. Arguments ppos {P}.
Arguments Flat {P}. Arguments Grid {P}.
Arguments mk_state {P}. Arguments sidx {P}. Arguments swp {P}.
Arguments r_prim {P D}. Arguments r_sec {P D}. Arguments r_prow {P D}. Arguments r_srow {P D}.
Arguments r_int {P D}. Arguments r_dist {P D}.

(* ------------------------------------------------------------------ the stages of collocate by name
   (for the statements about each pair once, the stored values and the compaction; Proofs/C04_collocate.v
   collocate_checked shows that collocate is create_return of exactly these) *)
Section Stages.
  Variable P : Type.
  Variable D : Type.
  Variable near : P -> P -> bool.
  Variable dist : P -> P -> D.
  Variable ctest : list P -> list P -> bool.

  (* the selected, sorted and flattened points of both datasets (what _prepare_data returns) *)
  Definition selected_p (c : cfg) (dp ds : dataset P) : list (pt P) :=
    points_of P (select P (common_start c (times_of P dp) (times_of P ds)) (common_end c (times_of P dp) (times_of P ds)) dp).
  Definition selected_s (c : cfg) (dp ds : dataset P) : list (pt P) :=
    points_of P (select P (common_start c (times_of P dp) (times_of P ds)) (common_end c (times_of P dp) (times_of P ds)) ds).

  (* pairs[:, passed_temporal_check] with distances[passed_temporal_check]: rows (index into the NaN-free
     primary points, index into the NaN-free secondary points, distance); [] when nothing is selected *)
  Definition checked (tn : tune) (st : state P) (c : cfg) (dp ds : dataset P) : list (nat * nat * D) :=
    let lo := common_start c (times_of P dp) (times_of P ds) in
    let hi := common_end c (times_of P dp) (times_of P ds) in
    if isnil (times_of P (select P lo hi dp)) || isnil (times_of P (select P lo hi ds)) then []
    else
      let v1 := filter (has_pos P) (selected_p c dp ds) in
      let v2 := filter (has_pos P) (selected_s c dp ds) in
      let r := if thr tn <? Z.of_nat (length v1 * length v2)
               then binned_search P D near dist ctest (mfac tn) (mi c) (bw tn) (borigin tn) st v1 v2
               else spatial_search P D near dist ctest (mfac tn) st (poslist P v1) (poslist P v2) in
      filter (fun x => passes (mi c) (ptime (nth (fst (fst x)) v1 (d0 P))) (ptime (nth (snd (fst x)) v2 (d0 P)))) (snd r).

  (* the index pair of a row *)
  Definition ipair (x : nat * nat * D) : nat * nat := fst x.

  (* the argument `original_pairs` of _create_return (_to_original of the checked rows): index pairs into
     the selected points, NaN points counted *)
  Definition original_pairs (tn : tune) (st : state P) (c : cfg) (dp ds : dataset P) : list (nat * nat) :=
    map (fun x => (nth (fst (fst x)) (orig_of P (selected_p c dp ds)) 0%nat,
                   nth (snd (fst x)) (orig_of P (selected_s c dp ds)) 0%nat))
        (checked tn st c dp ds).

  (* the k-th pair of a result as the two stored points it names *)
  Definition pair_pts (r : result P D) : list (pt P * pt P) :=
    combine (gather (d0 P) (r_prow r) (r_prim r)) (gather (d0 P) (r_srow r) (r_sec r)).
  (* the distance of two points as the spatial index reports it (None: a NaN position) *)
  Definition pos_dist (p s : pt P) : option D :=
    match ppos p, ppos s with Some a, Some b => Some (dist a b) | _, _ => None end.
  (* the compact output in the form of Model/C13_compact.v *)
  Definition as_cds (r : result P D) : cds (pt P) (pt P) := mk_cds (r_prow r) (r_srow r) (r_prim r) (r_sec r).
End Stages.

(* ------------------------------------------------------------------ collocate on separate arrays
   The code does not carry rows (i, j, distance): it carries `pairs` (2 x n) and `distances` (n), later
   `intervals` (n), and keeps them aligned by applying the same operation to each: the row swap
   pairs[[0, 1]] = pairs[[1, 0]] touches the pairs only, the offsets are added per row, np.hstack is applied to
   the list of pairs and to the list of distances, the mask of the temporal check is applied three times
   (pairs[:, mask], intervals[mask], distances[mask]).  `collocate_a` mirrors exactly that; Props/C04.v
   arrays_agree: collocate_a = collocate. *)
Section Arrays.
  Variable P : Type.
  Variable D : Type.
  Variable near : P -> P -> bool.
  Variable dist : P -> P -> D.
  Variable ctest : list P -> list P -> bool.

  Record hits := mk_hits { h0 : list nat; h1 : list nat; hd : list D }.      (* pairs[0], pairs[1], distances *)
  Definition no_hits : hits := mk_hits [] [] [].                              (* self.no_pairs, self.no_distances *)
  Definition unzip3 (r : list (nat * nat * D)) : hits :=
    mk_hits (map (fun x => fst (fst x)) r) (map (fun x => snd (fst x)) r) (map snd r).

  (* GeoIndex(B).query(Q, r) -> pairs, distances *)
  Definition gquery_a (B Q : list P) : hits := unzip3 (gquery P D near dist B Q).
  Definition swap_rows (h : hits) : hits := mk_hits (h1 h) (h0 h) (hd h).    (* pairs[[0, 1]] = pairs[[1, 0]] *)

  Definition spatial_search_a (mf : Z) (st : state P) (L1 L2 : list P) : state P * hits :=
    let wp := choose P ctest mf st L1 L2 in
    let B := if wp then L1 else L2 in
    let Q := if wp then L2 else L1 in
    let ix := match sidx st with Some i' => if ctest B i' then i' else B | None => B end in
    let res := gquery_a ix Q in
    (mk_state (Some ix) wp, if wp then res else swap_rows res).

  (* pairs[0] += offset1; pairs[1] += offset2 *)
  Definition add_offsets (o1 o2 : nat) (h : hits) : hits := mk_hits (map (Nat.add o1) (h0 h)) (map (Nat.add o2) (h1 h)) (hd h).

  Definition bin_search_a (mf m w o : Z) (A B : list (pt P)) (st : state P) (b : Z) : state P * hits :=
    let c1 := filter (fun p => binof w o (ptime p) =? b) A in
    let start := edge w o b in
    let lo := start - m in
    let hi := zmax_l (map ptime c1) + m in
    let off1 := length (filter (fun p => ptime p <? start) A) in
    let off2 := length (filter (fun p => ptime p <? lo) B) in
    let c2 := filter (fun p => in_range lo hi (ptime p)) B in
    if isnil c1 || isnil c2 then (st, no_hits)
    else let r := spatial_search_a mf st (poslist P c1) (poslist P c2) in
         (fst r, add_offsets off1 off2 (snd r)).

  (* np.hstack(pairs_list), np.hstack(distances_list) *)
  Definition hstack (a b : hits) : hits := mk_hits (h0 a ++ h0 b) (h1 a ++ h1 b) (hd a ++ hd b).
  Fixpoint fold_bins_a (f : state P -> Z -> state P * hits) (st : state P) (bs : list Z) : state P * hits :=
    match bs with
    | [] => (st, no_hits)
    | b :: t => let r := f st b in
                let r' := fold_bins_a f (fst r) t in
                (fst r', hstack (snd r) (snd r'))
    end.

  Definition binned_search_a (mf m w o : Z) (st : state P) (V1 V2 : list (pt P)) : state P * hits :=
    let swapped := (length V1 <? length V2)%nat in
    let A := if swapped then V2 else V1 in
    let B := if swapped then V1 else V2 in
    let r := fold_bins_a (bin_search_a mf m w o A B) st (bins_of w o (map ptime A)) in
    (fst r, if swapped then swap_rows (snd r) else snd r).

  (* array[mask] *)
  Fixpoint compress {A} (mask : list bool) (l : list A) : list A :=
    match mask, l with
    | b :: m, x :: t => if b then x :: compress m t else compress m t
    | _, _ => []
    end.
  (* time1[pairs[0]] *)
  Definition take_times (v : list (pt P)) (idx : list nat) : list Z := map (fun i => ptime (nth i v (d0 P))) idx.
  (* _get_intervals(time1[pairs[0]], time2[pairs[1]]): element-wise, whole seconds *)
  Definition intervals_a (t1 t2 : list Z) : list Z := map (fun ab => interval_s (fst ab) (snd ab)) (combine t1 t2).

  (* _create_return(primary, secondary, original_pairs, intervals, distances) *)
  Definition create_return_a (f1 f2 : list (pt P)) (op0 op1 : list nat) (ints : list Z) (dists : list D) : option (result P D) :=
    match op0 with
    | [] => None
    | _ => let cp := compact op0 in
           let cs := compact op1 in
           Some (mk_res P D (gather (d0 P) (fst cp) f1) (gather (d0 P) (fst cs) f2) (snd cp) (snd cs) ints dists)
    end.

  Definition collocate_a (tn : tune) (st : state P) (c : cfg) (dp ds : dataset P) : state P * option (result P D) :=
    let lo := common_start c (times_of P dp) (times_of P ds) in
    let hi := common_end c (times_of P dp) (times_of P ds) in
    let sp := select P lo hi dp in
    let ss := select P lo hi ds in
    if isnil (times_of P sp) || isnil (times_of P ss) then (st, None)
    else
      let f1 := points_of P sp in
      let f2 := points_of P ss in
      let v1 := filter (has_pos P) f1 in
      let v2 := filter (has_pos P) f2 in
      let o1 := orig_of P f1 in
      let o2 := orig_of P f2 in
      let r := if thr tn <? Z.of_nat (length v1 * length v2)
               then binned_search_a (mfac tn) (mi c) (bw tn) (borigin tn) st v1 v2
               else spatial_search_a (mfac tn) st (poslist P v1) (poslist P v2) in
      let pairs := snd r in
      if isnil (h0 pairs) then (fst r, None)                                   (* if not pairs.size *)
      else
        let ints := intervals_a (take_times v1 (h0 pairs)) (take_times v2 (h1 pairs)) in
        let mask := map (fun iv => iv * sec <? mi c) ints in                   (* intervals < max_interval *)
        (fst r, create_return_a f1 f2
                  (map (fun i => nth i o1 0%nat) (compress mask (h0 pairs)))   (* _to_original(pairs[:, mask]) *)
                  (map (fun j => nth j o2 0%nat) (compress mask (h1 pairs)))
                  (compress mask ints) (compress mask (hd pairs))).
End Arrays.

Arguments h0 {D}. Arguments h1 {D}. Arguments hd {D}.


(* ------------------------------------------------------------------ the code as found (before fixes/C04_2)
   _spatial_is_cached = np.allclose(lat, index.lat) & np.allclose(lon, index.lon): element-wise closeness
   (broadcasting is not modelled: equal lengths only) *)
Fixpoint allclose {P} (close : P -> P -> bool) (a b : list P) : bool :=
  match a, b with
  | [], [] => true
  | x :: s, y :: t => close x y && allclose close s t
  | _, _ => false
  end.

(* the code after fixes/C04_2: np.array_equal *)
Fixpoint list_eqb {P} (eqb : P -> P -> bool) (a b : list P) : bool :=
  match a, b with
  | [] , [] => true
  | x :: s, y :: t => eqb x y && list_eqb eqb s t
  | _, _ => false
  end.

(* ------------------------------------------------------------------ evaluation of generated cases
   (tools/props/c04.py through vm_compute).  A position is ((lat key, lon key), (x, y, z)): the keys are the
   integers the harness derived the doubles from (equal keys <-> equal doubles), (x, y, z) the long-double
   cartesian coordinates in a length unit u fixed per history, shifted to be positive, as primitive 63-bit
   integers.  The harness chooses u such that radius/u < 2^30: after the three coordinate tests the sum of
   squares stays below 2^63, so the primitive arithmetic is exact. *)
From Coq Require Uint63.
Definition zi (x : PrimInt63.int) : Z := Uint63.to_Z x.
Definition OFF : Z := 1000000000000000000.
Definition zo (x : PrimInt63.int) : Z := Uint63.to_Z x - OFF.     (* signed numbers are sent with an offset *)

Definition cpos := ((Z * Z) * (PrimInt63.int * PrimInt63.int * PrimInt63.int))%type.
Definition adiff (a b : PrimInt63.int) : PrimInt63.int :=
  if PrimInt63.leb a b then PrimInt63.sub b a else PrimInt63.sub a b.
Definition sq (a : PrimInt63.int) : PrimInt63.int := PrimInt63.mul a a.
Definition chord2i (a b : cpos) : PrimInt63.int :=
  let '(x1, y1, z1) := snd a in let '(x2, y2, z2) := snd b in
  PrimInt63.add (PrimInt63.add (sq (adiff x1 x2)) (sq (adiff y1 y2))) (sq (adiff z1 z2)).
(* rm = an upper bound of the radius in units (< 2^30), r2 = radius^2 in units^2 *)
Definition near_c (rm r2 : PrimInt63.int) (a b : cpos) : bool :=
  let '(x1, y1, z1) := snd a in let '(x2, y2, z2) := snd b in
  if PrimInt63.leb (adiff x1 x2) rm then
    if PrimInt63.leb (adiff y1 y2) rm then
      if PrimInt63.leb (adiff z1 z2) rm then PrimInt63.leb (chord2i a b) r2 else false
    else false
  else false.
Definition dist_c (a b : cpos) : Z := Uint63.to_Z (chord2i a b).
Definition key_eqb (a b : cpos) : bool := (fst (fst a) =? fst (fst b)) && (snd (fst a) =? snd (fst b)).
Definition ctest_c : list cpos -> list cpos -> bool := list_eqb key_eqb.

Definition pp (i t la lo x y z : PrimInt63.int) : pt cpos :=
  mk_pt (zi i) (zi t) (Some ((zo la, zo lo), (x, y, z))).
Definition pn (i t : PrimInt63.int) : pt cpos := mk_pt (zi i) (zi t) None.
Definition gp (i la lo x y z : PrimInt63.int) : Z * option cpos := (zi i, Some ((zo la, zo lo), (x, y, z))).
Definition gn (i : PrimInt63.int) : Z * option cpos := (zi i, None).
Definition gl (t : PrimInt63.int) (cells : list (Z * option cpos)) : line cpos := (zi t, cells).

(* one call: radius bound and squared radius [units], tuning, configuration, data *)
Definition ecall := (PrimInt63.int * PrimInt63.int * tune * cfg * dataset cpos * dataset cpos)%type.
Definition mk_call (rm r2 : PrimInt63.int) (w o mf th m ws we : Z) (dp ds : dataset cpos) : ecall :=
  (rm, r2, mk_tune w o mf th, mk_cfg m ws we, dp, ds).

Definition show_res (r : option (result cpos Z)) : list (Z * Z * Z * Z) :=
  match r with
  | None => []
  | Some x => combine (combine (ids cpos Z x) (r_int x)) (r_dist x)
  end.

(* a history of calls on one Collocator: per call (model result as (idp, ids, interval, chord^2), spec ids) *)
Fixpoint run_calls (st : state cpos) (cs : list ecall) : list (list (Z * Z * Z * Z) * list (Z * Z)) :=
  match cs with
  | [] => []
  | (rm, r2, tn, c, dp, ds) :: t =>
      (* the array form of the code; = collocate by Props/C04.v arrays_agree *)
      let r := collocate_a cpos Z (near_c rm r2) dist_c ctest_c tn st c dp ds in
      (show_res (snd r), spec_pairs_lean cpos (near_c rm r2) c dp ds) :: run_calls (fst r) t
  end.
Definition run_history (cs : list ecall) := run_calls (init_state cpos) cs.

(* ------------------------------------------------------------------ certified checker of what the implementation
   returned (tools/props/c04.py): Collocations/pairs rows and the `id` variable of both groups.
   -> (the compact format is valid: rows in range and every stored point used [Model/C13_compact.v compact_okb],
       every original point is stored once, the id pairs the rows name).
   Props/C04.v checker_accepts_model: every output of the model passes, with its own id pairs. *)
Fixpoint nodupZ (l : list Z) : bool :=
  match l with [] => true | x :: t => negb (existsb (Z.eqb x) t) && nodupZ t end.
Definition check_output (prow srow pids sids : list Z) : bool * bool * list (Z * Z) :=
  let d := mk_cds (ns prow) (ns srow) pids sids in
  (compact_okb d, nodupZ pids && nodupZ sids, expand 0 0 d).
