(* C04 -- executable model of Collocator.collocate (typhon/collocations/collocator.py, after
   fixes/C04_1..3):
     collocate 598-866, _to_original 868-872, _prepare_data 888-942, _get_common_time_period 945-975,
     _get_not_nans 978-979, _flat_to_main_coord 982-1053, _create_return 1055-1196,
     spatial_search_with_temporal_binning 1202-1270, _bin_pairs 1272-1280, _spatial_search_bin 1282-1295,
     spatial_search 1297-1326, _build_spatial_index / _spatial_is_cached 1328-1347,
     _choose_points_to_build_index 1349-1392, _temporal_check / _get_intervals 1398-1416.
   Nothing but definitions: the model must stay runnable when a proof breaks.

   External components are Section variables:
     P      a position (lat, lon), NaN-free;          D  the type of a distance
     near   "straight-line distance <= max_distance"  (GeoIndex.query with a correct tree: its result is,
            by Props/C06.v pairs_exact_any_perm, for every shuffler a permutation of the brute-force list
            used here -- the order of the pairs is not observable in any theorem of C04)
     dist   the distance GeoIndex.query reports next to a pair (Props/C06.v distances_aligned)
     ctest  Collocator._spatial_is_cached: (new points, points of the kept index) -> reuse?
            after fixes/C04_2 this is np.array_equal on lat and lon; before, np.allclose with broadcasting.
   Times are integers (nanoseconds, datetime64[ns]); max_interval is an integer number of nanoseconds. *)
From Coq Require Import ZArith List Bool Arith Lia.
From Typhon Require Import Model.C13_compact.
Import ListNotations.
Open Scope Z_scope.

(* ------------------------------------------------------------------ generic helpers *)
Section Sort.
  Context {A : Type} (key : A -> Z).
  (* xarray sortby = stable sort by the key *)
  Fixpoint insert (x : A) (l : list A) : list A :=
    match l with
    | [] => [x]
    | y :: t => if key y <? key x then y :: insert x t else x :: y :: t
    end.
  Definition isort (l : list A) : list A := fold_right insert [] l.
End Sort.

Definition zmin_l (l : list Z) : Z := match l with [] => 0 | x :: t => fold_right Z.min x t end.
Definition zmax_l (l : list Z) : Z := match l with [] => 0 | x :: t => fold_right Z.max x t end.
Definition isnil {A} (l : list A) : bool := match l with [] => true | _ => false end.
Definition indexed {A} (l : list A) : list (nat * A) := combine (seq 0 (length l)) l.

Section Collocate.
  Variable P : Type.
  Variable D : Type.
  Variable near : P -> P -> bool.
  Variable dist : P -> P -> D.
  Variable ctest : list P -> list P -> bool.

  (* a data point: the harness' `id` variable, its time, its position (None = NaN latitude or longitude) *)
  Record pt := mk_pt { pid : Z; ptime : Z; ppos : option P }.
  Definition d0 : pt := mk_pt 0 0 None.
  Definition has_pos (p : pt) : bool := match ppos p with Some _ => true | None => false end.

  (* the two layouts: time/lat/lon on one shared dimension, or time per scan line and lat/lon per
     (scan line, scan position) *)
  Definition line := (Z * list (Z * option P))%type.
  Inductive dataset := Flat (pts : list pt) | Grid (lines : list line).

  Definition line_pts (l : line) : list pt := map (fun c => mk_pt (fst c) (fst l) (snd c)) (snd l).
  (* _flat_to_main_coord: rename, resp. stack(collocation=(scnline, scnpos)) = row-major, time broadcast *)
  Definition points_of (d : dataset) : list pt :=
    match d with Flat l => l | Grid ls => flat_map line_pts ls end.
  (* the time variable (one entry per element of the main dimension) *)
  Definition times_of (d : dataset) : list Z :=
    match d with Flat l => map ptime l | Grid ls => map fst ls end.

  (* ---------------------------------------------------------------- configuration *)
  Record cfg := mk_cfg { mi : Z; wstart : Z; wend : Z }.            (* max_interval [ns], start, end *)
  (* tuning: bin width bin_factor*max_interval [ns], origin of the pandas bins, magnitude_factor, and the
     size threshold (1 000 000 in the code) above which the binned path is taken *)
  Record tune := mk_tune { bw : Z; borigin : Z; mfac : Z; thr : Z }.

  (* _get_common_time_period *)
  Definition common_start (c : cfg) (t1 t2 : list Z) : Z :=
    Z.max (wstart c) (Z.max (zmin_l t1 - mi c) (zmin_l t2 - mi c)).
  Definition common_end (c : cfg) (t1 t2 : list Z) : Z :=
    Z.min (wend c) (Z.min (zmax_l t1 + mi c) (zmax_l t2 + mi c)).
  Definition in_range (lo hi t : Z) : bool := (lo <=? t) && (t <=? hi).

  (* where(...).dropna, sortby, sel: elements of the main dimension inside the window, sorted by time *)
  Definition select (lo hi : Z) (d : dataset) : dataset :=
    match d with
    | Flat l => Flat (isort ptime (filter (fun p => in_range lo hi (ptime p)) l))
    | Grid ls => Grid (isort fst (filter (fun l => in_range lo hi (fst l)) ls))
    end.

  (* NaN filter: lat1 = lat[not_nans] ...; original_indices = arange(n)[not_nans] *)
  Definition poslist (l : list pt) : list P :=
    flat_map (fun p => match ppos p with Some x => [x] | None => [] end) l.
  Fixpoint orig_from (k : nat) (f : list pt) : list nat :=
    match f with
    | [] => []
    | p :: t => if has_pos p then k :: orig_from (S k) t else orig_from (S k) t
    end.
  Definition orig_of (f : list pt) : list nat := orig_from 0 f.

  (* ---------------------------------------------------------------- spatial_search *)
  Record state := mk_state { sidx : option (list P); swp : bool }.    (* self.index (its points), self.index_with_primary *)
  Definition init_state : state := mk_state None false.

  Definition cached (st : state) (L : list P) : bool :=
    match sidx st with Some ix => ctest L ix | None => false end.

  (* _choose_points_to_build_index *)
  Definition choose (mf : Z) (st : state) (L1 L2 : list P) : bool :=
    let n1 := Z.of_nat (length L1) in
    let n2 := Z.of_nat (length L2) in
    if n2 * mf <? n1 then true
    else if n1 * mf <? n2 then false
    else if swp st && cached st L1 then true
    else if negb (swp st) && cached st L2 then false
    else n2 <? n1.

  (* GeoIndex(B).query(Q, r): rows (build index, query index), with the distances *)
  Definition gquery (B Q : list P) : list (nat * nat * D) :=
    flat_map (fun jq =>
      flat_map (fun ib => if near (snd ib) (snd jq) then [(fst ib, fst jq, dist (snd ib) (snd jq))] else [])
               (indexed B)) (indexed Q).
  Definition swap3 (x : nat * nat * D) : nat * nat * D := (snd (fst x), fst (fst x), snd x).

  Definition spatial_search (mf : Z) (st : state) (L1 L2 : list P) : state * list (nat * nat * D) :=
    let wp := choose mf st L1 L2 in
    let B := if wp then L1 else L2 in
    let Q := if wp then L2 else L1 in
    (* _build_spatial_index: the kept index when the test accepts it, a new one otherwise *)
    let ix := match sidx st with Some i' => if ctest B i' then i' else B | None => B end in
    let res := gquery ix Q in
    (mk_state (Some ix) wp, if wp then res else map swap3 res).

  (* ---------------------------------------------------------------- temporal pre-binning *)
  Definition binof (w o t : Z) : Z := (t - o) / w.          (* pd.Grouper(freq=w): bin number of time t *)
  Definition edge (w o b : Z) : Z := o + b * w.             (* its label = left edge *)
  Definition bins_of (w o : Z) (ts : list Z) : list Z :=
    let b0 := binof w o (zmin_l ts) in
    let b1 := binof w o (zmax_l ts) in
    map (fun k => b0 + Z.of_nat k) (seq 0 (Z.to_nat (b1 - b0 + 1))).

  Definition shift3 (o1 o2 : nat) (x : nat * nat * D) : nat * nat * D :=
    ((o1 + fst (fst x))%nat, (o2 + snd (fst x))%nat, snd x).

  (* _bin_pairs + _spatial_search_bin for the bin b of A (sorted by time) against B (sorted by time) *)
  Definition bin_search (mf m w o : Z) (A B : list pt) (st : state) (b : Z) : state * list (nat * nat * D) :=
    let c1 := filter (fun p => binof w o (ptime p) =? b) A in
    let start := edge w o b in
    let lo := start - m in
    let hi := zmax_l (map ptime c1) + m in
    let off1 := length (filter (fun p => ptime p <? start) A) in        (* index.searchsorted(chunk1_start) *)
    let off2 := length (filter (fun p => ptime p <? lo) B) in           (* index.searchsorted(chunk2_start) *)
    let c2 := filter (fun p => in_range lo hi (ptime p)) B in           (* secondary.loc[chunk2_start:chunk2_end] *)
    if isnil c1 || isnil c2 then (st, [])
    else let r := spatial_search mf st (poslist c1) (poslist c2) in
         (fst r, map (shift3 off1 off2) (snd r)).

  Fixpoint fold_bins (f : state -> Z -> state * list (nat * nat * D)) (st : state) (bs : list Z)
    : state * list (nat * nat * D) :=
    match bs with
    | [] => (st, [])
    | b :: t => let r := f st b in
                let r' := fold_bins f (fst r) t in
                (fst r', snd r ++ snd r')
    end.

  Definition binned_search (mf m w o : Z) (st : state) (V1 V2 : list pt) : state * list (nat * nat * D) :=
    let swapped := (length V1 <? length V2)%nat in
    let A := if swapped then V2 else V1 in
    let B := if swapped then V1 else V2 in
    let r := fold_bins (bin_search mf m w o A B) st (bins_of w o (map ptime A)) in
    (fst r, if swapped then map swap3 (snd r) else snd r).

  (* ---------------------------------------------------------------- temporal check *)
  Definition sec : Z := 1000000000.
  (* _get_intervals: abs(t1 - t2).astype("timedelta64[s]")  -- whole seconds, truncated *)
  Definition interval_s (t1 t2 : Z) : Z := Z.abs (t1 - t2) / sec.
  (* intervals < max_interval *)
  Definition passes (m t1 t2 : Z) : bool := interval_s t1 t2 * sec <? m.

  (* ---------------------------------------------------------------- _create_return *)
  Record result := mk_res {
    r_prim : list pt; r_sec : list pt;          (* the stored points of both groups *)
    r_prow : list nat; r_srow : list nat;       (* Collocations/pairs[0], [1] *)
    r_int : list Z; r_dist : list D             (* Collocations/interval [s], Collocations/distance *)
  }.

  Definition create_return (f1 f2 v1 v2 : list pt) (o1 o2 : list nat) (ok : list (nat * nat * D)) : option result :=
    match ok with
    | [] => None
    | _ =>
      (* _to_original *)
      let rp := map (fun x => nth (fst (fst x)) o1 0%nat) ok in
      let rs := map (fun x => nth (snd (fst x)) o2 0%nat) ok in
      let cp := compact rp in
      let cs := compact rs in
      Some (mk_res (gather d0 (fst cp) f1) (gather d0 (fst cs) f2) (snd cp) (snd cs)
                   (map (fun x => interval_s (ptime (nth (fst (fst x)) v1 d0)) (ptime (nth (snd (fst x)) v2 d0))) ok)
                   (map snd ok))
    end.

  (* ---------------------------------------------------------------- collocate *)
  Definition collocate (tn : tune) (st : state) (c : cfg) (dp ds : dataset) : state * option result :=
    let lo := common_start c (times_of dp) (times_of ds) in
    let hi := common_end c (times_of dp) (times_of ds) in
    let sp := select lo hi dp in
    let ss := select lo hi ds in
    if isnil (times_of sp) || isnil (times_of ss) then (st, None)
    else
      let f1 := points_of sp in
      let f2 := points_of ss in
      let v1 := filter has_pos f1 in
      let v2 := filter has_pos f2 in
      let r := if thr tn <? Z.of_nat (length v1 * length v2)
               then binned_search (mfac tn) (mi c) (bw tn) (borigin tn) st v1 v2
               else spatial_search (mfac tn) st (poslist v1) (poslist v2) in
      if isnil (snd r) then (fst r, None)
      else
        let ok := filter (fun x => passes (mi c) (ptime (nth (fst (fst x)) v1 d0)) (ptime (nth (snd (fst x)) v2 d0)))
                         (snd r) in
        (fst r, create_return f1 f2 v1 v2 (orig_of f1) (orig_of f2) ok).

  (* a Collocator object with a history of earlier calls *)
  Definition call := (tune * cfg * dataset * dataset)%type.
  Definition do_call (st : state) (k : call) : state :=
    fst (collocate (fst (fst (fst k))) st (snd (fst (fst k))) (snd (fst k)) (snd k)).
  Definition after_history (h : list call) : state := fold_left do_call h init_state.

  (* ---------------------------------------------------------------- observation and specification *)
  (* the pairs of a result, identified by the original data they carry *)
  Definition ids (r : result) : list (Z * Z) :=
    combine (map pid (gather d0 (r_prow r) (r_prim r))) (map pid (gather d0 (r_srow r) (r_sec r))).
  Definition ids_opt (r : option result) : list (Z * Z) := match r with Some x => ids x | None => [] end.

  Definition nearp (p s : pt) : bool :=
    match ppos p, ppos s with Some a, Some b => near a b | _, _ => false end.
  Definition in_win (c : cfg) (p : pt) : bool := in_range (wstart c) (wend c) (ptime p).
  Definition collocated (c : cfg) (ps : pt * pt) : bool :=
    nearp (fst ps) (snd ps) && (Z.abs (ptime (fst ps) - ptime (snd ps)) <? mi c)
    && in_win c (fst ps) && in_win c (snd ps).
  (* brute force over all pairs of points *)
  Definition spec_pairs (c : cfg) (dp ds : dataset) : list (Z * Z) :=
    map (fun ps => (pid (fst ps), pid (snd ps)))
        (filter (collocated c) (list_prod (points_of dp) (points_of ds))).
  (* the same without materialising the product (used for large generated cases; equal by lemma) *)
  Definition collocated_lazy (c : cfg) (p s : pt) : bool :=
    if nearp p s then
      if Z.abs (ptime p - ptime s) <? mi c then if in_win c p then in_win c s else false else false
    else false.
  Definition spec_pairs_lean (c : cfg) (dp ds : dataset) : list (Z * Z) :=
    flat_map (fun p => map (fun s => (pid p, pid s)) (filter (collocated_lazy c p) (points_of ds)))
             (points_of dp).

  Definition set_eq {A} (a b : list A) : Prop := forall x, In x a <-> In x b.
  Definition whole_seconds (m : Z) : Prop := exists k, m = k * sec.
End Collocate.

Arguments mk_pt {P}. Arguments pid {P}. Arguments ptime {P}. Arguments ppos {P}.
Arguments Flat {P}. Arguments Grid {P}.
Arguments mk_state {P}. Arguments sidx {P}. Arguments swp {P}.
Arguments r_prim {P D}. Arguments r_sec {P D}. Arguments r_prow {P D}. Arguments r_srow {P D}.
Arguments r_int {P D}. Arguments r_dist {P D}.

(* ------------------------------------------------------------------ the code as found (before fixes/C04_2)
   _spatial_is_cached = np.allclose(lat, index.lat) & np.allclose(lon, index.lon): element-wise closeness
   (broadcasting is not modelled: equal lengths only) *)
Fixpoint allclose {P} (close : P -> P -> bool) (a b : list P) : bool :=
  match a, b with
  | [], [] => true
  | x :: s, y :: t => close x y && allclose close s t
  | _, _ => false
  end.

(* the code after fixes/C04_2: np.array_equal *)
Fixpoint list_eqb {P} (eqb : P -> P -> bool) (a b : list P) : bool :=
  match a, b with
  | [] , [] => true
  | x :: s, y :: t => eqb x y && list_eqb eqb s t
  | _, _ => false
  end.

(* ------------------------------------------------------------------ evaluation of generated cases
   (tools/props/c04.py through vm_compute).  A position is ((lat key, lon key), (x, y, z)): the keys are the
   integers the harness derived the doubles from (equal keys <-> equal doubles), (x, y, z) the long-double
   cartesian coordinates in a length unit u fixed per history, shifted to be positive, as primitive 63-bit
   integers.  The harness chooses u such that radius/u < 2^30: after the three coordinate tests the sum of
   squares stays below 2^63, so the primitive arithmetic is exact. *)
From Coq Require Uint63.
Definition zi (x : PrimInt63.int) : Z := Uint63.to_Z x.
Definition OFF : Z := 1000000000000000000.
Definition zo (x : PrimInt63.int) : Z := Uint63.to_Z x - OFF.     (* signed numbers are sent with an offset *)

Definition cpos := ((Z * Z) * (PrimInt63.int * PrimInt63.int * PrimInt63.int))%type.
Definition adiff (a b : PrimInt63.int) : PrimInt63.int :=
  if PrimInt63.leb a b then PrimInt63.sub b a else PrimInt63.sub a b.
Definition sq (a : PrimInt63.int) : PrimInt63.int := PrimInt63.mul a a.
Definition chord2i (a b : cpos) : PrimInt63.int :=
  let '(x1, y1, z1) := snd a in let '(x2, y2, z2) := snd b in
  PrimInt63.add (PrimInt63.add (sq (adiff x1 x2)) (sq (adiff y1 y2))) (sq (adiff z1 z2)).
(* rm = an upper bound of the radius in units (< 2^30), r2 = radius^2 in units^2 *)
Definition near_c (rm r2 : PrimInt63.int) (a b : cpos) : bool :=
  let '(x1, y1, z1) := snd a in let '(x2, y2, z2) := snd b in
  if PrimInt63.leb (adiff x1 x2) rm then
    if PrimInt63.leb (adiff y1 y2) rm then
      if PrimInt63.leb (adiff z1 z2) rm then PrimInt63.leb (chord2i a b) r2 else false
    else false
  else false.
Definition dist_c (a b : cpos) : Z := Uint63.to_Z (chord2i a b).
Definition key_eqb (a b : cpos) : bool := (fst (fst a) =? fst (fst b)) && (snd (fst a) =? snd (fst b)).
Definition ctest_c : list cpos -> list cpos -> bool := list_eqb key_eqb.

Definition pp (i t la lo x y z : PrimInt63.int) : pt cpos :=
  mk_pt (zi i) (zi t) (Some ((zo la, zo lo), (x, y, z))).
Definition pn (i t : PrimInt63.int) : pt cpos := mk_pt (zi i) (zi t) None.
Definition gp (i la lo x y z : PrimInt63.int) : Z * option cpos := (zi i, Some ((zo la, zo lo), (x, y, z))).
Definition gn (i : PrimInt63.int) : Z * option cpos := (zi i, None).
Definition gl (t : PrimInt63.int) (cells : list (Z * option cpos)) : line cpos := (zi t, cells).

(* one call: radius bound and squared radius [units], tuning, configuration, data *)
Definition ecall := (PrimInt63.int * PrimInt63.int * tune * cfg * dataset cpos * dataset cpos)%type.
Definition mk_call (rm r2 : PrimInt63.int) (w o mf th m ws we : Z) (dp ds : dataset cpos) : ecall :=
  (rm, r2, mk_tune w o mf th, mk_cfg m ws we, dp, ds).

Definition show_res (r : option (result cpos Z)) : list (Z * Z * Z * Z) :=
  match r with
  | None => []
  | Some x => combine (combine (ids cpos Z x) (r_int x)) (r_dist x)
  end.

(* a history of calls on one Collocator: per call (model result as (idp, ids, interval, chord^2), spec ids) *)
Fixpoint run_calls (st : state cpos) (cs : list ecall) : list (list (Z * Z * Z * Z) * list (Z * Z)) :=
  match cs with
  | [] => []
  | (rm, r2, tn, c, dp, ds) :: t =>
      let r := collocate cpos Z (near_c rm r2) dist_c ctest_c tn st c dp ds in
      (show_res (snd r), spec_pairs_lean cpos (near_c rm r2) c dp ds) :: run_calls (fst r) t
  end.
Definition run_history (cs : list ecall) := run_calls (init_state cpos) cs.
