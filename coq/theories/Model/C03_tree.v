(* C03 -- executable model of typhon/trees.py:IntervalTree and of FileSet.match.
   Nothing but definitions: the model must stay runnable when a proof breaks. *)
From Coq Require Import ZArith List Bool.
Import ListNotations.
Open Scope Z_scope.

Record ivl := { lo : Z; hi : Z; idx : Z }.

Definition wf (i : ivl) : Prop := lo i <= hi i.
Definition wfb (i : ivl) : bool := lo i <=? hi i.

(* IntervalTree.interval_overlaps / interval_contains *)
Definition overlaps (q : Z * Z) (i : ivl) : bool := (lo i <=? snd q) && (fst q <=? hi i).
Definition covers (p : Z) (i : ivl) : bool := (lo i <=? p) && (p <=? hi i).

(* The specification a reader can check in a minute: brute force over all stored intervals. *)
Definition spec_query (ivs : list ivl) (q : Z * Z) : list Z := map idx (filter (overlaps q) ivs).
Definition spec_points (ivs : list ivl) (p : Z) : list Z := map idx (filter (covers p) ivs).

(* --- rows sorted by their left end (stable insertion sort), as
       indexed_intervals[np.argsort(indexed_intervals[:, 0], kind="stable")] --- *)
Fixpoint insert_lo (x : ivl) (l : list ivl) : list ivl :=
  match l with
  | [] => [x]
  | y :: t => if lo x <=? lo y then x :: y :: t else y :: insert_lo x t
  end.
Fixpoint sort_lo_rev (l : list ivl) : list ivl :=
  match l with [] => [] | x :: t => insert_lo x (sort_lo_rev t) end.
(* inserting from the back keeps equal keys in their original order *)
Definition sort_lo (l : list ivl) : list ivl := sort_lo_rev l.

Inductive tree := Leaf | Node (c : Z) (center : list ivl) (l r : tree).

(* _get_center: left end of the row at position int(n/2) *)
Definition center_of (l : list ivl) : Z := lo (nth (Nat.div2 (length l)) l {| lo := 0; hi := 0; idx := 0 |}).

(* _build_tree; fuel = number of intervals (never exhausted for well-formed intervals,
   lemma build_fuel_enough). *)
Fixpoint build (fuel : nat) (l : list ivl) : tree :=
  match fuel with
  | O => Leaf
  | S f =>
    match l with
    | [] => Leaf
    | _ =>
      let c := center_of l in
      Node c
        (filter (fun i => (lo i <=? c) && (c <=? hi i)) l)
        (build f (filter (fun i => hi i <? c) l))
        (build f (filter (fun i => c <? lo i) l))
    end
  end.

Fixpoint tquery (t : tree) (q : Z * Z) : list Z :=
  match t with
  | Leaf => []
  | Node c ce l r =>
      map idx (filter (overlaps q) ce)
      ++ (if fst q <=? c then tquery l q else [])
      ++ (if c <=? snd q then tquery r q else [])
  end.

Fixpoint tquery_pt (t : tree) (p : Z) : list Z :=
  match t with
  | Leaf => []
  | Node c ce l r =>
      map idx (filter (covers p) ce)
      ++ (if p <? c then tquery_pt l p else [])
      ++ (if c <? p then tquery_pt r p else [])
  end.

(* self.left / self.right : extreme values over all end points *)
Definition all_ends (ivs : list ivl) : list Z := flat_map (fun i => [lo i; hi i]) ivs.
Definition zmin_list (d : Z) (l : list Z) : Z := fold_right Z.min d l.
Definition zmax_list (d : Z) (l : list Z) : Z := fold_right Z.max d l.
Definition tmin (ivs : list ivl) : Z := match all_ends ivs with [] => 0 | x :: t => zmin_list x t end.
Definition tmax (ivs : list ivl) : Z := match all_ends ivs with [] => 0 | x :: t => zmax_list x t end.

Definition mk_tree (ivs : list ivl) : tree := build (length ivs) (sort_lo ivs).

(* IntervalTree.query for one query interval, including the whole-span short cut *)
Definition query (ivs : list ivl) (q : Z * Z) : list Z :=
  if (fst q <=? tmin ivs) && (tmin ivs <=? snd q) && (fst q <=? tmax ivs) && (tmax ivs <=? snd q)
  then map idx ivs
  else tquery (mk_tree ivs) q.

(* IntervalTree.query_points for one point, including the out-of-span short cut *)
Definition query_pt (ivs : list ivl) (p : Z) : list Z :=
  if negb ((tmin ivs <=? p) && (p <=? tmax ivs)) then [] else tquery_pt (mk_tree ivs) p.

(* `x in tree` *)
Definition contains_ivl (ivs : list ivl) (q : Z * Z) : bool :=
  match query ivs q with [] => false | _ => true end.
Definition contains_pt (ivs : list ivl) (p : Z) : bool :=
  match query_pt ivs p with [] => false | _ => true end.

(* numbering of the rows of the array handed to IntervalTree *)
Fixpoint number_from (k : Z) (l : list (Z * Z)) : list ivl :=
  match l with
  | [] => []
  | (a, b) :: t => {| lo := a; hi := b; idx := k |} :: number_from (k + 1) t
  end.
Definition number (l : list (Z * Z)) : list ivl := number_from 0 l.

(* ---------- FileSet.match on the two lists of coverages that find() delivered ----------
   times are integer seconds; secondaries are widened by mi on both sides; for each primary
   the partner indices are sorted; primaries without partner are dropped. *)
Fixpoint insert_z (x : Z) (l : list Z) : list Z :=
  match l with [] => [x] | y :: t => if x <=? y then x :: y :: t else y :: insert_z x t end.
Definition sort_z (l : list Z) : list Z := fold_right insert_z [] l.

Definition widen (mi : Z) (l : list (Z * Z)) : list (Z * Z) := map (fun '(a, b) => (a - mi, b + mi)) l.

Fixpoint match_from (k : Z) (prim : list (Z * Z)) (sec : list ivl) : list (Z * list Z) :=
  match prim with
  | [] => []
  | q :: t =>
      let r := sort_z (query sec q) in
      match r with
      | [] => match_from (k + 1) t sec
      | _ => (k, r) :: match_from (k + 1) t sec
      end
  end.
Definition match_model (mi : Z) (prim sec : list (Z * Z)) : list (Z * list Z) :=
  match_from 0 prim (number (widen mi sec)).

(* spec of match: brute force *)
Definition widened_overlap (mi : Z) (p s : Z * Z) : bool := (fst s - mi <=? snd p) && (fst p <=? snd s + mi).
Fixpoint partner_ids (k : Z) (mi : Z) (p : Z * Z) (sec : list (Z * Z)) : list Z :=
  match sec with
  | [] => []
  | s :: t => (if widened_overlap mi p s then [k] else []) ++ partner_ids (k + 1) mi p t
  end.
Fixpoint match_spec_from (k : Z) (mi : Z) (prim sec : list (Z * Z)) : list (Z * list Z) :=
  match prim with
  | [] => []
  | p :: t =>
      match partner_ids 0 mi p sec with
      | [] => match_spec_from (k + 1) mi t sec
      | r => (k, r) :: match_spec_from (k + 1) mi t sec
      end
  end.
Definition match_spec (mi : Z) (prim sec : list (Z * Z)) := match_spec_from 0 mi prim sec.

(* ---------- helpers for the correspondence (evaluated by vm_compute on generated cases) ---------- *)
Definition eqb_lz (a b : list Z) : bool :=
  (Nat.eqb (length a) (length b)) && forallb (fun '(x, y) => x =? y) (combine a b).

(* one IntervalTree case: stored intervals, query intervals, query points ->
   sorted index lists of the model and of the specification *)
Definition run_tree (ivs : list (Z * Z)) (qs : list (Z * Z)) (ps : list Z)
  : list (list Z) * list (list Z) * list bool * list bool :=
  let t := number ivs in
  (map (fun q => sort_z (query t q)) qs,
   map (fun p => sort_z (query_pt t p)) ps,
   map (contains_ivl t) qs,
   map (contains_pt t) ps).
Definition run_tree_spec (ivs : list (Z * Z)) (qs : list (Z * Z)) (ps : list Z)
  : list (list Z) * list (list Z) :=
  let t := number ivs in
  (map (fun q => sort_z (spec_query t q)) qs, map (fun p => sort_z (spec_points t p)) ps).
