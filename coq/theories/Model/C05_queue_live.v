(* C05 -- the result queue (Model/C05_queue.v): what is needed to STATE liveness and the exact role of the final
   drain.  Definitions only.
   * work0: every Put / Flush / Die / Get / Leave takes exactly one unit of it, the parent's polling (Snapshot /
     EmptyTrue) none: a run contains at most work0(init) = 3 #items + #workers + 1 actions that are not polling.
   * sched: one explicit scheduler (feeders, then the parent takes what is visible, then workers put / end, at last
     the parent's final passes); mu: the measure every scheduled action decreases; sched_trace: the run it produces.
   * exit_now: the state after the parent left its loop.
   * step_oneget: the parent of seeded change C05-a (`if results.empty(): continue` + ONE get per pass of the outer
     loop): after a Get the parent is back at the head of its loop. *)
From Coq Require Import ZArith List Bool Arith.
Import ListNotations.
From Typhon Require Import Model.C05_queue.


Definition wsum (f : wst -> nat) (l : list wst) : nat := fold_right (fun w n => (f w + n)%nat) 0%nat l.
Definition pend_total (l : list wst) : nat := wsum (fun w => length (pend w)) l.
Definition alive_count (l : list wst) : nat := wsum (fun w => if alive w then 1%nat else 0%nat) l.

(* work that is left: every Put / Flush / Die / Get / Leave takes exactly one unit, the parent's polling none *)
Definition work0 (s : qst) : nat :=
  (3 * pend_total (ws s) + 2 * in_flight (ws s) + alive_count (ws s) + length (vis s)
   + match pc s with Exited => 0 | _ => 1 end)%nat.
Definition is_poll (a : qact) : bool := match a with Snapshot | EmptyTrue => true | _ => false end.
Definition work_actions (tr : list qact) : nat := length (filter (fun a => negb (is_poll a)) tr).

(* the measure of the scheduler below *)
Definition vis_weight (s : qst) : nat :=
  match pc s with Head => (2 * length (vis s))%nat | _ => length (vis s) end.
Definition work (s : qst) : nat :=
  (4 * pend_total (ws s) + 3 * in_flight (ws s) + alive_count (ws s) + vis_weight s)%nat.
Definition parent_rank (s : qst) : nat :=
  match pc s, run_flag s with
  | Exited, _ => 0 | Head, false => 1 | Drain, false => 2 | Head, true => 3 | Drain, true => 4
  end%nat.
Definition mu (s : qst) : nat := (5 * work s + parent_rank s)%nat.

Fixpoint find_idx (f : wst -> bool) (l : list wst) : option nat :=
  match l with
  | [] => None
  | w :: r => if f w then Some 0%nat else option_map S (find_idx f r)
  end.
Definition has_infl (w : wst) : bool := match infl w with [] => false | _ => true end.
Definition has_pend (w : wst) : bool := match pend w with [] => false | _ => true end.

(* one fair scheduler: feeders first, then the parent takes what is visible, then the workers put / end,
   at last the parent's final passes *)
Definition sched (s : qst) : option qact :=
  match pc s with
  | Exited => None
  | _ =>
    match find_idx has_infl (ws s) with
    | Some k => Some (Flush k)
    | None =>
      match vis s with
      | _ :: _ => match pc s with Drain => Some Get | _ => Some Snapshot end
      | [] =>
        match find_idx has_pend (ws s) with
        | Some k => Some (Put k)
        | None =>
          match find_idx alive (ws s) with
          | Some k => Some (Die k)
          | None => match pc s with
                    | Drain => Some EmptyTrue
                    | _ => if run_flag s then Some Snapshot else Some Leave
                    end
          end
        end
      end
    end
  end.

Fixpoint sched_trace (cap fuel : nat) (s : qst) : list qact :=
  match fuel with
  | O => []
  | S f => match sched s with
           | Some a => match step cap s a with
                       | Some s' => a :: sched_trace cap f s'
                       | None => []
                       end
           | None => []
           end
  end.

(* the state after the parent left its loop *)
Definition exit_now (s : qst) : qst :=
  {| ws := ws s; vis := vis s; run_flag := false; pc := Exited; yielded := yielded s |}.

(* MUTANT (seeded change C05-a): one result per pass of the outer loop -- after a Get the parent re-computes the list
   of living workers instead of looking into the queue again *)
Definition step_oneget (cap : nat) (s : qst) (a : qact) : option qst :=
  match a, pc s, vis s with
  | Get, Drain, x :: r => Some {| ws := ws s; vis := r; run_flag := run_flag s; pc := Head;
                                  yielded := yielded s ++ [x] |}
  | _, _, _ => step cap s a
  end.
Fixpoint qrun_oneget (cap : nat) (s : qst) (tr : list qact) : option qst :=
  match tr with
  | [] => Some s
  | a :: r => match step_oneget cap s a with Some s' => qrun_oneget cap s' r | None => None end
  end.
