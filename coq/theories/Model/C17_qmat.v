(* C17 -- an EXECUTABLE exact-arithmetic reading of the matrix expressions of typhon/retrieval/oem:
   matrices are lists of rows over Q, every operation returns None on a shape error or a singular matrix
   (what numpy / scipy answer with an exception).  tools/props/c17.py regenerates the five functions as
   terms over these operations from the source of the tree under test on every run and evaluates them with
   vm_compute on small integer inputs; the implementation's doubles are compared with the exact rationals.
   The inverse is CERTIFIED at run time: `oinv` returns X only after checking X * M = I and M * X = I exactly, so the
   Gauss-Jordan elimination below does not have to be trusted.  Definitions only. *)
From Coq Require Import ZArith QArith List Bool.
Import ListNotations.
Open Scope Q_scope.

Definition row := list Q.
Definition mat := list row.

Definition qzero (q : Q) : bool := Z.eqb (Qnum q) 0.
Definition qeqb (a b : Q) : bool := Qeq_bool a b.

Fixpoint map2 {A B C} (f : A -> B -> C) (xs : list A) (ys : list B) : list C :=
  match xs, ys with x :: xs', y :: ys' => f x y :: map2 f xs' ys' | _, _ => [] end.

Definition ncols (M : mat) : nat := match M with [] => 0%nat | r :: _ => length r end.
Definition wf (M : mat) : bool :=
  negb (Nat.eqb (length M) 0) && negb (Nat.eqb (ncols M) 0) && forallb (fun r => Nat.eqb (length r) (ncols M)) M.

Definition dot (r s : row) : Q := Qred (fold_left Qplus (map2 Qmult r s) 0).

Fixpoint transpose_aux (n : nat) (M : mat) : mat :=
  match n with
  | O => []
  | S n' => map (fun r => hd 0 r) M :: transpose_aux n' (map (fun r => tl r) M)
  end.
Definition mtr (M : mat) : mat := transpose_aux (ncols M) M.

Definition mmul (A B : mat) : mat := let Bt := mtr B in map (fun r => map (fun c => dot r c) Bt) A.
Definition madd (A B : mat) : mat := map2 (map2 (fun x y => Qred (x + y))) A B.
Definition msub (A B : mat) : mat := map2 (map2 (fun x y => Qred (x - y))) A B.
Definition ident (n : nat) : mat :=
  map (fun i => map (fun j => if Nat.eqb i j then 1 else 0) (seq 0 n)) (seq 0 n).
Definition meqb (A B : mat) : bool :=
  Nat.eqb (length A) (length B) &&
  forallb (fun p => Nat.eqb (length (fst p)) (length (snd p)) &&
                    forallb (fun q => qeqb (fst q) (snd q)) (combine (fst p) (snd p))) (combine A B).

(* Gauss-Jordan on the augmented rows [M | I]; `top` holds the rows whose pivot is already fixed *)
Definition rscale (a : Q) (r : row) : row := map (fun x => Qred (a * x)) r.
Definition raxpy (a : Q) (p r : row) : row := map2 (fun x y => Qred (y - a * x)) p r.   (* r - a p *)

Fixpoint take_pivot (c : nat) (rows : list row) : option (row * list row) :=
  match rows with
  | [] => None
  | r :: rest =>
      if qzero (nth c r 0) then
        match take_pivot c rest with Some (p, others) => Some (p, r :: others) | None => None end
      else Some (r, rest)
  end.

Fixpoint gauss_jordan (fuel c : nat) (top rest : list row) : option (list row) :=
  match fuel with
  | O => Some top
  | S f =>
      match take_pivot c rest with
      | None => None
      | Some (p, others) =>
          let p' := rscale (Qinv (nth c p 0)) p in
          let elim := fun r => raxpy (nth c r 0) p' r in
          gauss_jordan f (S c) (map elim top ++ [p']) (map elim others)
      end
  end.

Definition minv_raw (M : mat) : option mat :=
  let n := length M in
  match gauss_jordan n 0 [] (map2 (fun r e => r ++ e) M (ident n)) with
  | Some rows => Some (map (fun r => skipn n r) rows)
  | None => None
  end.

(* ---- option-lifted operations: None = exception *)
Definition omat := option mat.
Definition olift (M : mat) : omat := if wf M then Some M else None.
Definition otr (A : omat) : omat := match A with Some a => Some (mtr a) | None => None end.
Definition omul (A B : omat) : omat :=
  match A, B with
  | Some a, Some b => if Nat.eqb (ncols a) (length b) then Some (mmul a b) else None
  | _, _ => None
  end.
Definition same_shape (a b : mat) : bool := Nat.eqb (length a) (length b) && Nat.eqb (ncols a) (ncols b).
Definition oadd (A B : omat) : omat :=
  match A, B with Some a, Some b => if same_shape a b then Some (madd a b) else None | _, _ => None end.
Definition osub (A B : omat) : omat :=
  match A, B with Some a, Some b => if same_shape a b then Some (msub a b) else None | _, _ => None end.
Definition oinv (A : omat) : omat :=
  match A with
  | Some a =>
      if Nat.eqb (length a) (ncols a) then
        match minv_raw a with
        | Some x => if meqb (mmul x a) (ident (length a)) && meqb (mmul a x) (ident (length a)) then Some x else None
        | None => None
        end
      else None
  | None => None
  end.

(* output: numerators and denominators *)
Definition show (A : omat) : option (list (list (Z * Z))) :=
  match A with
  | Some a => Some (map (map (fun q => let q' := Qred q in (Qnum q', Zpos (Qden q')))) a)
  | None => None
  end.
Definition of_Z (M : list (list Z)) : omat := olift (map (map inject_Z) M).
