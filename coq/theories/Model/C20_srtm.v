(* C20 -- executable model of typhon/topography.py (SRTM30), definitions only.

   Units.  A user rectangle is given by four rationals over one common positive denominator D:
           lat_min = rlat0/D, lon_min = rlon0/D, lat_max = rlat1/D, lon_max = rlon1/D   (degrees).
           (The harness passes the exact rational value of each double.)
   Grid values (cell centres, block and tile bounds) are integers in HALF CELLS ("hc"):
           1 hc = 1/240 degree;  a cell is 2 hc = 1/120 degree = SRTM30._dlat = SRTM30._dlon;
           cell borders are the even, cell centres the odd hc values.
   The tile table, _tile_height and _tile_width are TRANSLATED from the source on every run
   (coq/gen/C20_tiles.v, written by tools/props/c20.py).

   The model follows the code after the two repairs fixes/C20_1 (latitude index bounds) and
   fixes/C20_2 (lon_min = -180); the unrepaired arithmetic is kept as *_asis for the refutations. *)
From Coq Require Import ZArith List Bool String.
From TyphonGen Require Import C20_tiles.
Import ListNotations.
Open Scope Z_scope.

(* ------------------------------------------------------------------ basics *)

Fixpoint zrange (a : Z) (n : nat) : list Z :=
  match n with O => [] | S n' => a :: zrange (a + 1) n' end.

(* np.arange(a, b) for integral a, b *)
Definition arange (a b : Z) : list Z := zrange a (Z.to_nat (b - a)).

(* positions of the True entries of a boolean mask (C order), counted from k *)
Fixpoint nonzero_from (k : Z) (mask : list bool) : list Z :=
  match mask with
  | [] => []
  | b :: m => if b then k :: nonzero_from (k + 1) m else nonzero_from (k + 1) m
  end.
Definition nonzero := nonzero_from 0.

Definition zlen {A} (l : list A) : Z := Z.of_nat (List.length l).

(* ------------------------------------------------------------------ tiles *)

Definition tile := (string * Z * Z * Z * Z)%type.     (* name, lat_min, lon_min, lat_max, lon_max [deg] *)
Definition tname (t : tile) : string := let '(n, _, _, _, _) := t in n.
Definition tlat0 (t : tile) : Z := let '(_, a, _, _, _) := t in a.
Definition tlon0 (t : tile) : Z := let '(_, _, a, _, _) := t in a.
Definition tlat1 (t : tile) : Z := let '(_, _, _, a, _) := t in a.
Definition tlon1 (t : tile) : Z := let '(_, _, _, _, a) := t in a.

Definition H : Z := tile_height.
Definition W : Z := tile_width.

(* get_bounds(name): first table entry with that name *)
Definition find_tile (name : string) : option tile :=
  find (fun t => String.eqb (tname t) name) tiles.

(* ------------------------------------------------------------------ rectangles *)

Record rect := mkRect { rD : Z; rlat0 : Z; rlon0 : Z; rlat1 : Z; rlon1 : Z }.

(* "inside the covered area": 60 S .. 90 N, 180 W .. 180 E, non-degenerate *)
Definition in_coverage (r : rect) : Prop :=
  0 < rD r /\
  -60 * rD r <= rlat0 r /\ rlat0 r < rlat1 r /\ rlat1 r <= 90 * rD r /\
  -180 * rD r <= rlon0 r /\ rlon0 r < rlon1 r /\ rlon1 r <= 180 * rD r.

Definition in_coverage_b (r : rect) : bool :=
  (0 <? rD r) &&
  (-60 * rD r <=? rlat0 r) && (rlat0 r <? rlat1 r) && (rlat1 r <=? 90 * rD r) &&
  (-180 * rD r <=? rlon0 r) && (rlon0 r <? rlon1 r) && (rlon1 r <=? 180 * rD r).

(* ------------------------------------------------------------------ get_native_grids *)

(* (90 - lat) / _dlat and (lon + 180) / _dlon as exact fractions  num / D *)
Definition rowq (D lat : Z) : Z := (90 * D - lat) * 120.
Definition colq (D lon : Z) : Z := (lon + 180 * D) * 120.

(* np.trunc(num / D) *)
Definition trunc (num D : Z) : Z := Z.quot num D.

(* i_max = trunc(i) + 1                                   [topography.py:251-252, repaired] *)
Definition row_top (r : rect) : Z := trunc (rowq (rD r) (rlat1 r)) (rD r) + 1.
(* i_min = trunc(i); if i_min < i: i_min += 1             [topography.py:253-256, repaired] *)
Definition row_bot (r : rect) : Z :=
  let i := rowq (rD r) (rlat0 r) in
  let t := trunc i (rD r) in
  if t * rD r <? i then t + 1 else t.
(* j_min = trunc((lon_min + 180) / dlon)                   [topography.py:264] *)
Definition col_left (r : rect) : Z := trunc (colq (rD r) (rlon0 r)) (rD r).
(* j_max = trunc(j); if not j_max < j: j_max -= 1          [topography.py:259-262] *)
Definition col_right (r : rect) : Z :=
  let j := colq (rD r) (rlon1 r) in
  let t := trunc j (rD r) in
  if t * rD r <? j then t else t - 1.

(* 90 + 0.5*dlat - k*dlat  and  -180 + 0.5*dlon + j*dlon  in hc *)
Definition lat_hc (k : Z) : Z := 21601 - 2 * k.
Definition lon_hc (j : Z) : Z := -43199 + 2 * j.

Definition native_lats (r : rect) : list Z := map lat_hc (arange (row_top r) (row_bot r + 1)).
Definition native_lons (r : rect) : list Z := map lon_hc (arange (col_left r) (col_right r + 1)).

(* the unrepaired latitude arithmetic of the tree as found (defect #18) *)
Definition row_top_asis (r : rect) : Z :=
  let i := rowq (rD r) (rlat1 r) in
  let t := trunc i (rD r) in
  if t * rD r <? i then t else t + 1.
Definition row_bot_asis (r : rect) : Z := trunc (rowq (rD r) (rlat0 r)) (rD r).
Definition native_lats_asis (r : rect) : list Z :=
  map lat_hc (arange (row_top_asis r) (row_bot_asis r + 1)).

(* ------------------------------------------------------------------ get_tiles *)

(* x % 360; if x >= 180: x -= 360   (lon_min, repaired)    x % 360; if x > 180: x -= 360   (lon_max) *)
Definition norm_lo (D x : Z) : Z := let m := x mod (360 * D) in if 180 * D <=? m then m - 360 * D else m.
Definition norm_hi (D x : Z) : Z := let m := x mod (360 * D) in if 180 * D <? m then m - 360 * D else m.
Definition norm_lo_asis := norm_hi.                                       (* defect #19 *)

(* _do_overlap of the rectangle (scale D) with a tile (degrees) *)
Definition do_overlap (D la0 lo0 la1 lo1 : Z) (t : tile) : bool :=
  let lat_min := Z.max la0 (tlat0 t * D) in
  let lon_min := Z.max lo0 (tlon0 t * D) in
  let lat_max := Z.min la1 (tlat1 t * D) in
  let lon_max := Z.min lo1 (tlon1 t * D) in
  (lat_min <? lat_max) && (lon_min <? lon_max).

Definition get_tiles_with (nlo : Z -> Z -> Z) (r : rect) : list string :=
  let lo0 := nlo (rD r) (rlon0 r) in
  let lo1 := norm_hi (rD r) (rlon1 r) in
  map tname (filter (do_overlap (rD r) (rlat0 r) lo0 (rlat1 r) lo1) tiles).
Definition get_tiles := get_tiles_with norm_lo.
Definition get_tiles_asis := get_tiles_with norm_lo_asis.

(* ------------------------------------------------------------------ get_grids *)

(* np.linspace(start, stop, n)[k] for an integral step *)
Definition linspace (start stop n k : Z) : Z := start + k * ((stop - start) / (n - 1)).

(* lat_grid = linspace(lat_min + dlat/2, lat_max - dlat/2, H)[::-1];  lon_grid = linspace(..., W) *)
Definition tile_lat (t : tile) (r : Z) : Z :=
  linspace (tlat0 t * 240 + 1) (tlat1 t * 240 - 1) H (H - 1 - r).
Definition tile_lon (t : tile) (c : Z) : Z :=
  linspace (tlon0 t * 240 + 1) (tlon1 t * 240 - 1) W c.
Definition tile_lats (t : tile) : list Z := map (tile_lat t) (arange 0 H).
Definition tile_lons (t : tile) : list Z := map (tile_lon t) (arange 0 W).

(* ------------------------------------------------------------------ elevation *)

Definition list_min (l : list Z) : option Z :=
  match l with [] => None | x :: t => Some (fold_left Z.min t x) end.
Definition list_max (l : list Z) : option Z :=
  match l with [] => None | x :: t => Some (fold_left Z.max t x) end.

Definition upd (e : Z -> Z -> Z) (p : Z * Z) (v : Z) : Z -> Z -> Z :=
  fun i j => if (i =? fst p) && (j =? snd p) then v else e i j.

(* elevation[inds_d] = dem[inds_s] : the k-th selected destination cell (C order) receives the
   k-th selected source value *)
Definition assign (e : Z -> Z -> Z) (pos : list (Z * Z)) (vals : list Z) : Z -> Z -> Z :=
  fold_left (fun e pv => upd e (fst pv) (snd pv)) (combine pos vals) e.

Definition in_mask (lo hi : Z) (xs : list Z) : list bool :=
  map (fun x => (lo <=? x) && (x <? hi)) xs.

Inductive outcome :=
| Ok (e : Z -> Z -> Z)
| ErrEmpty                      (* .min() of an empty grid raises ValueError *)
| ErrUnknownTile (n : string)   (* get_bounds: IndexError *)
| ErrShape (n : string).        (* boolean-mask assignment with different counts: ValueError *)

Section Elevation.
  Variable dem : string -> Z -> Z -> Z.        (* dem name r c : pixel [r, c] of the file of that tile *)

  Definition tile_step (blk : Z * Z * Z * Z) (lats_d lons_d : list Z) (acc : outcome) (name : string)
    : outcome :=
    match acc with
    | Ok e =>
      match find_tile name with
      | None => ErrUnknownTile name
      | Some t =>
        let '(lat_min, lon_min, lat_max, lon_max) := blk in
        let rows_s := nonzero (in_mask lat_min lat_max (tile_lats t)) in
        let cols_s := nonzero (in_mask lon_min lon_max (tile_lons t)) in
        let rows_d := nonzero (in_mask (tlat0 t * 240) (tlat1 t * 240) lats_d) in
        let cols_d := nonzero (in_mask (tlon0 t * 240) (tlon1 t * 240) lons_d) in
        let vals := flat_map (fun r => map (dem name r) cols_s) rows_s in
        let pos := flat_map (fun i => map (pair i) cols_d) rows_d in
        if Nat.eqb (List.length vals) (List.length pos) then Ok (assign e pos vals) else ErrShape name
      end
    | other => other
    end.

  (* block bounds and the tiles fetched for a block *)
  Definition block_of (lats_d lons_d : list Z) : option (Z * Z * Z * Z) :=
    match list_min lats_d, list_max lats_d, list_min lons_d, list_max lons_d with
    | Some a, Some b, Some c, Some d => Some (a - 1, c - 1, b + 1, d + 1)
    | _, _, _, _ => None
    end.

  Definition block_tiles (blk : Z * Z * Z * Z) : list string :=
    let '(lat_min, lon_min, lat_max, lon_max) := blk in
    get_tiles (mkRect 240 lat_min lon_min lat_max lon_max).

  Definition elevation (r : rect) : outcome :=
    let lats_d := native_lats r in
    let lons_d := native_lons r in
    match block_of lats_d lons_d with
    | None => ErrEmpty
    | Some blk => fold_left (tile_step blk lats_d lons_d) (block_tiles blk) (Ok (fun _ _ => 0))
    end.

  (* ---- specification: "the value stored in the one tile pixel centred at (la, lo)" *)
  Definition pixel_at (la lo v : Z) : Prop :=
    exists t r c, In t tiles /\ 0 <= r < H /\ 0 <= c < W /\
                  tile_lat t r = la /\ tile_lon t c = lo /\ v = dem (tname t) r c.

  (* executable form of the specification: scan the whole table and every row / column *)
  Definition pixel_find (la lo : Z) : list Z :=
    flat_map (fun t =>
      flat_map (fun r => if tile_lat t r =? la then
         flat_map (fun c => if tile_lon t c =? lo then [dem (tname t) r c] else []) (arange 0 W)
         else []) (arange 0 H)) tiles.
End Elevation.

(* the tiles fetched by elevation (in order), or [] when the grid is empty *)
Definition elevation_tiles (r : rect) : list string :=
  match block_of (native_lats r) (native_lons r) with
  | None => []
  | Some blk => block_tiles blk
  end.

(* ------------------------------------------------------------------ table well-formedness *)

Definition tile_eqb (a b : tile) : bool :=
  String.eqb (tname a) (tname b) && (tlat0 a =? tlat0 b) && (tlon0 a =? tlon0 b) &&
  (tlat1 a =? tlat1 b) && (tlon1 a =? tlon1 b).

Definition disjoint_b (a b : tile) : bool :=
  (tlat1 a <=? tlat0 b) || (tlat1 b <=? tlat0 a) || (tlon1 a <=? tlon0 b) || (tlon1 b <=? tlon0 a).

(* the 10-degree boxes of the covered area: box (p, q) = [-60+10p, -50+10p] x [-180+10q, -170+10q] *)
Definition boxes : list (Z * Z) := list_prod (zrange 0 15) (zrange 0 36).
Definition box_in (b : Z * Z) (t : tile) : bool :=
  (tlat0 t <=? -60 + 10 * fst b) && (-50 + 10 * fst b <=? tlat1 t) &&
  (tlon0 t <=? -180 + 10 * snd b) && (-170 + 10 * snd b <=? tlon1 t).

Definition tile_shape_ok (t : tile) : bool :=
  ((tlat1 t - tlat0 t) * 120 =? H) && ((tlon1 t - tlon0 t) * 120 =? W) &&
  (-60 <=? tlat0 t) && (tlat1 t <=? 90) && (-180 <=? tlon0 t) && (tlon1 t <=? 180).

Fixpoint nodup_names (l : list tile) : bool :=
  match l with
  | [] => true
  | t :: rest => negb (existsb (fun u => String.eqb (tname u) (tname t)) rest) && nodup_names rest
  end.

(* SRTM30 file naming: upper-left corner, e.g. w180n90, e020s10 *)
Definition digit (d : Z) : string :=
  match d with 0 => "0" | 1 => "1" | 2 => "2" | 3 => "3" | 4 => "4" | 5 => "5" | 6 => "6" | 7 => "7"
             | 8 => "8" | _ => "9" end%string.
Definition srtm_name (lon_min lat_max : Z) : string :=
  let a := Z.abs lon_min in let b := Z.abs lat_max in
  ((if (lon_min <? 0)%Z then "w" else "e") ++ digit (a / 100)%Z ++ digit (a / 10 mod 10)%Z ++ digit (a mod 10)%Z ++
   (if (lat_max <? 0)%Z then "s" else "n") ++ digit (b / 10 mod 10)%Z ++ digit (b mod 10)%Z)%string.

Definition table_ok : bool :=
  (1 <? H) && (1 <? W) &&
  forallb tile_shape_ok tiles &&
  forallb (fun a => forallb (fun b => tile_eqb a b || disjoint_b a b) tiles) tiles &&
  forallb (fun b => existsb (box_in b) tiles) boxes &&
  nodup_names tiles &&
  forallb (fun t => String.eqb (tname t) (srtm_name (tlon0 t) (tlat1 t))) tiles.

(* ------------------------------------------------------------------ tile cache *)

(* get_tile(name): look for NAME.DEM in the cache directory, download when absent, then read.
   State = names present in the cache directory; trace = (name, downloaded?) per request. *)
Definition cached (c : list string) (n : string) : bool := existsb (String.eqb n) c.

Definition cache_step (st : list string * list (string * bool)) (n : string) :=
  let '(c, log) := st in
  if cached c n then (c, log ++ [(n, false)]) else (n :: c, log ++ [(n, true)]).

Definition run_cache (init : list string) (reqs : list string) : list string * list (string * bool) :=
  fold_left cache_step reqs (init, []).

(* ------------------------------------------------------------------ evaluation helpers (correspondence) *)

(* synthetic world raster used by the harness: value of the global pixel (R, C), R counted from 90 N,
   C from 180 W; never 0 (0 is what elevation leaves in a cell it did not fill) *)
Definition synth (R C : Z) : Z := 1 + (R * 181 + C * 7) mod 32003.
(* a tile FILE holds the part of the world raster its NAME stands for: origin (R0, C0) per name *)
Definition dem_of (origin : list (string * (Z * Z))) (name : string) (r c : Z) : Z :=
  match find (fun o => String.eqb (fst o) name) origin with
  | Some (_, (R0, C0)) => synth (R0 + r) (C0 + c)
  | None => 0
  end.
(* global pixel under the cell centre (la, lo) [hc] *)
Definition world (la lo : Z) : Z := synth ((21599 - la) / 2) ((lo + 43200) / 2).

Definition matrix_of (e : Z -> Z -> Z) (n m : nat) : list (list Z) :=
  map (fun i => map (e i) (zrange 0 m)) (zrange 0 n).

Inductive status := SOk | SEmpty | SUnknownTile | SShape.

(* status, lat grid, lon grid, fetched tiles, elevation matrix (when small enough) *)
Definition run_elevation (origin : list (string * (Z * Z))) (with_matrix : bool) (r : rect) :=
  let lats := native_lats r in
  let lons := native_lons r in
  match elevation (dem_of origin) r with
  | Ok e => (SOk, lats, lons, elevation_tiles r,
             if with_matrix then matrix_of e (List.length lats) (List.length lons) else [])
  | ErrEmpty => (SEmpty, lats, lons, [], [])
  | ErrUnknownTile _ => (SUnknownTile, lats, lons, elevation_tiles r, [])
  | ErrShape _ => (SShape, lats, lons, elevation_tiles r, [])
  end.

(* the certified grid checker: lats/lons [hc] are consecutive centres, non-empty, and the block they
   span covers the rectangle tightly *)
Fixpoint steps (d : Z) (l : list Z) : bool :=
  match l with
  | x :: ((y :: _) as t) => (y =? x + d) && steps d t
  | _ => true
  end.

Definition lat_ok (r : rect) (lats : list Z) : bool :=
  match lats with
  | top :: _ =>
    let bot := last lats top in
    let D := rD r in
    (top mod 2 =? 1) && steps (-2) lats &&
    (240 * rlat1 r <=? (top + 1) * D) && ((top - 1) * D <? 240 * rlat1 r) &&
    ((bot - 1) * D <=? 240 * rlat0 r) && (240 * rlat0 r <? (bot + 1) * D)
  | [] => false
  end.

Definition lon_ok (r : rect) (lons : list Z) : bool :=
  match lons with
  | lft :: _ =>
    let rgt := last lons lft in
    let D := rD r in
    (lft mod 2 =? 1) && steps 2 lons &&
    ((lft - 1) * D <=? 240 * rlon0 r) && (240 * rlon0 r <? (lft + 1) * D) &&
    (240 * rlon1 r <=? (rgt + 1) * D) && ((rgt - 1) * D <? 240 * rlon1 r)
  | [] => false
  end.

Definition grid_ok (r : rect) (lats lons : list Z) : bool := lat_ok r lats && lon_ok r lons.

(* expected values of the cells (lats x lons) from the world raster *)
Definition world_matrix (lats lons : list Z) : list (list Z) :=
  map (fun la => map (world la) lons) lats.

(* positions where two matrices differ (at most the first 5) *)
Fixpoint diff_row (i j : Z) (a b : list Z) : list (Z * Z * Z * Z) :=
  match a, b with
  | x :: a', y :: b' => (if x =? y then [] else [(i, j, x, y)]) ++ diff_row i (j + 1) a' b'
  | [], [] => []
  | _, _ => [(i, j, -1, -1)]
  end.
Fixpoint diff_from (i : Z) (a b : list (list Z)) : list (Z * Z * Z * Z) :=
  match a, b with
  | x :: a', y :: b' => diff_row i 0 x y ++ diff_from (i + 1) a' b'
  | [], [] => []
  | _, _ => [(i, -1, -1, -1)]
  end.
Definition diff (a b : list (list Z)) := firstn 5 (diff_from 0 a b).

(* get_grids of a tile and get_native_grids of its bounds, summarised as (first, last, length, regular) *)
Definition summary (d : Z) (l : list Z) :=
  match l with [] => (0, 0, 0, true) | x :: _ => (x, last l x, zlen l, steps d l) end.
Definition tile_rect (t : tile) : rect := mkRect 1 (tlat0 t) (tlon0 t) (tlat1 t) (tlon1 t).
