(* C07 -- geodesy: the hand-written part of the model (definitions only).

   The closed forms (sind/cosd/tand, ellipsoid radii, cart2geocentric, geocentric2cart, geodetic2cart,
   great_circle_distance, the ellipsoid table) are GENERATED from typhon/geodesy.py into coq/gen/geodesy.v on every
   run.  What the translator does not cover is modelled here by hand, mirroring the code line by line, and is tied
   to the implementation by pointwise interval enclosures (tools/props/c07.py):

     tunnel            tunnel_distance: Euclidean distance of the two geocentric2cart points (kernel of the np.sum)
     geod_*            cart2geodetic: the body of the while loop as the map geod_T on the latitude, the fuelled loop
                       with its stop criterion, and the result after n passes
     poslos2cart       geocentricposlos2cart, branch `not_pole`
     cartposlos2geoc   cartposlos2geocentric without optional arguments: zenith angle, and the azimuth in its three
                       cases (zenith/nadir -> 0, pole -> atan2(dy,dx), otherwise acos with the sign of dlon)
   Angles are degrees at the interfaces exactly as in the code (x * PI / 180 is np.deg2rad, x * 180 / PI np.rad2deg). *)
From Coq Require Import Reals.
From Typhon Require Import Base.RealAux.
From TyphonGen Require Import geodesy.
Open Scope R_scope.

(* ---------------------------------------------------------------- tunnel_distance (geodesy.py:1102-1120) *)
Definition tunnel (Re lat1 lon1 lat2 lon2 : R) : R :=
  let '(x1, y1, z1) := geocentric2cart Re lat1 lon1 in
  let '(x2, y2, z2) := geocentric2cart Re lat2 lon2 in
  sqrt ((x2 - x1) ^ 2 + (y2 - y1) ^ 2 + (z2 - z1) ^ 2).

(* ---------------------------------------------------------------- cart2geodetic (geodesy.py:381-422) *)
(* np.hypot(x, y) *)
Definition hypot (x y : R) : R := sqrt (x ^ 2 + y ^ 2).

Section Geodetic.
  Variables a e2 p z : R.          (* semi-major axis, eccentricity squared, p = hypot(x, y), z *)

  (* N = ellipsoid[0] / np.sqrt(1 - e2 * np.sin(B0)**2) *)
  Definition geod_N (B : R) : R := a / sqrt (1 - e2 * sin B ^ 2).
  (* h = np.hypot(x, y) / np.cos(B0) - N *)
  Definition geod_h (B : R) : R := p / cos B - geod_N B.
  (* B0 = np.arctan(z/np.hypot(x, y) * ((1-e2*N/(N+h))**(-1))) *)
  Definition geod_T (B : R) : R :=
    let N := geod_N B in let h := geod_h B in atan (z / p * / (1 - e2 * N / (N + h))).

  Fixpoint geod_iter (n : nat) (B : R) : R :=
    match n with O => B | S k => geod_iter k (geod_T B) end.

  (* the loop (after fix C07_1 it is always entered): one pass computes N, h at B0, keeps B := B0 and steps B0;
     it stops when |B - B0| <= tol.  The latitude returned is B, the height is the h of the last pass = geod_h B.
     None = fuel exhausted. *)
  Fixpoint geod_loop (tol : R) (fuel : nat) (B0 : R) : option R :=
    match fuel with
    | O => None
    | S k => let B1 := geod_T B0 in
             if Rle_dec (Rabs (B0 - B1)) tol then Some B0 else geod_loop tol k B1
    end.
End Geodetic.

(* the result of cart2geodetic on an eccentric ellipsoid when the loop makes n >= 1 passes *)
Definition cart2geodetic_n (n : nat) (x y z a e : R) : R * R * R :=
  let e2 := e ^ 2 in
  let p := hypot x y in
  let B := geod_iter a e2 p z (pred n) (atan2 z p) in
  (geod_h a e2 p B, B * 180 / PI, atan2 y x * 180 / PI).

(* the spherical short cut:  h, lat, lon = cart2geocentric(x, y, z); h -= ellipsoid[0] *)
Definition cart2geodetic_sph (x y z a : R) : R * R * R :=
  let '(r, lat, lon) := cart2geocentric x y z in (r - a, lat, lon).

(* the composed conversions are literally compositions in the code (geodesy.py:462-518) *)
Definition geodetic2geocentric (h lat lon a e : R) : R * R * R :=
  let '(x, y, z) := geodetic2cart h lat lon a e in cart2geocentric x y z.
Definition geocentric2geodetic_n (n : nat) (r lat lon a e : R) : R * R * R :=
  let '(x, y, z) := geocentric2cart r lat lon in cart2geodetic_n n x y z a e.

(* ---------------------------------------------------------------- geocentricposlos2cart, not_pole branch (781-828) *)
Definition poslos2cart (r lat lon za aa : R) : R * R * R * (R * R * R) :=
  let latrad := PI / 180 * lat in
  let lonrad := PI / 180 * lon in
  let zarad := PI / 180 * za in
  let aarad := PI / 180 * aa in
  let coslat := cos latrad in let sinlat := sin latrad in
  let coslon := cos lonrad in let sinlon := sin lonrad in
  let cosza := cos zarad in let sinza := sin zarad in
  let cosaa := cos aarad in let sinaa := sin aarad in
  let x0 := r * coslat in
  let y := x0 * sinlon in
  let x := x0 * coslon in
  let z := r * sinlat in
  let dr := cosza in
  let dlat := sinza * cosaa in
  let dlon := sinza * sinaa / coslat in
  let dx := coslat * coslon * dr - sinlat * coslon * dlat - coslat * sinlon * dlon in
  let dz := sinlat * dr + coslat * dlat in
  let dy := coslat * sinlon * dr - sinlat * sinlon * dlat + coslat * coslon * dlon in
  (x, y, z, (dx, dy, dz)).

(* ---------------------------------------------------------------- cartposlos2geocentric, no optional arguments (596-718) *)
Definition clip1 (x : R) : R := Rmax (-1) (Rmin x 1).

(* zenith angle: np.rad2deg(np.arccos(np.clip(coslat*coslon*dx + sinlat*dz + coslat*sinlon*dy, -1, 1))) *)
Definition los_za (lat lon dx dy dz : R) : R :=
  let nrm := sqrt (dx ^ 2 + dy ^ 2 + dz ^ 2) in
  let dx := dx / nrm in let dy := dy / nrm in let dz := dz / nrm in
  let coslat := cos (lat * PI / 180) in let sinlat := sin (lat * PI / 180) in
  let coslon := cos (lon * PI / 180) in let sinlon := sin (lon * PI / 180) in
  acos (clip1 (coslat * coslon * dx + sinlat * dz + coslat * sinlon * dy)) * 180 / PI.

(* azimuth angle *)
Definition los_aa (r lat lon za dx dy dz : R) : R :=
  let nrm := sqrt (dx ^ 2 + dy ^ 2 + dz ^ 2) in
  let dx := dx / nrm in let dy := dy / nrm in let dz := dz / nrm in
  let coslat := cos (lat * PI / 180) in let sinlat := sin (lat * PI / 180) in
  let coslon := cos (lon * PI / 180) in let sinlon := sin (lon * PI / 180) in
  if Rlt_dec za 1e-6 then 0                                  (* noz *)
  else if Rlt_dec (180 - 1e-6) za then 0                     (* noz *)
  else if Rlt_dec (90 - 1e-8) (Rabs lat) then atan2 dy dx * 180 / PI       (* pole *)
  else
    let dlat := - sinlat * coslon / r * dx + coslat / r * dz - sinlat * sinlon / r * dy in
    let dlon := - sinlon / coslat / r * dx + coslon / coslat / r * dy in
    let c := r * dlat / sin (za * PI / 180) in
    (* fix = isnan(arccos(c)): |c| > 1 *)
    if Rlt_dec 1 (Rabs c) then (if Rle_dec 0 dlat then 0 else 180)
    else if Rlt_dec dlon 0 then - (acos c * 180 / PI) else acos c * 180 / PI.

Definition cartposlos2geoc (x y z dx dy dz : R) : R * R * R * (R * R) :=
  let '(r, lat, lon) := cart2geocentric x y z in
  let za := los_za lat lon dx dy dz in
  (r, lat, lon, (za, los_aa r lat lon za dx dy dz)).
