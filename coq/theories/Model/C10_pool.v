(* C10 -- executable model of FileSet.map / imap / collect / icollect / align
   (typhon/files/fileset.py).  Nothing but definitions: the model must stay runnable when a
   proof breaks.

   Files are numbered 0 .. n-1 by their position in the argument stream (find() order or the
   order of `files=`).  A task is the call of _call_map_function for one file (or bundle). *)
From Coq Require Import ZArith List Bool Arith.
Import ListNotations.

(* ------------------------------------------------------------------ the per-file wrapper *)

(* what a finished task hands to its future *)
Inductive res := Ok (v : option Z) | Err (e : Z) | ReadWarn.

Inductive rd := RdOk | RdFail (e : Z).                 (* handler.read on one file *)
Inductive fres := FRet (v : option Z) | FRaise (e : Z). (* the user's function *)
Record cfg := { on_content : bool; e2w : bool }.        (* on_content, error_to_warning *)
Record task := { t_read : list rd; t_func : fres }.     (* one rd per file of the bundle *)

(* a bundle is read by an inner collect() without error_to_warning: the first failing file
   (in bundle order) makes the whole read fail *)
Fixpoint bundle_read (l : list rd) : rd :=
  match l with
  | [] => RdOk
  | RdOk :: t => bundle_read t
  | RdFail e :: _ => RdFail e
  end.

Definition func_result (f : fres) : res :=
  match f with FRet v => Ok v | FRaise e => Err e end.

(* _call_map_function: only a read error is turned into a warning + None *)
Definition task_result (c : cfg) (t : task) : res :=
  if on_content c then
    match bundle_read (t_read t) with
    | RdFail e => if e2w c then ReadWarn else Err e
    | RdOk => func_result (t_func t)
    end
  else func_result (t_func t).

Definition is_err (r : res) : bool := match r with Err _ => true | _ => false end.
Definition value_of (r : res) : option Z := match r with Ok v => v | _ => None end.
Definition nth_res (rs : list res) (i : nat) : res := nth i rs ReadWarn.

(* ------------------------------------------------------------------ specification
   What the caller must see: the values of the files in stream order up to (excluding) the
   first task that raised, and that task's exception (None = normal termination). *)
Fixpoint spec (rs : list res) : list (option Z) * option Z :=
  match rs with
  | [] => ([], None)
  | Err e :: _ => ([], Some e)
  | r :: t => let '(vs, e) := spec t in (value_of r :: vs, e)
  end.

(* ------------------------------------------------------------------ imap as a transition system
   next   : number of tasks submitted so far (= index of the next file of the stream)
   dq     : worker_queue, futures in submission order (head = left end)
   done   : tasks whose future is complete
   out    : indices yielded to the caller, in yield order
   raised : the task whose exception left the generator *)
Record st := { next : nat; dq : list nat; done : list nat; out : list nat; raised : option nat }.

Inductive act := Submit (k : nat) | Complete (i : nat) | Yield (k : nat).

Definition mem (i : nat) (l : list nat) : bool := existsb (Nat.eqb i) l.

Definition init : st := {| next := 0; dq := []; done := []; out := []; raised := None |}.

(* w = max_workers, rs = the results the tasks will produce (n = length rs).
   Submit k  : `worker_queue.append(pool.submit(...))` -- only for the next file of the stream and
               only while fewer than w futures are queued (`wait = len(worker_queue) >= workers`).
   Complete i: the scheduler's free choice among submitted, unfinished tasks.
   Yield k   : `yield worker_queue.popleft().result()` -- only the head, only when it is complete,
               and only when the queue is full with another file waiting, or the stream is exhausted
               (the flush loop).  A head that raised ends the generator (raised := Some k). *)
Definition step (w : nat) (rs : list res) (s : st) (a : act) : option st :=
  let n := length rs in
  match a with
  | Complete i =>
      if (i <? next s) && negb (mem i (done s))
      then Some {| next := next s; dq := dq s; done := i :: done s; out := out s; raised := raised s |}
      else None
  | Submit k =>
      match raised s with
      | Some _ => None
      | None =>
          if (k =? next s) && (next s <? n) && (length (dq s) <? w)
          then Some {| next := S (next s); dq := dq s ++ [k]; done := done s; out := out s; raised := None |}
          else None
      end
  | Yield k =>
      match raised s, dq s with
      | None, h :: rest =>
          if (k =? h) && mem h (done s)
             && (((w <=? length (dq s)) && (next s <? n)) || (n <=? next s))
          then if is_err (nth_res rs h)
               then Some {| next := next s; dq := rest; done := done s; out := out s; raised := Some h |}
               else Some {| next := next s; dq := rest; done := done s; out := out s ++ [h]; raised := None |}
          else None
      | _, _ => None
      end
  end.

Fixpoint run (w : nat) (rs : list res) (s : st) (tr : list act) : option st :=
  match tr with
  | [] => Some s
  | a :: t => match step w rs s a with Some s' => run w rs s' t | None => None end
  end.

(* the generator has returned or raised *)
Definition final (rs : list res) (s : st) : Prop :=
  match raised s with Some _ => True | None => next s = length rs /\ dq s = [] end.
Definition finalb (rs : list res) (s : st) : bool :=
  match raised s with
  | Some _ => true
  | None => (next s =? length rs) && match dq s with [] => true | _ => false end
  end.

(* consumed = handed to the caller as a value or as the exception *)
Definition consumed (s : st) : list nat :=
  out s ++ match raised s with Some h => [h] | None => [] end.

Definition observed (rs : list res) (s : st) : list (option Z) * option Z :=
  (map (fun i => value_of (nth_res rs i)) (out s),
   match raised s with
   | Some h => match nth_res rs h with Err e => Some e | _ => None end
   | None => None
   end).

(* the invariant of every reachable state *)
Definition inv (w : nat) (rs : list res) (s : st) : Prop :=
  consumed s ++ dq s = seq 0 (next s)
  /\ length (dq s) <= w
  /\ next s <= length rs
  /\ incl (done s) (seq 0 (next s))
  /\ NoDup (done s)
  /\ (forall i, In i (out s) -> is_err (nth_res rs i) = false)
  /\ (forall h, raised s = Some h -> is_err (nth_res rs h) = true).

(* ------------------------------------------------------------------ map
   Executor.map submits every task at once and hands the results back in submission order:
   this is the same system with an unbounded queue (w >= n), where the Yield guard lets
   nothing out before the stream is exhausted. *)
Definition map_width (rs : list res) : nat := Nat.max 1 (length rs).

(* ------------------------------------------------------------------ a deterministic scheduler
   (used for the non-vacuity examples and by the harness as a cross-check of its own schedule
   generator): `prio` is the completion order the scheduler tries to force.  The main thread
   moves whenever it can; otherwise the first task of prio that is running completes. *)
Definition main_move (w : nat) (rs : list res) (s : st) : option act :=
  match raised s with
  | Some _ => None
  | None =>
      let n := length rs in
      match dq s with
      | h :: _ =>
          if ((w <=? length (dq s)) && (next s <? n)) || (n <=? next s)
          then (if mem h (done s) then Some (Yield h) else None)
          else Some (Submit (next s))
      | [] => if next s <? n then Some (Submit (next s)) else None
      end
  end.

Definition sched_move (w : nat) (rs : list res) (prio : list nat) (s : st) : option act :=
  match main_move w rs s with
  | Some a => Some a
  | None =>
      match find (fun i => (i <? next s) && negb (mem i (done s))) prio with
      | Some i => Some (Complete i)
      | None => None
      end
  end.

Fixpoint schedule (fuel w : nat) (rs : list res) (prio : list nat) (s : st) : list act :=
  match fuel with
  | O => []
  | S f =>
      match sched_move w rs prio s with
      | None => []
      | Some a => match step w rs s a with
                  | Some s' => a :: schedule f w rs prio s'
                  | None => []
                  end
      end
  end.

(* ------------------------------------------------------------------ collect / icollect
   collect = map(on_content, return_info) with the pass-through function, then the pairs whose
   content is None are dropped.  As the code is, an empty list of pairs cannot be unzipped: when nothing is
   left collect() raises ValueError (CEmpty). *)
Inductive cres := CRaise (e : Z) | CEmpty | CList (l : list (nat * Z)).

Fixpoint keep_some (l : list (nat * option Z)) : list (nat * Z) :=
  match l with
  | [] => []
  | (i, Some c) :: t => (i, c) :: keep_some t
  | (_, None) :: t => keep_some t
  end.

Definition collect_model (rs : list res) : cres :=
  let '(vals, e) := spec rs in
  match e with
  | Some x => CRaise x
  | None => match keep_some (combine (seq 0 (length vals)) vals) with
            | [] => CEmpty
            | l => CList l
            end
  end.

(* brute force: file i contributes (i, c) iff its task ended with Ok (Some c) *)
Fixpoint contents_from (i : nat) (rs : list res) : list (nat * Z) :=
  match rs with
  | [] => []
  | Ok (Some c) :: t => (i, c) :: contents_from (S i) t
  | _ :: t => contents_from (S i) t
  end.

(* ------------------------------------------------------------------ align
   matches: one entry per primary (index = match_id), the list of its secondaries (numbered).
   The loop of align(): the secondary loader yields the unique secondaries in order of first
   appearance; `cache` keeps loaded secondaries that later primaries still need;
   `usage` counts the remaining uses. *)
Fixpoint uniq_acc (seen l : list nat) : list nat :=      (* typhon.utils.unique *)
  match l with
  | [] => []
  | x :: t => if mem x seen then uniq_acc seen t else x :: uniq_acc (x :: seen) t
  end.
Definition uniq_first (l : list nat) : list nat := uniq_acc [] l.

Fixpoint uses_from (a : nat) (matches : list (list nat)) : list (nat * nat) :=
  match matches with
  | [] => []
  | secs :: t => map (fun x => (a, x)) secs ++ uses_from (S a) t
  end.
Definition uses_of (matches : list (list nat)) : list (nat * nat) := uses_from 0 matches.

Record ast := {
  loader : list nat;          (* what secondary_loader will still yield *)
  usage  : nat -> nat;        (* secondary_usage *)
  cache  : list nat;          (* keys of the cache dict *)
  loads  : list nat;          (* secondaries taken from the loader so far, in order *)
  deliv  : list (nat * nat);  (* (match_id, secondary) pairs handed to the caller's loop body *)
  maxcache : nat;             (* largest cache size seen *)
  aerr   : bool               (* AlignError / StopIteration *)
}.

Definition upd (f : nat -> nat) (x v : nat) : nat -> nat := fun y => if y =? x then v else f y.
Definition remove_nat (x : nat) (l : list nat) : list nat := filter (fun y => negb (y =? x)) l.

Definition use_secondary (s : ast) (px : nat * nat) : ast :=
  let x := snd px in
  if aerr s then s else
  let fetched :=                      (* Some (loader', cache', loads') or None = error *)
    if mem x (cache s) then Some (loader s, cache s, loads s)
    else match loader s with
         | l :: rest => if l =? x then Some (rest, x :: cache s, loads s ++ [x]) else None
         | [] => None
         end in
  match fetched with
  | None => {| loader := loader s; usage := usage s; cache := cache s; loads := loads s;
               deliv := deliv s; maxcache := maxcache s; aerr := true |}
  | Some (ld, ca, lo) =>
      let u := usage s x - 1 in
      let ca' := if u =? 0 then remove_nat x ca else ca in
      {| loader := ld; usage := upd (usage s) x u; cache := ca'; loads := lo;
         deliv := deliv s ++ [px]; maxcache := Nat.max (maxcache s) (length ca); aerr := false |}
  end.

Definition align_init (uses : list (nat * nat)) : ast :=
  let secs := map snd uses in
  {| loader := uniq_first secs; usage := fun x => count_occ Nat.eq_dec secs x; cache := [];
     loads := []; deliv := []; maxcache := 0; aerr := false |}.

Definition align_run (uses : list (nat * nat)) : ast := fold_left use_secondary uses (align_init uses).
Definition align_model (matches : list (list nat)) : ast := align_run (uses_of matches).

(* what the caller of align(skip_errors=True) receives: the pairs whose two files could be read *)
Definition align_yields (pfail sfail : nat -> bool) (matches : list (list nat)) : list (nat * nat) :=
  filter (fun px => negb (pfail (fst px)) && negb (sfail (snd px))) (deliv (align_model matches)).

(* ------------------------------------------------------------------ interface for the harness
   (numbers arrive as Z; everything is printed as lists of Z / bool) *)
Local Open Scope Z_scope.

Definition zS (k : Z) := Submit (Z.to_nat k).
Definition zC (k : Z) := Complete (Z.to_nat k).
Definition zY (k : Z) := Yield (Z.to_nat k).

Definition act_z (a : act) : Z * Z :=
  match a with Submit k => (0, Z.of_nat k) | Complete k => (1, Z.of_nat k) | Yield k => (2, Z.of_nat k) end.

(* length of the longest prefix of the trace the model accepts, and the state reached *)
Fixpoint accept_len (w : nat) (rs : list res) (s : st) (tr : list act) : nat * st :=
  match tr with
  | [] => (O, s)
  | a :: t => match step w rs s a with
              | Some s' => let '(k, s'') := accept_len w rs s' t in (S k, s'')
              | None => (O, s)
              end
  end.

(* the property's own checker of the bound, independent of `step`:
   submitted-but-unconsumed = submits - yields, never above w *)
Fixpoint max_inflight (cur mx : Z) (tr : list act) : Z :=
  match tr with
  | [] => mx
  | Submit _ :: t => max_inflight (cur + 1) (Z.max mx (cur + 1)) t
  | Yield _ :: t => max_inflight (cur - 1) mx t
  | Complete _ :: t => max_inflight cur mx t
  end.

Definition opt_code (o : option Z) : Z := match o with Some e => e | None => -1 end.

(* (accepted prefix, trace length, final?, values of the model after the trace, error of the model,
    values of the spec, error of the spec, max in flight) *)
Definition check_trace (w : Z) (rs : list res) (tr : list act)
  : list Z * bool * list (option Z) * Z * list (option Z) * Z :=
  let '(k, s) := accept_len (Z.to_nat w) rs init tr in
  let '(mv, me) := observed rs s in
  let '(sv, se) := spec rs in
  ([Z.of_nat k; Z.of_nat (length tr); max_inflight 0 0 tr], finalb rs s, mv, opt_code me, sv, opt_code se).

Definition sched_z (w : Z) (rs : list res) (prio : list Z) : list (Z * Z) :=
  let n := length rs in
  map act_z (schedule (4 * n + 4) (Z.to_nat w) rs (map Z.to_nat prio) init).

Definition cres_z (c : cres) : Z * list (Z * Z) :=
  match c with
  | CRaise e => (e, [])
  | CEmpty => (-2, [])
  | CList l => (-1, map (fun '(i, v) => (Z.of_nat i, v)) l)
  end.

Definition align_z (matches : list (list Z)) : list Z * list (Z * Z) * list Z * bool :=
  let m := map (map Z.to_nat) matches in
  let s := align_model m in
  (map Z.of_nat (loads s), map (fun '(p, x) => (Z.of_nat p, Z.of_nat x)) (deliv s),
   [Z.of_nat (maxcache s); Z.of_nat (length (cache s)); Z.of_nat (length (loader s))], aerr s).

Definition mk_task (reads : list Z) (f : Z) (fv : Z) : task :=
  (* reads: -1 = ok, e >= 0 = fails with code e;  f: 0 = returns Some fv, 1 = returns None, 2 = raises fv *)
  {| t_read := map (fun r => if r <? 0 then RdOk else RdFail r) reads;
     t_func := if f =? 0 then FRet (Some fv) else if f =? 1 then FRet None else FRaise fv |}.

Definition results (oc ew : bool) (ts : list task) : list res :=
  map (task_result {| on_content := oc; e2w := ew |}) ts.
