(* C20 -- executable BINARY64 model of the index arithmetic of typhon/topography.py (SRTM30), definitions only.

   Model/C20_srtm.v computes over exact rationals.  The implementation computes in IEEE binary64.  This file
   repeats the computations of get_native_grids / get_grids / get_tiles / the masks of elevation with Coq's
   primitive floats (PrimFloat = the binary64 operations of the machine, round to nearest even), operation by
   operation and in the order in which Python / numpy evaluate them.  The harness (tools/props/c20.py) hands the
   corners to Coq as float.hex() literals and compares the returned grids bit for bit, the fetched tiles in
   order, and the array cell by cell.

   NOTHING is proved about this model (Props/C20.v does not depend on it): it is the executable reference that
   pins down what the floating-point code does, so that every difference between the implementation and the
   rational model is either explained by it and classified by the proved margin (Props/C20.v,
   robust_margin), or reported.

   numpy / Python semantics used (exercised on every run, not verified):
     np.trunc                     round toward zero, sign kept
     np.arange(a, b) (float64)    n = ceil((b - a) / 1); v[0] = a; v[1] = a + 1; v[k] = a + k * (v[1] - a)
     np.linspace(a, b, n)         step = (b - a) / (n - 1); v[k] = k * step + a; v[n-1] = b     (step <> 0)
     x % 360 (float)              fmod (exact), then + 360 (rounded) when the remainder is negative
     max(a, b) / min(a, b)        Python builtins: b if b > a else a / b if b < a else a
     ndarray.min() / .max()       reductions (no NaN here)
     boolean-mask assignment      C order, see Model/C20_srtm.v (assign) *)
From Coq Require Import ZArith List Bool String PrimFloat Uint63 SpecFloat FloatOps.
From TyphonGen Require Import C20_tiles.
From Typhon Require Import Model.C20_srtm.
Import ListNotations.
Open Scope Z_scope.

(* ------------------------------------------------------------------ conversions *)

(* an integer as a float (exact for |z| < 2^53; larger values do not occur) *)
Definition fZ (z : Z) : float :=
  if z <? 0 then PrimFloat.opp (PrimFloat.of_uint63 (Uint63.of_Z (- z))) else PrimFloat.of_uint63 (Uint63.of_Z z).

(* what the harness reads back: value = fst * 2 ^ snd; (0, 0) = +0, (0, -1) = -0, (+-1, 9999) = +-inf, (0, 9999) = nan *)
Definition fkey (x : float) : Z * Z :=
  match Prim2SF x with
  | S754_zero s => (0, if s then -1 else 0)
  | S754_infinity s => (if s then -1 else 1, 9999)
  | S754_nan => (0, 9999)
  | S754_finite s m e => (if s then Zneg m else Zpos m, e)
  end.

(* round toward zero / toward +infinity, as integers (0 for non-finite values) *)
Definition trunc_Z (x : float) : Z :=
  match Prim2SF x with
  | S754_finite s m e =>
    let a := if 0 <=? e then Zpos m * 2 ^ e else Zpos m / 2 ^ (- e) in
    if s then - a else a
  | _ => 0
  end.
Definition ceil_Z (x : float) : Z :=
  match Prim2SF x with
  | S754_finite s m e =>
    if 0 <=? e then (if s then - (Zpos m * 2 ^ e) else Zpos m * 2 ^ e)
    else if s then - (Zpos m / 2 ^ (- e)) else - ((- Zpos m) / 2 ^ (- e))
  | _ => 0
  end.

(* np.trunc *)
Definition ftrunc (x : float) : float :=
  match Prim2SF x with
  | S754_finite s m e =>
    if 0 <=? e then x
    else let a := PrimFloat.of_uint63 (Uint63.of_Z (Zpos m / 2 ^ (- e))) in
         if s then PrimFloat.opp a else a
  | _ => x
  end.

(* C fmod(x, 360) for finite x: exact; the result has the sign of x *)
Definition fmod360 (x : float) : float :=
  match Prim2SF x with
  | S754_finite s m e =>
    let a := if 0 <=? e then PrimFloat.of_uint63 (Uint63.of_Z ((Zpos m * 2 ^ e) mod 360))
             else Z.ldexp (PrimFloat.of_uint63 (Uint63.of_Z (Zpos m mod (360 * 2 ^ (- e))))) e in
    if s then PrimFloat.opp a else a
  | _ => x
  end.

(* Python / numpy  x % 360 *)
Definition pymod360 (x : float) : float :=
  let m := fmod360 x in
  if PrimFloat.eqb m 0%float then 0%float
  else if PrimFloat.ltb m 0%float then PrimFloat.add m 360%float else m.

Definition pymax (a b : float) : float := if PrimFloat.ltb a b then b else a.
Definition pymin (a b : float) : float := if PrimFloat.ltb b a then b else a.

(* ------------------------------------------------------------------ numpy vectors *)

Definition farange (a b : float) : list float :=
  let n := ceil_Z (PrimFloat.div (PrimFloat.sub b a) 1%float) in
  let nxt := PrimFloat.add a 1%float in
  let delta := PrimFloat.sub nxt a in
  map (fun k => if k =? 0 then a else if k =? 1 then nxt
                else PrimFloat.add a (PrimFloat.mul (fZ k) delta)) (zrange 0 (Z.to_nat n)).

Definition flinspace (a b : float) (n : Z) : list float :=
  let step := PrimFloat.div (PrimFloat.sub b a) (fZ (n - 1)) in
  map (fun k => if k =? n - 1 then b else PrimFloat.add (PrimFloat.mul (fZ k) step) a) (zrange 0 (Z.to_nat n)).

Definition fmin_list (l : list float) : option float :=
  match l with [] => None | x :: t => Some (fold_left (fun acc y => if PrimFloat.ltb y acc then y else acc) t x) end.
Definition fmax_list (l : list float) : option float :=
  match l with [] => None | x :: t => Some (fold_left (fun acc y => if PrimFloat.ltb acc y then y else acc) t x) end.

(* ------------------------------------------------------------------ class constants *)

(* _dlat = 50.0 / _tile_height;  _dlon = 40.0 / _tile_width       [topography.py:135-136] *)
Definition fdlat : float := PrimFloat.div 50%float (fZ tile_height).
Definition fdlon : float := PrimFloat.div 40%float (fZ tile_width).
Definition fhalf_dlat : float := PrimFloat.mul 0.5%float fdlat.
Definition fhalf_dlon : float := PrimFloat.mul 0.5%float fdlon.

(* ------------------------------------------------------------------ get_native_grids   [topography.py:251-268] *)

Definition fnative_lats (lat_min lat_max : float) : list float :=
  let i := PrimFloat.div (PrimFloat.sub 90%float lat_max) fdlat in
  let i_max := PrimFloat.add (ftrunc i) 1%float in
  let i' := PrimFloat.div (PrimFloat.sub 90%float lat_min) fdlat in
  let t := ftrunc i' in
  let i_min := if PrimFloat.ltb t i' then PrimFloat.add t 1%float else t in
  let c := PrimFloat.add 90%float fhalf_dlat in
  map (fun k => PrimFloat.sub c (PrimFloat.mul k fdlat)) (farange i_max (PrimFloat.add i_min 1%float)).

Definition fnative_lons (lon_min lon_max : float) : list float :=
  let j := PrimFloat.div (PrimFloat.add lon_max 180%float) fdlon in
  let t := ftrunc (PrimFloat.div (PrimFloat.add lon_max 180%float) fdlon) in
  let j_max := if PrimFloat.ltb t j then t else PrimFloat.sub t 1%float in
  let j_min := ftrunc (PrimFloat.div (PrimFloat.add lon_min 180%float) fdlon) in
  let c := PrimFloat.add (PrimFloat.opp 180%float) fhalf_dlon in
  map (fun k => PrimFloat.add c (PrimFloat.mul k fdlon)) (farange j_min (PrimFloat.add j_max 1%float)).

(* the row / column numbers behind the grids (for the comparison with the rational model) *)
Definition fnative_rows (lat_min lat_max : float) : list Z :=
  let i := PrimFloat.div (PrimFloat.sub 90%float lat_max) fdlat in
  let i_max := PrimFloat.add (ftrunc i) 1%float in
  let i' := PrimFloat.div (PrimFloat.sub 90%float lat_min) fdlat in
  let t := ftrunc i' in
  let i_min := if PrimFloat.ltb t i' then PrimFloat.add t 1%float else t in
  map trunc_Z (farange i_max (PrimFloat.add i_min 1%float)).
Definition fnative_cols (lon_min lon_max : float) : list Z :=
  let j := PrimFloat.div (PrimFloat.add lon_max 180%float) fdlon in
  let t := ftrunc (PrimFloat.div (PrimFloat.add lon_max 180%float) fdlon) in
  let j_max := if PrimFloat.ltb t j then t else PrimFloat.sub t 1%float in
  let j_min := ftrunc (PrimFloat.div (PrimFloat.add lon_min 180%float) fdlon) in
  map trunc_Z (farange j_min (PrimFloat.add j_max 1%float)).

(* ------------------------------------------------------------------ get_tiles   [topography.py:182-197, 118-124] *)

Definition fdo_overlap (la0 lo0 la1 lo1 : float) (t : tile) : bool :=
  let lat_min := pymax la0 (fZ (tlat0 t)) in
  let lon_min := pymax lo0 (fZ (tlon0 t)) in
  let lat_max := pymin la1 (fZ (tlat1 t)) in
  let lon_max := pymin lo1 (fZ (tlon1 t)) in
  PrimFloat.ltb lat_min lat_max && PrimFloat.ltb lon_min lon_max.

Definition fget_tiles (la0 lo0 la1 lo1 : float) : list string :=
  let m0 := pymod360 lo0 in
  let lo0' := if PrimFloat.leb 180%float m0 then PrimFloat.sub m0 360%float else m0 in
  let m1 := pymod360 lo1 in
  let lo1' := if PrimFloat.ltb 180%float m1 then PrimFloat.sub m1 360%float else m1 in
  map tname (filter (fdo_overlap la0 lo0' la1 lo1') tiles).

(* ------------------------------------------------------------------ get_grids   [topography.py:224-233] *)

Definition ftile_lats (t : tile) : list float :=
  rev_append (flinspace (PrimFloat.add (fZ (tlat0 t)) fhalf_dlat) (PrimFloat.sub (fZ (tlat1 t)) fhalf_dlat) tile_height) [].
Definition ftile_lons (t : tile) : list float :=
  flinspace (PrimFloat.add (fZ (tlon0 t)) fhalf_dlon) (PrimFloat.sub (fZ (tlon1 t)) fhalf_dlon) tile_width.

(* ------------------------------------------------------------------ elevation   [topography.py:345-373] *)

Definition fin_mask (lo hi : float) (xs : list float) : list bool :=
  map (fun x => PrimFloat.leb lo x && PrimFloat.ltb x hi) xs.

(* per fetched tile: name, selected source rows and columns, selected destination rows and columns *)
Definition tilesel := (string * list Z * list Z * list Z * list Z)%type.

Definition fblock (lats_d lons_d : list float) : option (float * float * float * float) :=
  match fmin_list lats_d, fmax_list lats_d, fmin_list lons_d, fmax_list lons_d with
  | Some a, Some b, Some c, Some d =>
    Some (PrimFloat.sub a fhalf_dlat, PrimFloat.sub c fhalf_dlon, PrimFloat.add b fhalf_dlat, PrimFloat.add d fhalf_dlon)
  | _, _, _, _ => None
  end.

Definition fselect (blk : float * float * float * float) (lats_d lons_d : list float) (name : string)
  : option tilesel :=
  match find_tile name with
  | None => None
  | Some t =>
    let '(lat_min, lon_min, lat_max, lon_max) := blk in
    Some (name,
          nonzero (fin_mask lat_min lat_max (ftile_lats t)),
          nonzero (fin_mask lon_min lon_max (ftile_lons t)),
          nonzero (fin_mask (fZ (tlat0 t)) (fZ (tlat1 t)) lats_d),
          nonzero (fin_mask (fZ (tlon0 t)) (fZ (tlon1 t)) lons_d))
  end.

(* first, last, count, contiguous? *)
Definition zsum (l : list Z) : list Z :=
  match l with [] => [0; 0; 0; 1] | x :: _ => [x; last l x; zlen l; if steps 1 l then 1 else 0] end.

Fixpoint index_of (x : Z) (k : Z) (l : list Z) : option Z :=
  match l with [] => None | y :: t => if x =? y then Some k else index_of x (k + 1) t end.

(* elevation[inds_d] = dem[inds_s], read back at the cell (i, j): the position of (i, j) among the selected
   destination cells (C order) picks the source value with the same position; a later tile overwrites *)
Definition cell_from (dem : string -> Z -> Z -> Z) (s : tilesel) (ia jb : option Z) (old : Z) : Z :=
  let '(name, rs, cs, rd, cd) := s in
  match ia, jb with
  | Some a, Some b =>
    let k := a * zlen cd + b in
    let w := zlen cs in
    dem name (nth (Z.to_nat (k / w)) rs 0) (nth (Z.to_nat (k mod w)) cs 0)
  | _, _ => old
  end.

Definition paint (dem : string -> Z -> Z -> Z) (rsel csel : list Z) (m : list (list Z)) (s : tilesel) : list (list Z) :=
  let '(name, rs, cs, rd, cd) := s in
  let ras := map (fun i => index_of i 0 rd) rsel in
  let cbs := map (fun j => index_of j 0 cd) csel in
  map (fun p => map (fun q => cell_from dem s (fst p) (fst q) (snd q)) (combine cbs (snd p))) (combine ras m).

Inductive fstatus := FOk | FEmpty | FUnknownTile | FShape.

(* status, lat keys, lon keys, row numbers, column numbers, fetched tiles, per-tile selections (summaries),
   values at the cells rsel x csel *)
Definition frun_elevation (origin : list (string * (Z * Z))) (rsel csel : list Z) (la0 lo0 la1 lo1 : float) :=
  let lats := fnative_lats la0 la1 in
  let lons := fnative_lons lo0 lo1 in
  let rows := fnative_rows la0 la1 in
  let cols := fnative_cols lo0 lo1 in
  match fblock lats lons with
  | None => (FEmpty, map fkey lats, map fkey lons, rows, cols, @nil string, @nil (list (list Z)), @nil (list Z))
  | Some blk =>
    let '(b0, b1, b2, b3) := blk in
    let names := fget_tiles b0 b1 b2 b3 in
    let sels := map (fselect blk lats lons) names in
    let good := flat_map (fun o => match o with Some s => [s] | None => [] end) sels in
    let st := if negb (Nat.eqb (List.length good) (List.length names)) then FUnknownTile
              else if forallb (fun s => let '(_, rs, cs, rd, cd) := s in zlen rs * zlen cs =? zlen rd * zlen cd) good
                   then FOk else FShape in
    let zero := map (fun _ => map (fun _ => 0) csel) rsel in
    (st, map fkey lats, map fkey lons, rows, cols, names,
     map (fun s => let '(_, rs, cs, rd, cd) := s in [zsum rs; zsum cs; zsum rd; zsum cd]) good,
     match st with FOk => fold_left (paint (dem_of origin) rsel csel) good zero | _ => [] end)
  end.

(* ------------------------------------------------------------------ evaluation helpers (correspondence) *)

Fixpoint zlist_same (a b : list Z) : bool :=
  match a, b with
  | [], [] => true
  | x :: a', y :: b' => (x =? y) && zlist_same a' b'
  | _, _ => false
  end.

(* one elevation request: the binary64 model on the corners (la0, lo0, la1, lo1), compared inside Coq with the
   rational model on `r` (the exact rationals of the same doubles) and with the implementation's cells `z` at
   rsel x csel.  Result:  status, lat keys, lon keys, [rows; cols] (first, last, count, contiguous),
   [same rows as the rational model?; same columns?], fetched tiles, per-tile selections, cells that differ *)
Definition fcompare (origin : list (string * (Z * Z))) (rsel csel : list Z) (z : list (list Z)) (r : rect)
           (la0 lo0 la1 lo1 : float) :=
  let '(st, lak, lok, rows, cols, names, sels, m) := frun_elevation origin rsel csel la0 lo0 la1 lo1 in
  (st, lak, lok, [zsum rows; zsum cols],
   [zlist_same (map lat_hc rows) (native_lats r); zlist_same (map lon_hc cols) (native_lons r)],
   names, sels, match st with FOk => diff m z | _ => [] end).

(* get_grids of a tile and get_native_grids of its bounds at the positions ilat / ilon, as keys *)
Definition fpick (l : list float) (idx : list Z) : list (Z * Z) :=
  map (fun k => fkey (nth (Z.to_nat k) l PrimFloat.nan)) idx.
Definition fgrids (name : string) (ilat ilon : list Z) :=
  match find_tile name with
  | Some t => [fpick (ftile_lats t) ilat; fpick (ftile_lons t) ilon;
               fpick (fnative_lats (fZ (tlat0 t)) (fZ (tlat1 t))) ilat;
               fpick (fnative_lons (fZ (tlon0 t)) (fZ (tlon1 t))) ilon]
  | None => []
  end.
