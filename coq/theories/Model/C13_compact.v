(* C13 -- executable model of the compact collocation format:
     typhon/collocations/collocator.py  _create_return (compaction, 1071-1090), concat_collocations (1438-1479)
     typhon/collocations/common.py      _rows_for_secondaries (221-234), collapse (398-425), expand (430-472)
   Nothing but definitions: the model must stay runnable when a proof breaks.
   Indices are positions in lists (nat); data values are an arbitrary type A (a scalar, or a vector /
   cube of channels for variables with extra dimensions; a data NaN is just one of the values of A).
   A NaN *padding* cell of the bin matrix is None. *)
From Coq Require Import String.          (* before List: `length`, `concat` below are the list functions *)
From Coq Require Import Arith List Bool ZArith.
Import ListNotations.

(* array assignment  l[k] = v  (out of range: numpy raises; the theorems state the range as a guard) *)
Fixpoint upd {A : Type} (k : nat) (v : A) (l : list A) : list A :=
  match l, k with
  | [], _ => []
  | _ :: t, O => v :: t
  | h :: t, S k' => h :: upd k' v t
  end.

(* number of occurrences *)
Fixpoint cnt (c : nat) (l : list nat) : nat :=
  match l with [] => 0 | x :: t => (if x =? c then 1 else 0) + cnt c t end.

(* ------------------------------------------------------------------ compaction (_create_return)
   original_indices = pd.unique(original_pairs[i])           distinct values, order of first appearance
   new_indices = np.empty(max+1); new_indices[original_indices] = arange(size)
   collocation_indices = new_indices[original_pairs[i]]                                          *)
Fixpoint uniq (l : list nat) : list nat :=
  match l with
  | [] => []
  | x :: t => x :: filter (fun y => negb (y =? x)) (uniq t)
  end.

(* tb[idx] = vals, element by element *)
Definition scatter (tb idx vals : list nat) : list nat :=
  fold_left (fun t iv => upd (fst iv) (snd iv) t) (combine idx vals) tb.

(* np.empty is modelled by zeros; lemma new_indices_spec shows that no unwritten slot is ever read *)
Definition new_indices (u : list nat) : list nat :=
  scatter (repeat 0 (S (list_max u))) u (seq 0 (length u)).

(* one row of original_pairs -> (stored original points, new pair indices) *)
Definition compact (raw : list nat) : list nat * list nat :=
  let u := uniq raw in (u, map (fun v => nth v (new_indices u) 0) raw).

(* ------------------------------------------------------------------ compact datasets *)
Record cds (A B : Type) : Type := mk_cds {
  prow : list nat;      (* Collocations/pairs[0] *)
  srow : list nat;      (* Collocations/pairs[1] *)
  pvals : list A;       (* a variable of the primary group, one value per stored primary point *)
  svals : list B        (* a variable of the secondary group *)
}.
Arguments mk_cds {A B}. Arguments prow {A B}. Arguments srow {A B}. Arguments pvals {A B}. Arguments svals {A B}.

(* the invariant of the property's first sentence, for one row of pairs and n stored points *)
Definition row_ok (n : nat) (row : list nat) : Prop :=
  Forall (fun i => i < n) row /\ (forall i, i < n -> In i row).
Definition row_okb (n : nat) (row : list nat) : bool :=
  forallb (fun i => i <? n) row && forallb (fun i => existsb (Nat.eqb i) row) (seq 0 n).

Definition compact_ok {A B} (d : cds A B) : Prop :=
  length (prow d) = length (srow d) /\ row_ok (length (pvals d)) (prow d) /\ row_ok (length (svals d)) (srow d).
Definition compact_okb {A B} (d : cds A B) : bool :=
  (length (prow d) =? length (srow d)) && row_okb (length (pvals d)) (prow d) && row_okb (length (svals d)) (srow d).

(* ------------------------------------------------------------------ _rows_for_secondaries
   current_row = zeros(primary.size); for p in primary: rows[i] = current_row[p]; current_row[p] += 1
   (the numba variant is numba.jit of the very same function) *)
Fixpoint rows_loop (cur : list nat) (prim : list nat) : list nat :=
  match prim with
  | [] => []
  | p :: t => nth p cur 0 :: rows_loop (upd p (S (nth p cur 0)) cur) t
  end.
Definition rows_for (prim : list nat) : list nat := rows_loop (repeat 0 (length prim)) prim.

(* ------------------------------------------------------------------ the NaN-padded bin matrix of collapse
   binned = full([max(rows)+1, unique(prim).size, extra...], nan); binned[rows, prim] = vals
   The matrix is kept as the list of its columns (index [row, column] of numpy = nth row (nth column m));
   the collapser functions are applied along axis 0, i.e. to each column. *)
Section Bins.
  Context {A : Type}.
  Definition matrix := list (list (option A)).
  Definition empty_matrix (nrows ncols : nat) : matrix := repeat (repeat None nrows) ncols.
  Definition set_cell (r c : nat) (v : A) (m : matrix) : matrix := upd c (upd r (Some v) (nth c m [])) m.
  Fixpoint fill (m : matrix) (rows prim : list nat) (vals : list A) : matrix :=
    match rows, prim, vals with
    | r :: rt, p :: pt, v :: vt => fill (set_cell r p v m) rt pt vt
    | _, _, _ => m
    end.
  Definition bin_matrix (prim : list nat) (vals : list A) : matrix :=
    let rows := rows_for prim in
    fill (empty_matrix (S (list_max rows)) (length (uniq prim))) rows prim vals.
  Definition column (m : matrix) (c : nat) : list (option A) := nth c m [].
  (* what a NaN-ignoring function sees of a column *)
  Definition somes (l : list (option A)) : list A :=
    flat_map (fun o => match o with Some v => [v] | None => [] end) l.

  (* specification: the values paired with reference point c, in pair order *)
  Definition partners (prim : list nat) (vals : list A) (c : nat) : list A :=
    map snd (filter (fun pv => fst pv =? c) (combine prim vals)).

  (* isel(collocation=idx) *)
  Definition gather (d : A) (idx : list nat) (vals : list A) : list A := map (fun i => nth i vals d) idx.

  (* collapse of one variable of the non-reference group: refrow = pairs[reference], otherrow = the other row *)
  Definition collapse_model (d : A) (refrow otherrow : list nat) (vals : list A) : matrix :=
    bin_matrix refrow (gather d otherrow vals).
  (* specification: values of the partner points of reference point c *)
  Definition partner_points (refrow otherrow : list nat) (c : nat) : list nat :=
    map snd (filter (fun ij => fst ij =? c) (combine refrow otherrow)).
End Bins.

(* ------------------------------------------------------------------ the collapser functions
   for func_name, func in collapser.items(): collapsed[f"{var_name}_{func_name}"] = func(binned_data, 0)
   A data value is an arbitrary type A (all lanes of the extra dimensions of one point); lane f : A -> option X
   reads one scalar of it, None = NaN.  numpy does not tell the NaN padding from a NaN in the data: what a
   collapser function sees of lane f of a cell is `cell_view f`. *)
Definition cell_view {A X : Type} (f : A -> option X) (o : option A) : option X :=
  match o with Some a => f a | None => None end.
(* np.count_nonzero(~np.isnan(m), axis=0) *)
Definition count {X : Type} (l : list (option X)) : nat := length (somes l).

(* python dictionaries with string keys, in insertion order *)
Section Dict.
  Context {V : Type}.
  Definition dict := list (string * V).
  Fixpoint lookup (k : string) (d : dict) : option V :=
    match d with
    | [] => None
    | kv :: t => if String.eqb k (fst kv) then Some (snd kv) else lookup k t
    end.
  Definition has_key (k : string) (d : dict) : bool :=
    match lookup k d with Some _ => true | None => false end.
  (* {**defaults, **custom}: the keys of `defaults` keep their place and take the custom value if there is one,
     the new keys follow in their own order *)
  Definition merge (defaults custom : dict) : dict :=
    map (fun kv => (fst kv, match lookup (fst kv) custom with Some v => v | None => snd kv end)) defaults
    ++ filter (fun kv => negb (has_key (fst kv) defaults)) custom.
End Dict.
Arguments dict : clear implicits.

(* collapser = {"mean": ..., "std": ..., "number": ..., **collapser}: the names of the output fields of a call
   (Model/C13_stats.v gives the three functions; effective_names there shows that these are their names) *)
Definition default_names : list string := ["mean"%string; "std"%string; "number"%string].
Definition collapser_names (custom : list string) : list string :=
  map fst (merge (map (fun k => (k, tt)) default_names) (map (fun k => (k, tt)) custom)).

(* ------------------------------------------------------------------ expand
   dataset.isel(primary/collocation = pairs[0]).isel(secondary/collocation = pairs[1]), then both
   dimensions are renamed to the common dimension "collocation": row k holds both selections. *)
Definition expand {A B} (da : A) (db : B) (d : cds A B) : list (A * B) :=
  combine (gather da (prow d) (pvals d)) (gather db (srow d) (svals d)).

(* ------------------------------------------------------------------ concat_collocations
   primary_size = secondary_size = 0
   for obj: pairs[0] += primary_size; pairs[1] += secondary_size; sizes += obj.dims[...]
   every group is concatenated along its own collocation dimension *)
Fixpoint shifted_rows {A B} (po so : nat) (ds : list (cds A B)) : list nat * list nat :=
  match ds with
  | [] => ([], [])
  | d :: t =>
      let r := shifted_rows (po + length (pvals d)) (so + length (svals d)) t in
      (map (Nat.add po) (prow d) ++ fst r, map (Nat.add so) (srow d) ++ snd r)
  end.
Definition concat_c {A B} (ds : list (cds A B)) : cds A B :=
  let r := shifted_rows 0 0 ds in
  mk_cds (fst r) (snd r) (flat_map pvals ds) (flat_map svals ds).

(* ------------------------------------------------------------------ the width of the index type
   The indices of this model are naturals: nothing above depends on how many bits Collocations/pairs has.  The code does
   the shift in place (`pairs[0, :] += primary_size`), i.e. in the integer type the array already has (int64 as the code
   is: np.array(pairs, dtype=int)).  concat_w W is the same concatenation with the shifted indices taken in a type of W
   values (W = 2^8, 2^16, ..., 2^63), wrapping modulo W as an in-place numpy addition on an unsigned array does.
   Theorems concat_width_is_mod / concat_fits_width_iff (Props/C13.v): concat_w W = concat_c exactly when the running
   totals of stored points fit into W -- so for W = 2^63 the model above IS the code, and a type chosen for the single
   datasets (fewer than W points each) is not good enough for the concatenation. *)
Fixpoint shifted_rows_w {A B} (W po so : nat) (ds : list (cds A B)) : list nat * list nat :=
  match ds with
  | [] => ([], [])
  | d :: t =>
      let r := shifted_rows_w W (po + length (pvals d)) (so + length (svals d)) t in
      (map (fun i => (po + i) mod W) (prow d) ++ fst r, map (fun j => (so + j) mod W) (srow d) ++ snd r)
  end.
Definition concat_w {A B} (W : nat) (ds : list (cds A B)) : cds A B :=
  let r := shifted_rows_w W 0 0 ds in
  mk_cds (fst r) (snd r) (flat_map pvals ds) (flat_map svals ds).

(* ------------------------------------------------------------------ the law of the property's first sentence, per group
   raw = one row of original_pairs (positions of the collocated points in the original data), stored = the original
   positions of the points kept in the compact dataset (dataset.isel(collocation=original_indices)), idx = the row of
   Collocations/pairs: the compact dataset holds exactly the collocated points, each once; the pairs are valid indices,
   every stored point takes part in a pair, and every pair still names its original point.  The ORDER of the stored
   points is not fixed (first appearance in the code as it is; sorted would do as well, with the pairs that belong to it). *)
Definition consistent (raw stored idx : list nat) : Prop :=
  NoDup stored /\ (forall v, In v stored <-> In v raw) /\
  length idx = length raw /\ row_ok (length stored) idx /\
  map (fun i => nth i stored 0) idx = raw.

(* the same, decided (check_compaction below evaluates exactly these tests for both groups) *)
Definition consistentb (raw stored idx : list nat) : bool :=
  row_okb (length stored) idx && (length idx =? length raw)
  && forallb (fun ab => fst ab =? snd ab) (combine (gather 0 idx stored) raw)
  && (length stored =? length (uniq raw)).

(* the dataset _create_return builds from the raw pairs and the data of the two original datasets:
   output[name] = dataset.isel(collocation=original_indices), pairs = the new indices *)
Definition create_return {A B} (da : A) (db : B) (rawp raws : list nat) (pdata : list A) (sdata : list B) : cds A B :=
  let cp := compact rawp in let cs := compact raws in
  mk_cds (snd cp) (snd cs) (gather da (fst cp) pdata) (gather db (fst cs) sdata).

(* ------------------------------------------------------------------ helpers for the correspondence
   (evaluated by vm_compute on generated cases; numbers cross the boundary as Z) *)
Definition zs (l : list nat) : list Z := map Z.of_nat l.
Definition ns (l : list Z) : list nat := map Z.to_nat l.

(* compaction of one raw row: stored points, new indices, and the property-level verdicts *)
Definition run_compact (raw : list Z) : list Z * list Z :=
  let c := compact (ns raw) in (zs (fst c), zs (snd c)).

(* certified checker applied to what the implementation returned:
   raw pair rows, stored original ids per group, new pair rows *)
Definition check_compaction (rawp raws idp ids newp news : list Z) : bool * bool * bool :=
  let d := mk_cds (ns newp) (ns news) (ns idp) (ns ids) in
  (compact_okb d,
   (* the pairs still name the same original points *)
   forallb (fun ab => Nat.eqb (fst ab) (snd ab)) (combine (gather 0 (ns newp) (ns idp)) (ns rawp))
   && forallb (fun ab => Nat.eqb (fst ab) (snd ab)) (combine (gather 0 (ns news) (ns ids)) (ns raws))
   && (length newp =? length rawp) && (length news =? length raws),
   (* every original point is stored once *)
   Nat.eqb (length idp) (length (uniq (ns rawp))) && Nat.eqb (length ids) (length (uniq (ns raws)))).

(* one compact dataset with ids as values: np, ns stored points *)
Definition ids_cds (np nsec : Z) (pr sr : list Z) : cds nat nat :=
  mk_cds (ns pr) (ns sr) (seq 0 (Z.to_nat np)) (seq 0 (Z.to_nat nsec)).

Definition expand_ids (d : cds nat nat) : list (list Z) :=
  map (fun ab => [Z.of_nat (fst ab); Z.of_nat (snd ab)]) (expand 0 0 d).
(* specification of expand, written out: row k = (value at pairs[0][k], value at pairs[1][k]) *)
Definition expand_spec_ids (d : cds nat nat) : list (list Z) :=
  map (fun k => [Z.of_nat (nth (nth k (prow d) 0) (pvals d) 0); Z.of_nat (nth (nth k (srow d) 0) (svals d) 0)])
      (seq 0 (length (prow d))).

(* collapse onto the reference group (false = primary, true = secondary):
   model: non-padding cells of every column + (height, number of columns, all columns of that height);
   spec: partner ids per reference point *)
Definition run_collapse (d : cds nat nat) (ref_secondary : bool)
  : list (list Z) * list (list Z) * (Z * Z * bool) :=
  let refrow := if ref_secondary then srow d else prow d in
  let otherrow := if ref_secondary then prow d else srow d in
  let othervals := if ref_secondary then pvals d else svals d in
  let nref := if ref_secondary then length (svals d) else length (pvals d) in
  let m := collapse_model 0 refrow otherrow othervals in
  let h := S (list_max (rows_for refrow)) in
  (map (fun col => zs (somes col)) m,
   map (fun c => zs (gather 0 (partner_points refrow otherrow c) othervals)) (seq 0 nref),
   (Z.of_nat h, Z.of_nat (length m), forallb (fun col => length col =? h) m)).

(* the same with <var>_number and the NaN-ness of <var>_mean / <var>_std, exactly: the harness hands over the validity
   flags of the other group's variable (one list of flags per stored point, one flag per lane of the extra
   dimensions); every stored point of the other group carries (id, flags) through ONE bin matrix (theorem bins_lanes:
   the lanes fst / snd of it are the bin matrices of the ids and of the flags).
   model: ids and, per lane j, the count of valid cells of every column; spec: the same over the partner points.
   Theorem collapse_number_by_mask: counting flags is counting the non-NaN real values. *)
Definition mask_lane (j : nat) (a : list bool) : option unit := if nth j a false then Some tt else None.
Definition run_collapse_m (d : cds nat nat) (ref_secondary : bool) (masks : list (list bool)) (nlanes : Z)
  : list (list Z) * list (list Z) * (Z * Z * bool) * list (list Z) * list (list Z) :=
  let refrow := if ref_secondary then srow d else prow d in
  let otherrow := if ref_secondary then prow d else srow d in
  let othervals := if ref_secondary then pvals d else svals d in
  let nref := if ref_secondary then length (svals d) else length (pvals d) in
  let lanes := seq 0 (Z.to_nat nlanes) in
  let m := collapse_model (0, []) refrow otherrow (combine othervals masks) in
  let h := S (list_max (rows_for refrow)) in
  let pp := map (partner_points refrow otherrow) (seq 0 nref) in
  (map (fun col => zs (map fst (somes col))) m,
   map (fun p => zs (gather 0 p othervals)) pp,
   (Z.of_nat h, Z.of_nat (length m), forallb (fun col => length col =? h) m),
   map (fun col => map (fun j => Z.of_nat (count (map (cell_view (fun a : nat * list bool => mask_lane j (snd a))) col))) lanes) m,
   map (fun p => map (fun j => Z.of_nat (count (map (mask_lane j) (gather [] p masks)))) lanes) pp).

Definition run_dataset_m (np nsec : Z) (pr sr : list Z) (masks_p : list (list bool)) (lanes_p : Z)
    (masks_s : list (list bool)) (lanes_s : Z) :=
  let d := ids_cds np nsec pr sr in
  (compact_okb d, expand_ids d, expand_spec_ids d,
   run_collapse_m d false masks_s lanes_s, run_collapse_m d true masks_p lanes_p).

Definition run_dataset (np nsec : Z) (pr sr : list Z) :=
  let d := ids_cds np nsec pr sr in
  (compact_okb d, expand_ids d, expand_spec_ids d, run_collapse d false, run_collapse d true).

(* concatenation: ids of dataset k are made globally unique by the harness (it passes the id lists) *)
Definition mk_ids (pr sr pid sid : list Z) : cds nat nat := mk_cds (ns pr) (ns sr) (ns pid) (ns sid).
Definition run_concat (ds : list (cds nat nat)) : bool * list (list Z) * list (list Z) * (list Z * list Z) :=
  let c := concat_c ds in
  (forallb compact_okb ds && compact_okb c,
   expand_ids c,
   flat_map expand_ids ds,
   (zs (prow c), zs (srow c))).
