#!/bin/bash
# Runs the pinned test suite of /repo with the verification guard OFF and compares with BASELINE.json.
unset TYPHON_VERIF
out=$(mktemp -d)
cd "${VERIF_REPO:-/repo}" && /venv/bin/python -m pytest -ra -q -p no:cacheprovider --timeout=900 \
   --continue-on-collection-errors --junitxml="$out/junit.xml" > "$out/log" 2>&1
/venv/bin/python - "$out/junit.xml" <<'PY'
import json, sys, xml.etree.ElementTree as ET
base = set(json.load(open('/root/.vp/BASELINE.json'))['stable_pass'])
passed = set()
for tc in ET.parse(sys.argv[1]).getroot().iter('testcase'):
    if not any(ch.tag in ('failure', 'error', 'skipped') for ch in tc):
        passed.add(f"{tc.get('classname')}::{tc.get('name')}")
missing = sorted(base - passed)
print(f"baseline: {len(base & passed)}/{len(base)} stable tests pass; newly passing: {len(passed - base)}")
for m in missing:
    print("MISSING", m)
sys.exit(1 if missing else 0)
PY
rc=$?
rm -rf "$out"
exit $rc
