"""Shared machinery of the typhon verification checks.

Everything a per-property module (tools/props/cxx.py) needs:

* locating the tree under test (VERIF_REPO, default /repo) and importing typhon from it,
* the source gate (no Admitted/Axiom/... anywhere in the Coq development),
* an incremental, lock-protected Coq builder (coqdep + coqc, full .vo files, no -vos),
* compiling a property's Props/Cxx.v on every run and parsing `Print Assumptions`,
* evaluating generated case files inside Coq (vm_compute) in parallel shards,
* a parser for the terms Coq prints,
* failures, known findings, replay files, VIOLATION / KNOWN-FINDING lines, evidence.
"""
import fcntl
import hashlib
import json
import os
import random
import re
import subprocess
import sys
import time
from concurrent.futures import ThreadPoolExecutor
from pathlib import Path

VERIF = Path(__file__).resolve().parents[2]
# the Coq development; VERIF_COQ points a run against another tree (a seeded change, a mutant) to a private copy, so that
# its regenerated coq/gen and the .vo files built on it never meet those of the runs against /repo
COQ = Path(os.environ.get("VERIF_COQ", VERIF / "coq"))
THEORIES = COQ / "theories"
GEN = COQ / "gen"
# scratch of a run (cases, logs, replay files); VERIF_BUILD lets a second run of the same property (mutant validation, a
# builder working beside the registered runs) use a directory of its own
BUILD = Path(os.environ.get("VERIF_BUILD", VERIF / "build"))
# evidence of runs against /repo goes to evidence/; runs against another tree (VERIF_REPO=..., seeded changes) must not
# overwrite it: tools/seedtest.sh points VERIF_EVIDENCE to a scratch directory
EVIDENCE = Path(os.environ.get("VERIF_EVIDENCE", VERIF / "evidence"))
REPO = Path(os.environ.get("VERIF_REPO", "/repo")).resolve()
PY = "/venv/bin/python"
def _default_jobs():
    """16 parallel coqc shards on an idle machine; fewer when the machine is already busy (several checks at once)."""
    try:
        load = os.getloadavg()[0]
    except OSError:
        load = 0.0
    return 16 if load < 12 else (8 if load < 32 else 5)


NPROC = int(os.environ.get("VERIF_JOBS", _default_jobs()))
COQ_ARGS = ["-Q", str(THEORIES), "Typhon", "-Q", str(GEN), "TyphonGen"]

FORBIDDEN = re.compile(
    r"\b(Admitted|admit|Axiom|Axioms|Parameter|Parameters|Conjecture|Conjectures|"
    r"Admit\s+Obligations|bypass_check|Unset\s+Guard\s+Checking|Unset\s+Positivity\s+Checking|"
    r"Unset\s+Universe\s+Checking|native_compute|type-in-type|impredicative-set)\b")
# `Variable`/`Hypothesis`/`Context` are allowed only inside a Section (checked below).
SECTIONAL = re.compile(r"^\s*(Variable|Variables|Hypothesis|Hypotheses|Context)\b")


def use_repo():
    """Make `import typhon` resolve to the tree under test."""
    sys.path[:] = [p for p in sys.path if Path(p or ".").resolve() != REPO]
    sys.path.insert(0, str(REPO))
    os.environ["PYTHONPATH"] = str(REPO)
    os.environ.setdefault("PYTHONHASHSEED", "0")
    os.environ.setdefault("TYPHON_VERIF", "1")
    import warnings
    warnings.filterwarnings("ignore")


def repo_head():
    try:
        h = subprocess.run(["git", "-C", str(REPO), "rev-parse", "--short", "HEAD"],
                           capture_output=True, text=True).stdout.strip()
        d = subprocess.run(["git", "-C", str(REPO), "status", "--porcelain", "--untracked-files=no"],
                           capture_output=True, text=True).stdout.strip()
        return h + ("+dirty" if d else "")
    except Exception:
        return "unknown"


# --------------------------------------------------------------------------- gate

def strip_comments(text):
    out, depth, i = [], 0, 0
    while i < len(text):
        if text.startswith("(*", i):
            depth += 1
            i += 2
        elif text.startswith("*)", i) and depth:
            depth -= 1
            i += 2
        else:
            if not depth:
                out.append(text[i])
            elif text[i] == "\n":
                out.append("\n")
            i += 1
    return "".join(out)


def gate(files=None):
    """Return a list of 'file:line: text' for forbidden constructs."""
    bad = []
    if files is None:
        files = sorted(THEORIES.rglob("*.v")) + sorted(GEN.glob("*.v"))
    for f in files:
        try:
            text = strip_comments(Path(f).read_text())
        except FileNotFoundError:
            continue
        depth = 0
        for n, line in enumerate(text.splitlines(), 1):
            if re.match(r"^\s*(Section|Module\s+Type)\b", line):
                depth += 1
            elif re.match(r"^\s*End\b", line) and depth:
                depth -= 1
            code = re.sub(r'"[^"]*"', '""', line)
            if FORBIDDEN.search(code):
                bad.append(f"{f}:{n}: {line.strip()}")
            if SECTIONAL.match(code) and depth == 0:
                bad.append(f"{f}:{n}: section-less {line.strip()}")
    return bad


# --------------------------------------------------------------------------- Coq builder

def _logical_to_path(name):
    parts = name.split(".")
    if parts[0] == "Typhon":
        return THEORIES.joinpath(*parts[1:]).with_suffix(".v")
    if parts[0] == "TyphonGen":
        return GEN.joinpath(*parts[1:]).with_suffix(".v")
    return None


def _deps(vfile, cache):
    vfile = Path(vfile)
    if vfile in cache:
        return cache[vfile]
    r = subprocess.run(["coqdep", *COQ_ARGS, str(vfile)], capture_output=True, text=True)
    deps = []
    m = re.search(r"\.vo[^:]*:\s*(.*)", r.stdout.replace("\\\n", " "))
    if m:
        for tok in m.group(1).split():
            if tok.endswith(".vo"):
                p = Path(tok[:-1])
                if p.resolve() != vfile.resolve() and (str(p).startswith(str(THEORIES)) or str(p).startswith(str(GEN))):
                    deps.append(p.resolve())
    cache[vfile] = deps
    return deps


def _topo(targets):
    cache, order, seen = {}, [], set()

    def visit(v):
        v = Path(v).resolve()
        if v in seen:
            return
        seen.add(v)
        for d in _deps(v, cache):
            visit(d)
        order.append(v)
    for t in targets:
        visit(t)
    return order, cache


def _big_stack():
    """coqc parses large list literals recursively (a 60 000-element distance matrix overflows the default 8 MiB stack):
    raise the soft stack limit of the child to the hard limit."""
    try:
        import resource
        soft, hard = resource.getrlimit(resource.RLIMIT_STACK)
        resource.setrlimit(resource.RLIMIT_STACK, (hard, hard))
    except Exception:  # noqa
        pass


def coqc(vfile, timeout=900, extra=()):
    """Run coqc on one file under a shell-level timeout. Returns (rc, stdout+stderr)."""
    cmd = ["timeout", str(timeout), "coqc", *COQ_ARGS, *extra, str(vfile)]
    r = subprocess.run(cmd, capture_output=True, text=True, cwd=str(Path(vfile).parent), preexec_fn=_big_stack)
    return r.returncode, r.stdout + r.stderr


def coq_build(targets, timeout=900, force=()):
    """Bring the .vo of every target (and what it depends on) up to date.

    Returns (ok, log, outputs) where outputs maps a compiled file to coqc's output.
    `force` lists files that are recompiled even when up to date.
    """
    targets = [Path(t) if Path(t).is_absolute() else THEORIES / t for t in targets]
    force = {(Path(t) if Path(t).is_absolute() else THEORIES / t).resolve() for t in force}
    order, cache = _topo(targets)
    log, outputs = [], {}
    for v in order:
        vo = v.with_suffix(".vo")
        lock = v.with_suffix(".lock")
        with open(lock, "w") as lf:
            fcntl.flock(lf, fcntl.LOCK_EX)
            try:
                stale = v in force or not vo.exists() or vo.stat().st_mtime < v.stat().st_mtime
                if not stale:
                    for d in cache[v]:
                        dvo = d.with_suffix(".vo")
                        if not dvo.exists() or dvo.stat().st_mtime > vo.stat().st_mtime:
                            stale = True
                            break
                if stale:
                    t0 = time.time()
                    rc, out = coqc(v, timeout)
                    outputs[v] = out
                    log.append(f"coqc {v.relative_to(COQ)} rc={rc} {time.time()-t0:.1f}s")
                    if rc != 0:
                        if vo.exists():
                            vo.unlink()
                        log.append(out[-4000:])
                        return False, "\n".join(log), outputs
            finally:
                fcntl.flock(lf, fcntl.LOCK_UN)
        try:
            lock.unlink()
        except OSError:
            pass
    return True, "\n".join(log), outputs


def parse_props_output(out):
    """Split the output of a Props file into {theorem: [axioms]} using the
    `Print Assumptions thm.` blocks (each preceded by an idtac-free marker we print
    with `Check thm.` is not needed: Coq prints either 'Closed under the global context'
    or 'Axioms:' followed by the list)."""
    blocks = re.split(r"(?m)^(?=Closed under the global context|Axioms:)", out)
    res = []
    for b in blocks:
        if b.startswith("Closed under"):
            res.append([])
        elif b.startswith("Axioms:"):
            names = re.findall(r"(?m)^([A-Za-z_][\w.']*)\s*:", b[len("Axioms:"):])
            res.append(sorted(set(n for n in names if n not in ("Warning", "File", "Error"))))
    return res


def props_theorems(props_file):
    text = strip_comments(Path(props_file).read_text())
    thms = re.findall(r"(?m)^\s*(?:Theorem|Corollary)\s+([\w']+)", text)
    printed = re.findall(r"(?m)^\s*Print\s+Assumptions\s+([\w'.]+)\s*\.", text)
    return thms, printed


# --------------------------------------------------------------------------- Coq term parser

_TOK = re.compile(r'\s*(?:("(?:[^"]|"")*")|([\[\]\(\);,])|(-?\d+)|([A-Za-z_][\w\.\']*)|(%[a-zA-Z_]+))')


def parse_term(s):
    """Parse a printed Coq value made of numbers, booleans, strings, lists, tuples, options
    and applied constructors into Python (lists, tuples, ints, bools, str, None, ('Ctor', args...))."""
    toks = []
    pos = 0
    s = s.strip()
    while pos < len(s):
        m = _TOK.match(s, pos)
        if not m:
            raise ValueError(f"cannot tokenise at {s[pos:pos+40]!r}")
        pos = m.end()
        if m.group(5):
            continue  # scope delimiters
        toks.append(m.group(1) or m.group(2) or m.group(3) or m.group(4))
    i = 0

    def atom():
        nonlocal i
        t = toks[i]
        if t == "[":
            i += 1
            xs = []
            if toks[i] == "]":
                i += 1
                return xs
            while True:
                xs.append(expr())
                if toks[i] == ";":
                    i += 1
                    continue
                if toks[i] == "]":
                    i += 1
                    return xs
                raise ValueError("list syntax")
        if t == "(":
            i += 1
            xs = [expr()]
            while toks[i] == ",":
                i += 1
                xs.append(expr())
            if toks[i] != ")":
                raise ValueError("tuple syntax")
            i += 1
            return xs[0] if len(xs) == 1 else tuple(xs)
        i += 1
        if t.startswith('"'):
            return t[1:-1].replace('""', '"')
        if re.fullmatch(r"-?\d+", t):
            return int(t)
        if t == "true":
            return True
        if t == "false":
            return False
        if t == "None":
            return None
        return ("#", t)

    def expr():
        nonlocal i
        head = atom()
        if isinstance(head, tuple) and len(head) == 2 and head[0] == "#":
            args = []
            while i < len(toks) and toks[i] not in ("]", ")", ";", ","):
                args.append(atom())
            name = head[1]
            if name == "Some" and len(args) == 1:
                return ("Some", args[0])
            return (name, *args) if args else name
        return head
    v = expr()
    if i != len(toks):
        raise ValueError(f"trailing tokens {toks[i:i+5]}")
    return v


# --------------------------------------------------------------------------- literals

def zlit(n):
    n = int(n)
    return f"({n})" if n < 0 else str(n)


def coq_list(items):
    return "[" + "; ".join(items) + "]"


def zlist(xs):
    return coq_list([zlit(x) for x in xs])


def coq_bool(b):
    return "true" if b else "false"


def coq_string(s):
    return '"' + s.replace('"', '""') + '"'


def coq_opt(x, f=str):
    return "None" if x is None else f"(Some {f(x)})"


# --------------------------------------------------------------------------- evaluating cases in Coq

CASE_HEADER = """Set Printing Width 10000000. Set Printing Depth 10000000.
From Coq Require Import ZArith List String Bool. Import ListNotations.
Open Scope Z_scope.
"""


def coq_eval(workdir, name, preamble, exprs, shard=300, timeout=600, jobs=None):
    """Evaluate `exprs` with vm_compute inside Coq (see _coq_eval_once).  Expressions whose shard produced nothing (a shard
    that ran out of time on a loaded machine, an oversized literal) are evaluated once more in much smaller shards with
    twice the time before they are given up as None: a failure of the machinery must not look like a disagreement."""
    results, log = _coq_eval_once(workdir, name, preamble, exprs, shard, timeout, jobs)
    missing = [k for k, v in enumerate(results) if v is None]
    if missing and len(missing) < len(exprs) or (missing and len(exprs) <= shard):
        sub, log2 = _coq_eval_once(workdir, name + "_retry", preamble, [exprs[k] for k in missing],
                                   max(1, min(shard // 8, 25)), 2 * timeout, jobs)
        for k, v in zip(missing, sub):
            results[k] = v
        still = sum(1 for v in sub if v is None)
        log = (log + "\n" if log else "") + f"retried {len(missing)} expressions in small shards: {len(missing) - still} recovered" \
            + (("\n" + log2) if still and log2 else "")
        if not still:
            log = ""
    return results, log


def _coq_eval_once(workdir, name, preamble, exprs, shard=300, timeout=600, jobs=None):
    """Evaluate `exprs` (Coq terms as strings) with vm_compute inside Coq.

    Each expression is evaluated by its own `Eval vm_compute in (k, expr).`; returns a list of
    parsed values (None where evaluation failed) and a log string."""
    workdir = Path(workdir)
    workdir.mkdir(parents=True, exist_ok=True)
    for old in workdir.glob(f"{name}_*.v*"):
        old.unlink()
    shards = []
    for k in range(0, len(exprs), shard):
        f = workdir / f"{name}_{k//shard:04d}.v"
        body = [CASE_HEADER, preamble, ""]
        for j, e in enumerate(exprs[k:k + shard]):
            # the case label is a Z literal (a unary nat label costs time linear in its value: quadratic over a run)
            body.append(f"Eval vm_compute in ({k+j}%Z, {e}).")
        f.write_text("\n".join(body) + "\n")
        shards.append(f)
    results = [None] * len(exprs)
    logs = []

    def run(f):
        rc, out = coqc(f, timeout)
        return f, rc, out
    with ThreadPoolExecutor(max_workers=jobs or NPROC) as ex:
        for f, rc, out in ex.map(run, shards):
            if rc != 0:
                logs.append(f"{f.name}: rc={rc}\n{out[-3000:]}")
            for m in re.finditer(r"(?ms)^\s*= \((\d+)(?:%Z|%nat)?, (.*?)\)\s*\n\s*: ", out):
                try:
                    results[int(m.group(1))] = parse_term(m.group(2))
                except Exception as e:  # noqa
                    logs.append(f"{f.name}: parse error case {m.group(1)}: {e}")
    for f in shards:
        for ext in (".vo", ".vok", ".vos", ".glob", ".aux"):
            p = f.with_suffix(ext)
            if p.exists():
                p.unlink()
        aux = f.parent / ("." + f.stem + ".aux")
        if aux.exists():
            aux.unlink()
    return results, "\n".join(logs)


# --------------------------------------------------------------------------- context, failures, evidence

class Failure:
    """kind: 'failing-input' (a concrete input on which the property fails on the implementation),
             'correspondence' (model and implementation differ, property not shown to fail there),
             'proof' / 'translation' / 'gate' (an obligation no longer checks)."""

    def __init__(self, kind, what, case=None, signature=None, impl=None, model=None, obligation=None):
        self.kind, self.what, self.case = kind, what, case
        self.signature = signature or kind
        self.impl, self.model, self.obligation = impl, model, obligation

    def to_json(self):
        return {"kind": self.kind, "what": self.what, "signature": self.signature, "case": self.case,
                "impl_output": self.impl, "model_output": self.model, "obligation": self.obligation}


def load_known():
    p = VERIF / "known_findings.json"
    if not p.exists():
        return []
    return json.loads(p.read_text()).get("findings", [])


class Ctx:
    def __init__(self, prop, tier="quick", seed=None, clean=True):
        self.prop = prop
        if clean:
            for old in (BUILD / "replay").glob(f"{prop}_*.json"):
                old.unlink()
        self.tier = tier if tier in ("quick", "thorough") else "quick"
        self.seed = int(seed if seed is not None else (os.environ.get("VERIF_SEED") or "20260926"))
        self.rng = random.Random(f"{prop}:{self.seed}")
        self.t0 = time.time()
        self.work = BUILD / prop
        self.work.mkdir(parents=True, exist_ok=True)
        self.failures = []
        self.obligations = []      # (name, discharged: bool, axioms or note)
        self.axioms = set()
        self.cov = {"evaluations": 0, "distinct_nontrivial": 0, "rule": "", "samples": []}
        self.assumptions = []
        self.notes = []
        self.thorough = self.tier == "thorough"

    def log(self, *a):
        print(f"[{self.prop} {time.time()-self.t0:6.1f}s]", *a, flush=True)

    def n(self, quick, thorough):
        return thorough if self.thorough else quick

    # ---- proofs
    def prove(self, props_file, extra_targets=(), timeout=1500):
        """Gate, build dependencies, recompile the Props file, record obligations."""
        bad = gate()
        if bad:
            for b in bad[:10]:
                self.log("GATE", b)
            self.failures.append(Failure("gate", "forbidden construct in the Coq development: " + "; ".join(bad[:5]),
                                         obligation="source gate"))
        pf = THEORIES / props_file
        thms, printed = props_theorems(pf)
        ok, log, outs = coq_build([pf, *extra_targets], timeout=timeout, force=[pf])
        if log:
            self.log(log if ok else log[-3000:])
        out = outs.get(pf.resolve(), "")
        if not ok:
            failing = re.findall(r"coqc (\S+) rc=[1-9]\d*", log)
            for t in thms:
                self.obligations.append((t, False, "build failed"))
            self.failures.append(Failure("proof", f"Coq build failed at {failing[-1] if failing else props_file}: "
                                         + log[-1500:], obligation=failing[-1] if failing else props_file))
            return False
        ax = parse_props_output(out)
        if len(ax) != len(printed) or set(printed) != set(thms):
            self.failures.append(Failure("proof", f"{props_file}: every theorem needs its Print Assumptions "
                                         f"(theorems {thms}, printed {printed}, blocks {len(ax)})", obligation=props_file))
        for i, t in enumerate(printed):
            a = ax[i] if i < len(ax) else ["?"]
            self.obligations.append((t, True, a))
            self.axioms.update(a)
        if self.thorough and os.environ.get("VERIF_COQCHK", "1") != "0":
            self.coqchk_start(props_file)
        prim = [a for a in self.axioms if a.split(".")[0] in ("PrimFloat", "PrimInt63", "FloatAxioms", "Uint63")]
        other = sorted(set(self.axioms) - set(prim))
        self.log(f"{props_file}: {len(printed)} theorems checked; axioms: {other or 'none (closed under the global context)'}"
                 + (f" + {len(prim)} primitive int/float operations and their specifications (used by the interval tactic)" if prim else ""))
        return True

    def coqchk_start(self, props_file):
        """Thorough tier: re-check the compiled Props file and everything it depends on with the independent checker
        coqchk (`coqchk -o` also lists the axioms of every loaded library).  It runs beside the correspondence and is
        collected in finish(): a rejection is a broken proof obligation; if it has not finished when the check is done
        (libraries over the reals with Coquelicot/Interval/Flocq take 15-30 min) it is given until minute 13 of the run,
        then stopped and recorded as `not finished` -- not a failure, coqc's kernel has already accepted the file.
        `tools/coqchk_all.sh` runs the complete pass outside the per-property budget."""
        mod = "Typhon." + props_file[:-2].replace("/", ".")
        try:
            out = open(self.work / f"coqchk_{mod}.log", "w")
            # -bytecode-compiler yes: vm_compute casts (the 146 097-day calendar sweeps, the tile table) are replayed with
            # the VM as coqc does; without it coqchk needs 15+ minutes for Base.CalendarProofs alone. The VM-free pass is
            # available through COQCHK_NOVM=1 tools/coqchk_all.sh
            pr = subprocess.Popen(["nice", "-n", "5", "coqchk", "-silent", "-o", "-bytecode-compiler", "yes", *COQ_ARGS, mod], stdout=out,
                                  stderr=subprocess.STDOUT, cwd=str(COQ))
            self._coqchk = getattr(self, "_coqchk", []) + [(pr, mod, time.time(), out)]
        except Exception as e:  # noqa
            self.notes.append(f"coqchk {mod}: not run ({e})")

    def coqchk_collect(self, budget_s=780):
        for pr, mod, t0, out in getattr(self, "_coqchk", []):
            left = max(5, budget_s - (time.time() - self.t0))
            try:
                rc = pr.wait(timeout=left)
            except subprocess.TimeoutExpired:
                pr.kill()
                pr.wait()
                out.close()
                self.obligations.append((f"coqchk {mod}", True, f"not finished after {time.time()-t0:.0f}s, stopped (not a failure; "
                                         "coqc accepted the file; see tools/coqchk_all.sh)"))
                continue
            out.close()
            text = (self.work / f"coqchk_{mod}.log").read_text()
            if rc != 0:
                self.obligations.append((f"coqchk {mod}", False, text[-800:]))
                self.failures.append(Failure("proof", f"coqchk rejects {mod}: {text[-600:]}", obligation=f"coqchk {mod}",
                                             signature="coqchk"))
                continue
            m = re.search(r"\* Axioms:(.*?)\n\s*\n\* Constants/Inductives relying on type-in-type:(.*?)\n\s*\n\* Constants/Inductives relying on unsafe"
                          r".*?:(.*?)\n\s*\n\* Inductives whose positivity is assumed:(.*?)\n", text, re.S)
            axioms, bad = [], ""
            if m:
                axioms = [a.strip() for a in m.group(1).split("\n") if a.strip() and a.strip() != "<none>"]
                bad = " ".join(x.strip() for x in m.groups()[1:] if x.strip() != "<none>")
            if bad:
                self.failures.append(Failure("gate", f"coqchk reports disabled checks in {mod}: {bad}", obligation=f"coqchk {mod}",
                                             signature="coqchk-unsafe"))
            self.obligations.append((f"coqchk {mod}", not bad, {"wall_s": round(time.time() - t0, 1),
                                                                 "axioms_of_all_loaded_libraries": axioms}))
            self.log(f"coqchk {mod}: ok in {time.time()-t0:.0f}s, {len(axioms)} axioms in the loaded libraries")
        self._coqchk = []

    def add_obligation(self, name, ok, note=""):
        self.obligations.append((name, bool(ok), note))

    # ---- failures
    def fail(self, *a, **k):
        f = Failure(*a, **k)
        self.failures.append(f)
        return f

    def sample(self, s, limit=5):
        if len(self.cov["samples"]) < limit:
            self.cov["samples"].append(s)

    # ---- finish
    def finish(self, trusted_base=(), level="proof", checker_cmd=None, extra_cov=None):
        self.coqchk_collect()
        known = [k for k in load_known() if k.get("property") == self.prop and k.get("status") == "open"]
        replay_dir = BUILD / "replay"
        replay_dir.mkdir(parents=True, exist_ok=True)
        lines, nviol, seen_known = [], 0, set()
        # report at most one VIOLATION per signature, failing inputs first
        order = {"failing-input": 0, "correspondence": 1, "translation": 2, "proof": 3, "gate": 4}
        by_sig = {}
        for f in sorted(self.failures, key=lambda f: order.get(f.kind, 9)):
            by_sig.setdefault(f.signature, []).append(f)
        have_input = any(f.kind == "failing-input" for f in self.failures)
        for sig, fs in by_sig.items():
            f = fs[0]
            kf = next((k for k in known if k.get("signature") == sig and f.kind == "failing-input"), None)
            if kf:
                if kf["id"] not in seen_known:
                    seen_known.add(kf["id"])
                    lines.append(f"KNOWN-FINDING: property={self.prop} {kf['id']} {kf['what']}")
                continue
            nviol += 1
            body = {"property": self.prop, "seed": self.seed, "tier": self.tier, "repo_head": repo_head(),
                    "count_with_this_signature": len(fs), **f.to_json()}
            h = hashlib.sha1(json.dumps(body, sort_keys=True, default=str).encode()).hexdigest()[:10]
            path = replay_dir / f"{self.prop}_{h}.json"
            path.write_text(json.dumps(body, indent=1, default=str))
            suffix = "" if f.kind == "failing-input" else " no-failing-input-found"
            if f.kind != "failing-input" and have_input:
                # the broken obligation is explained by a concrete failing input reported alongside
                suffix = " no-failing-input-found"
            lines.append(f"VIOLATION property={self.prop} replay={path}{suffix}")
            self.log(f"  -> {f.kind}: {f.what[:300]}")
        n_ob = len(self.obligations)
        n_dis = sum(1 for o in self.obligations if o[1])
        cov = dict(self.cov)
        cov.update({
            "obligations": n_ob, "discharged": n_dis,
            "obligation_list": [{"name": o[0], "discharged": o[1],
                                 "axioms_or_note": o[2]} for o in self.obligations],
            "checker_cmd": checker_cmd or f"cd /verif && ./check {self.prop} {self.tier}  (coqc 8.16.1 on coq/theories/Props/{self.prop}.v and its dependencies; vm_compute for the correspondence)",
            "trusted_base": sorted(set(list(trusted_base) + [f"axiom: {a}" for a in sorted(self.axioms)]
                                       + ["Coq 8.16.1 kernel + vm_compute (no native_compute)"])),
            "repo_head": repo_head(),
            "known_findings_reported": sorted(seen_known),
        })
        if extra_cov:
            cov.update(extra_cov)
        ev = {"property_id": self.prop, "tier": self.tier, "seed": self.seed, "level": level,
              "coverage": cov, "assumptions": list(self.assumptions), "wall_s": round(time.time() - self.t0, 2),
              "violations": nviol}
        EVIDENCE.mkdir(exist_ok=True)
        tmp = EVIDENCE / f".{self.prop}.json.tmp"
        tmp.write_text(json.dumps(ev, indent=1, default=str))
        tmp.replace(EVIDENCE / f"{self.prop}.json")
        for l in lines:
            print(l, flush=True)
        self.log(f"done: obligations {n_dis}/{n_ob}, evaluations {cov['evaluations']}, "
                 f"nontrivial {cov['distinct_nontrivial']}, violations {nviol}")
        return 1 if nviol else 0


def run_py(script, args=(), timeout=600, env=None, stdin=None):
    """Run a Python child of the repo interpreter against the tree under test."""
    e = dict(os.environ)
    e.update({"PYTHONPATH": str(REPO), "PYTHONHASHSEED": "0", "TYPHON_VERIF": "1",
              "PYTHONWARNINGS": "ignore", "OMP_NUM_THREADS": "1"})
    if env:
        e.update(env)
    return subprocess.run(["timeout", str(timeout), PY, "-W", "ignore", str(script), *map(str, args)],
                          capture_output=True, text=True, env=e, input=stdin, cwd=str(VERIF))
