"""Pointwise enclosure checks: Coq (interval tactic) proves that the real-valued model at the given,
decimal-exact arguments lies within a tolerance of the float the implementation returned."""
import math
import re
from concurrent.futures import ThreadPoolExecutor
from pathlib import Path

from . import core

HEADER = """From Coq Require Import Reals Lra.
From Interval Require Import Tactic.
{requires}
Open Scope R_scope.
Ltac chk n tac := tryif (assert_succeeds (solve [tac])) then idtac "CASE" n "OK" else idtac "CASE" n "FAIL".
"""


def rlit(x):
    """Decimal literal of a Python float (17 significant digits: within 1e-16 relative of the double)."""
    x = float(x)
    if x != x or x in (float("inf"), float("-inf")):
        raise ValueError("non-finite value")
    s = repr(abs(x))
    if s.endswith(".0"):
        s = s[:-2]
    return s if x >= 0 else f"(- {s})"


def enclosure_check(workdir, name, requires, cases, shard=40, timeout=900, prec=80):
    """cases: list of dicts {expr: coq term, value: float, tol: absolute tolerance (float),
                             prep: tactics run before interval (e.g. 'unfold f.'), extra: interval params}
    returns list of 'OK' | 'FAIL' | 'ERROR' and a log."""
    workdir = Path(workdir)
    workdir.mkdir(parents=True, exist_ok=True)
    for old in workdir.glob(f"{name}_*.v*"):
        old.unlink()
    files = []
    nonfinite = set()
    for k in range(0, len(cases), shard):
        f = workdir / f"{name}_{k//shard:04d}.v"
        out = [HEADER.format(requires=requires)]
        for j, c in enumerate(cases[k:k + shard]):
            n = k + j
            if not (math.isfinite(float(c["value"])) and math.isfinite(float(c["tol"]))):
                nonfinite.add(n)
                continue
            extra = c.get("extra", "")
            params = f"i_prec {prec}" + (", " + extra if extra else "")
            out.append(f"Goal Rabs ({c['expr']} - {rlit(c['value'])}) <= {rlit(c['tol'])}.\n"
                       f"Proof. {c.get('prep', '')} chk {n}%nat ltac:(interval with ({params})). Abort.")
        f.write_text("\n".join(out) + "\n")
        files.append(f)
    res = ["ERROR"] * len(cases)
    for n in nonfinite:
        res[n] = "FAIL"          # the implementation returned inf/nan where the model is a real number
    logs = []

    def run(f):
        rc, out = core.coqc(f, timeout)
        return f, rc, out
    with ThreadPoolExecutor(max_workers=core.NPROC) as ex:
        for f, rc, out in ex.map(run, files):
            for m in re.finditer(r"CASE (\d+)%nat (OK|FAIL)", out):
                res[int(m.group(1))] = m.group(2)
            if rc != 0:
                logs.append(f"{f.name}: rc={rc} {out[-1500:]}")
    for f in files:
        for ext in (".vo", ".vok", ".vos", ".glob"):
            p = f.with_suffix(ext)
            if p.exists():
                p.unlink()
        aux = f.parent / ("." + f.stem + ".aux")
        if aux.exists():
            aux.unlink()
    return res, "\n".join(logs)


def translate(ctx, modules, needed):
    """Regenerate coq/gen/<module>.v from the tree under test and make sure every needed function was
    translated. Returns the list of untranslated names (each also recorded as an obligation)."""
    import json
    r = core.run_py(core.VERIF / "tools" / "translate" / "run.py", modules, timeout=300)
    ctx.log(r.stdout.strip().replace("\n", " | "))
    if r.returncode != 0:
        ctx.fail("translation", "translator crashed: " + (r.stderr or r.stdout)[-1500:], obligation="translator",
                 signature="translator-crash")
        return list(needed)
    report = json.loads((core.BUILD / "gen_report.json").read_text())
    missing = []
    for name in needed:
        info = report.get(name)
        ok = bool(info and info.get("ok"))
        ctx.add_obligation(f"translate {name}", ok, "" if ok else (info or {}).get("why", "not in the report"))
        if not ok:
            missing.append(name)
    if missing:
        ctx.fail("translation", "source no longer in the translatable subset: " +
                 "; ".join(f"{m}: {(report.get(m) or {}).get('why')}" for m in missing),
                 obligation="translation of " + ", ".join(missing), signature="untranslatable")
    return missing
