#!/bin/bash
# Quiet-on-the-unchanged-tree soak: runs the quick (or given) tier of the listed checks on /repo under several seeds,
# each in a private scratch directory (private copy of the Coq tree, private evidence), and lists every run that was
# not quiet.   tools/soak.sh "<seeds>" "<props>" [tier] [jobs]
set -u
seeds="${1:-4 5 6 7}"; props="${2:-$(seq -f 'C%02g' 1 20)}"; tier="${3:-quick}"; jobs="${4:-4}"
verif="$(cd "$(dirname "$0")/.." && pwd)"; out="$verif/build/soak"; mkdir -p "$out"
one() {
  s="$1"; p="$2"; priv="$verif/build/soak_${p}_${s}"; rm -rf "$priv"; mkdir -p "$priv"; cp -a "$verif/coq" "$priv/coq"
  ( cd "$verif" && VERIF_SEED="$s" VERIF_BUILD="$priv" VERIF_COQ="$priv/coq" VERIF_EVIDENCE="$priv/evidence" VERIF_JOBS=4 \
      timeout 3000 ./check "$p" "$tier" > "$out/${p}_${s}.log" 2>&1 ); rc=$?
  v=$(grep -c VIOLATION "$out/${p}_${s}.log")
  echo "$p seed=$s rc=$rc violations=$v" >> "$out/result.txt"
  rm -rf "$priv"
}
export -f one; export verif out tier
: > "$out/result.txt"
for s in $seeds; do for p in $props; do echo "$s $p"; done; done | xargs -P "$jobs" -n 2 bash -c 'one "$0" "$1"'
sort "$out/result.txt" | grep -v "rc=0 violations=0" || echo "soak: all quiet ($(wc -l < "$out/result.txt") runs)"
