#!/bin/bash
# Regression of the machinery itself: every stored seeded change (seeded/<id>/patch.diff) is applied to a scratch worktree
# of /repo HEAD and the check of its property must report it (exit 1). Properties run in parallel, the changes of one
# property one after the other (they share coq/gen and the .vo files of the property).
#   tools/seeded_regress.sh [quick|thorough] [jobs] ["C01 C02 ..."]      (VERIF_SEED is passed on)
tier="${1:-quick}"; jobs="${2:-4}"
verif="$(cd "$(dirname "$0")/.." && pwd)"
out="$verif/build/seeded_regress"; mkdir -p "$out"; rm -f "$out"/*.txt
props="${3:-$(ls "$verif/seeded" | sed 's/-.*//' | sort -u)}"
run_prop() {
  p="$1"
  for d in "$verif"/seeded/"$p"-*/; do
    n=$(basename "$d")
    wt="/tmp/sr_${n}_$$"
    git -C /repo worktree add -f "$wt" HEAD > /dev/null 2>&1
    if ! git -C "$wt" apply "$d/patch.diff" 2>/dev/null; then echo "$n PATCH-DOES-NOT-APPLY" >> "$out/result.txt"; else
      mkdir -p "$verif/build/sr_$p"; rm -rf "$verif/build/sr_$p/coq"; cp -a "$verif/coq" "$verif/build/sr_$p/coq"
      ( cd "$verif" && VERIF_BUILD="$verif/build/sr_$p" VERIF_COQ="$verif/build/sr_$p/coq" VERIF_EVIDENCE="$verif/build/sr_$p/evidence" VERIF_REPO="$wt" \
          timeout 3000 ./check "$p" "$tier" > "$out/$n.log" 2>&1 ); rc=$?
      fi_n=$(grep -c "^VIOLATION" "$out/$n.log"); nf=$(grep -c "no-failing-input-found" "$out/$n.log")
      echo "$n rc=$rc violations=$fi_n of-which-no-failing-input=$nf" >> "$out/result.txt"
    fi
    git -C /repo worktree remove --force "$wt" > /dev/null 2>&1; rm -rf "$wt"
  done
  rm -rf "$verif/build/sr_$p"
}
export -f run_prop; export verif out tier
echo $props | tr ' ' '\n' | xargs -P "$jobs" -I{} bash -c 'run_prop {}'
sort "$out/result.txt"
missed=$(grep -c "rc=0" "$out/result.txt")
only=$(awk '{split($3,a,"=");split($4,b,"=");if($2=="rc=1"&&a[2]==b[2])print $1}' "$out/result.txt" | tr '\n' ' ')
echo "seeded changes: $(wc -l < "$out/result.txt"), not reported: $missed, reported without a failing input: ${only:-none}"
[ "$missed" = "0" ]
