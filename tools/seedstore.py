"""Store a confirmed seeded change:  seedstore.py <PROP> <srcdir> <name> <caught_by> <needs> [<ran>]"""
import json, shutil, sys
from pathlib import Path
prop, src, name, caught, needs = sys.argv[1:6]
ran = sys.argv[6] if len(sys.argv) > 6 else ""
dst = Path(__file__).resolve().parents[1] / "seeded" / name
dst.mkdir(parents=True, exist_ok=True)
for f in ("patch.diff", "demo.py", "notes.md"):
    if (Path(src) / f).exists():
        shutil.copy(Path(src) / f, dst / f)
meta = {"breaks_property": prop, "needs_to_manifest": needs, "detected_by": caught,
        "confirmed": ran or ("applied to a scratch worktree of /repo HEAD: demo.py exits 0 on the clean tree and 1 with the patch; "
                             "pinned suite 117/117 with the patch (tools/baseline.sh); check run with VERIF_REPO=<worktree> (tools/seedtest.sh)")}
(dst / "meta.json").write_text(json.dumps(meta, indent=1))
print("stored", dst)
