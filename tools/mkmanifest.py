"""Writes MANIFEST.json from the table below (kept in one place so that the file stays valid)."""
import json
from pathlib import Path

VERIF = Path(__file__).resolve().parents[1]
ALL = [f"C{n:02d}" for n in range(1, 21)]

COMMON_NOTE = ("Trusted: Coq 8.16.1 kernel with vm_compute (no native_compute, no extraction); the axioms listed by "
               "Print Assumptions in the evidence file; the correspondence harness (generators, canonicalisation); "
               "third-party libraries named in the text are exercised by the correspondence, not proved.")

CHECKS = {
    "C03": dict(
        text=("Theorems (closed under the global context) about an executable Gallina model of IntervalTree and of the "
              "matching step of FileSet.match: query / query_points / membership return exactly the overlapping intervals, "
              "each once, for every list of well-formed closed intervals of any order, nesting or duplication and every query "
              "(unbounded, by induction); invariance under strictly monotone relabelling covers float and datetime end "
              "points; match = brute-force specification. The model is tied to trees.py and fileset.py on every run by "
              "executing both on generated interval sets and harness-built filesets and comparing canonical (sorted) "
              "index lists inside Coq; because model = spec is a theorem, any disagreement on a well-formed input is a "
              "failing input of the property."),
        note=COMMON_NOTE + " numpy array semantics; FileSet.find on flat templates (property C01).",
        technique="Coq proof (induction over the interval list) + vm_compute correspondence with the implementation",
        design="5/C03"),
    "C09": dict(
        text=("The model is REGENERATED from typhon/physics/atmosphere.py on every run by a fail-closed Python-ast -> Coq translator "
              "(coq/gen/atmosphere.v); 12 theorems over the reals are re-checked against it: the six converters are mutual "
              "inverses, all two-step routes equal the direct one, 0 -> 0, strictly increasing; Murphy-Koop saturation pressures "
              "positive and strictly increasing on [100,400] K (derivative sign by interval arithmetic), ice <= liquid(1+1e-6) "
              "below T_t and equal to 1e-6 at T_t; mixed phase = ice below T_t-23, liquid above T_t, between them everywhere and "
              "equal to the pure phases at the joints (epsilon-delta continuity is a named gap, hence _partial); guards reject "
              "T <= 0; RH<->VMR inverse for any saturation function; lapse rate in (0, g/cp] with an explicit bound on its distance "
              "to g/cp proportional to the saturation mixing ratio. Float behaviour is tied pointwise by interval enclosures proved "
              "in Coq around the values the implementation returns; a numeric sweep of the stated laws on the implementation "
              "(plus exact Fraction evaluation of the converters) searches for a failing input whenever an obligation breaks."),
        note=COMMON_NOTE + " The translator is trusted to render the whitelisted Python subset faithfully (mitigated by the enclosures); "
             "real-number axioms of the Coq standard library, classic, functional extensionality (Coquelicot) and the primitive "
             "int/float specifications used by the interval tactic appear in Print Assumptions.",
        technique="Coq proof over R on a model translated from the source on every run (field/nra/interval/Coquelicot) + interval enclosures",
        design="5/C09"),
    "C08": dict(
        text=("coq/gen/em.v is REGENERATED from typhon/physics/em.py on every run by the fail-closed translator; 17 theorems over the "
              "reals are re-checked against it, for ALL positive f and T (not only the sampled range): radiance2planckTb inverts planck, "
              "radiance2rayleighjeansTb inverts rayleighjeans, planck > 0, strictly increasing in T, planck < rayleighjeans and "
              "(1 - x) rayleighjeans < planck for x = hf/kT < 1 (the approach to Rayleigh-Jeans), wavelength/wavenumber forms equal "
              "planck f^2/c resp. c planck, the six unit converters are mutually inverse and commute, the four spectral-density "
              "converters (hand model on lists of any length, tied element-wise) are inverse to each other and map one Planck form "
              "onto the other, Snell's law up to total reflection, and for real refractive indices |Rv|,|Rh| <= 1, |Rv| = |Rh| at "
              "normal incidence, Rv = 0 at the Brewster angle. Complex n2: the Snell branch is translated and enclosed, the "
              "Fresnel bound is only swept numerically (named gap). Floats are tied by interval enclosures proved in Coq."),
        note=COMMON_NOTE + " Translator trusted for the whitelisted subset (mitigated by enclosures); the reshape/[::-1]/broadcast plumbing of "
             "the per*2per* converters is hand-modelled; real-number axioms, classic, funext (Coquelicot) in Print Assumptions.",
        technique="Coq proof over R on a model translated from the source on every run (field/lra/exp_ineq1/trig lemmas) + interval enclosures",
        design="5/C08"),
}


def main():
    checks = []
    for pid in ALL:
        if pid not in CHECKS:
            continue
        c = CHECKS[pid]
        checks.append({
            "property_id": pid,
            "quick_cmd": f"./check {pid} quick",
            "thorough_cmd": f"./check {pid} thorough",
            "evidence_file": f"/verif/evidence/{pid}.json",
            "replay_cmd_template": f"./check {pid} --replay {{path}}",
            "engine": "coq-proof+correspondence",
            "level_claimed": {"category": "proof", "text": c["text"], "design_ref": c["design"]},
            "level_note": c["note"],
            "technique": c["technique"],
        })
    na = [{"property_id": pid, "reason": "check not built yet in this session (planned, DESIGN.md section 5); an executable model exists in the design, so this is not a claim of inapplicability"}
          for pid in ALL if pid not in CHECKS]
    man = {
        "version": 1,
        "setup_cmd": "./setup.sh",
        "hooks": {"guard": "TYPHON_VERIF", "enable": "no source hooks are needed: the harness wraps module-level names from outside; checks export TYPHON_VERIF=1 anyway",
                  "baseline_off_cmd": "/verif/tools/baseline.sh", "source_commits": [], "add_only": True},
        "engines": [{"name": "coq-proof+correspondence", "path": "/verif/check",
                     "serves_properties": [c["property_id"] for c in checks],
                     "kind_free_text": "Coq 8.16.1 theorems about Gallina models (coq/theories), models tied to /repo by a Python-ast translator (coq/gen, regenerated every run) or by differential execution evaluated with vm_compute inside Coq"}],
        "checks": checks,
        "notes": "Fix commits in /repo are listed in known_findings.json (status fixed). See DESIGN.md.",
        "not_applicable": na,
    }
    (VERIF / "MANIFEST.json").write_text(json.dumps(man, indent=1) + "\n")
    print(f"MANIFEST.json: {len(checks)} checks, {len(na)} not claimed")


if __name__ == "__main__":
    main()
