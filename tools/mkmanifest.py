"""Writes MANIFEST.json from the table below (kept in one place so that the file stays valid)."""
import json
from pathlib import Path

VERIF = Path(__file__).resolve().parents[1]
ALL = [f"C{n:02d}" for n in range(1, 21)]

COMMON_NOTE = ("Trusted: Coq 8.16.1 kernel with vm_compute (no native_compute, no extraction); the axioms listed by "
               "Print Assumptions in the evidence file; the correspondence harness (generators, canonicalisation); "
               "third-party libraries named in the text are exercised by the correspondence, not proved.")

CHECKS = {
    "C03": dict(
        text=("29 theorems (closed under the global context). The centred interval tree (query, query_points, `in`, with the "
              "whole-span short cut) equals the brute-force overlap specification for every list of well-formed closed intervals "
              "of any order, nesting or duplication, each index once, invariant under strictly monotone relabelling of the end "
              "points (float, datetime); the fuel of the model is provably never exhausted (build_never_starved, "
              "build_fuel_irrelevant) and the depth is at most n, at most log2(n)+1 for distinct left ends. The whole of "
              "FileSet.match - open start / end, widening of the period by max_interval with clamping at datetime.min / "
              "datetime.max, the two find() selections, conversion to seconds, widening of the secondaries, tree query - is "
              "modelled on the microsecond axis and proved equal to the brute-force specification in every case "
              "(match_full_outcome: ValueError / NoFilesError / exactly the pairs; match_full_yields_exactly with NoDup), with the "
              "order theorems (match_full_listing_order, match_full_time_order: order of find()'s listing, i.e. by (start, end), "
              "ties in listing order) and max_interval=None = 0. The behaviour before the repairs 082daed, 26612d6, fdf1ba2 is "
              "kept as six *_asis_refuted witnesses, one per defect. Tie: the real IntervalTree and FileSet.match are run on "
              "generated interval sets and harness-built filesets (open, explicit and near-limit periods, files of equal start and "
              "equal coverage, path order different from time order, every call made twice with the first answers cleared; interval arrays of "
              "narrow dtypes - int8, uint8, float16 - with more rows than the dtype can count) and "
              "compared with match_full and its specification evaluated in Coq; because model = spec is a theorem, any "
              "disagreement on a well-formed input is a failing input of the property."),
        note=COMMON_NOTE + " numpy array / datetime arithmetic (int(total_seconds()) exact below 2^53 us); FileSet.find's period selection on flat templates is exercised here and proved under property C01; sub-second files and fractional max_interval are modelled but not generated.",
        technique="Coq proof (induction, permutation and sortedness arguments over interval lists; model = specification) + vm_compute correspondence with the implementation on generated cases",
        design="5/C03"),
    "C09": dict(
        text=("The model is REGENERATED from typhon/physics/atmosphere.py on every run by a fail-closed Python-ast -> Coq translator "
              "(coq/gen/atmosphere.v); 14 theorems over the reals are re-checked against it: the six converters are mutual "
              "inverses, all two-step routes equal the direct one, 0 -> 0, strictly increasing; Murphy-Koop saturation pressures "
              "positive and strictly increasing on [100,400] K (derivative sign by interval arithmetic), ice <= liquid(1+1e-6) "
              "below T_t and equal to 1e-6 at T_t; mixed phase = ice below T_t-23, liquid above T_t, between them everywhere, positive, "
              "CONTINUOUS at every T > 0 in the epsilon-delta sense (also as Coquelicot continuous / stdlib continuity_pt, by gluing the "
              "three branch formulas at both switching temperatures) and strictly increasing on all of [100,400] K across both joints "
              "(derivative of the blend by auto_derive, its sign by interval bisection); no theorem of C09 is partial; guards reject "
              "T <= 0; RH<->VMR inverse for any saturation function; lapse rate in (0, g/cp] with an explicit bound on its distance "
              "to g/cp proportional to the saturation mixing ratio. Float behaviour is tied pointwise by interval enclosures proved "
              "in Coq around the values the implementation returns; a numeric sweep of the stated laws on the implementation "
              "(plus exact Fraction evaluation of the converters, purity of the arguments and of results handed out earlier) "
              "searches for a failing input whenever an obligation breaks."),
        note=COMMON_NOTE + " The translator is trusted to render the whitelisted Python subset faithfully (mitigated by the enclosures); "
             "real-number axioms of the Coq standard library, classic, functional extensionality (Coquelicot) and the primitive "
             "int/float specifications used by the interval tactic appear in Print Assumptions.",
        technique="Coq proof over R on a model translated from the source on every run (field/nra/interval/Coquelicot) + interval enclosures",
        design="5/C09"),
    "C08": dict(
        text=("coq/gen/em.v is REGENERATED from typhon/physics/em.py on every run by the fail-closed translator (complex arithmetic "
              "translated on pairs of reals); 28 theorems over the reals are re-checked against it, for ALL positive f and T: "
              "radiance2planckTb inverts planck, radiance2rayleighjeansTb inverts rayleighjeans, planck > 0, strictly increasing in T, "
              "planck < rayleighjeans, planck/rayleighjeans = x/(e^x - 1) and it tends to 1 as x = hf/kT -> 0 as an epsilon-delta "
              "statement; wavelength / wavenumber forms equal planck f^2/c resp. c planck; the six unit converters are mutually "
              "inverse and commute; the four spectral-density converters (hand model on lists of any length, tied element-wise) are "
              "inverse to each other and map one Planck form onto the other; Snell's law for real n2 up to total reflection, Liou's "
              "form of the law for every complex n2 with positive real part, the complex branch reducing to the real law when "
              "Im(n2) = 0; Fresnel: |Rv|, |Rh| <= 1 for real n2 and - on the translated complex arithmetic of fresnel() (real "
              "refraction angle as the code computes it) - for every complex n2 with positive real part and every incidence below "
              "90 degrees, strictly below 1 for an absorbing medium, with non-zero denominators; |Rv| = |Rh| at normal incidence for "
              "real and complex n2, Rv = 0 at the Brewster angle, the complex evaluation reducing to the real one when Im n2 = 0. "
              "No theorem is partial. Floats are tied by interval enclosures proved in Coq (incl. Re/Im of the complex coefficients) "
              "and a law sweep on the implementation (multi-dimensional spectra, complex-typed indices, an independent cmath oracle)."),
        note=COMMON_NOTE + " Translator trusted for the whitelisted subset (mitigated by enclosures); numpy's complex division and IEEE rounding bridged pointwise; the reshape/[::-1]/broadcast plumbing of "
             "the per*2per* converters is hand-modelled; theta1 = 90 is excluded from the Fresnel bounds; complex n1 is rejected by the code and not modelled; real-number axioms, classic, funext (Coquelicot) in Print Assumptions.",
        technique="Coq proof over R on a model translated from the source on every run (field/lra/exp_ineq1/trig lemmas, complex numbers as pairs of reals) + interval enclosures + numeric law sweep",
        design="5/C08"),
    "C02": dict(
        text=("17 theorems (closed under the global context) about an executable model of FileSet.get_filename / the regex of "
              "_fill_placeholders + re.match / the time arithmetic of get_info on top of a proved proleptic Gregorian calendar "
              "(civil<->days round trip for all 3 652 059 days: one 400-year cycle by vm_compute lifted by lia periodicity lemmas): "
              "parse_render (every placeholder string recovered, repeated placeholders and value lists included); parse_sound, "
              "parse_complete, rejected_iff_no_instance (the ValueError is raised exactly on names that are not instances of the "
              "template: a non-matching name is never mis-parsed); no_end_fields (start + time_coverage, or start); "
              "roundtrip_end_full (start s, end e for every s <= e in 1000-9999 / 1965-2064 incl. leap days, doy 366, year2, "
              "milliseconds); roundtrip_end_partial / end_partial_exact (an end spelt only with sub-day fields takes the other "
              "fields from the start and is rolled forward by one day / hour / minute iff it would precede the start; it equals e "
              "whenever 0 <= e - s < that unit, across month, year and leap-day boundaries); roundtrip_start for all three end "
              "kinds; handler_overrides (also with a sub-day end) / handler_only; unknown / unfilled placeholder errors. No theorem "
              "is partial. Not claimed: end-field sets other than 'as complete as the start' or a sub-day suffix (the 31-day "
              "'month'), literals with regex syntax. Tie: the constant tables of the source are compared with the model's; "
              "grammar-generated template x period x fill cases run through the real FileSet (also reached through "
              "set_placeholders() histories) and through the model in Coq; every name the real parse_filename accepts gets a witness "
              "checked in Coq (instance_certificate); the property's own law checker evaluates every clause on the implementation."),
        note=COMMON_NOTE + " Python re priority semantics, str.format, datetime are modelled and exercised, not verified; ASCII names.",
        technique="Coq proof (calendar by complete cycle sweep + lia; render/parse round trip and parser soundness/completeness by induction over the token list; end completion via s/u*u + e mod u) + vm_compute correspondence with certified instance witnesses",
        design="5/C02"),
    "C06": dict(
        text=("Theorems: for EVERY permutation the internal shuffle may draw and every tree that answers radius queries correctly "
              "(Section hypothesis rq_spec, checked on every run against a brute-force evaluation of the recorded tree call) "
              "GeoIndex.query's model returns exactly the pairs within the radius, each once, indices as passed in, each with its own "
              "distance in kilometres; independence of shuffle on/off, permutation, tree class and leaf size; the radius enters only "
              "by its value in km; the unit table TRANSLATED from the source on every run equals the SI definitions, so '5 km' = "
              "'5000 m'; over the reals, chord = 2 R sin(angle/2) and both metrics select the same pairs. Tie: the real GeoIndex "
              "under harness-seeded shuffles (permutation read back from index.shuffler, tree answers recorded by a proxy); the "
              "specification is evaluated inside Coq on a dense long-double distance matrix independent of typhon.geodesy, the "
              "model on the recorded tree answers. The as-is defects (any() emptiness test, haversine /1000) are kept as _refuted theorems."),
        note=COMMON_NOTE + " scikit-learn BallTree/KDTree.query_radius is a hypothesis (checked per run); IEEE rounding of distances bridged by a "
             "guard band around the radius; real-number axioms in the metric theorems.",
        technique="Coq proof (Permutation/NoDup reasoning over any shuffle, Q arithmetic for units, real analysis for the metrics) on a model whose unit table is translated from the source + vm_compute correspondence",
        design="5/C06"),
    "C10": dict(
        text=("30 theorems (closed under the global context) about an executable transition system of imap (Submit / Complete i / "
              "Yield over a FIFO deque bounded by max_workers), quantified over EVERY trace the system accepts, i.e. every relative "
              "timing, worker count and result pattern: invariant on all reachable states, yielded files always a prefix of the "
              "stream and equal to the specification at termination, at most max_workers futures queued, the submitted tasks never "
              "exceed the yielded results by more than max_workers and file k is only submitted after file k-w was yielded "
              "(imap_lazy, imap_submit_waits_for_consumer), exactly-once, progress and termination (<= 3n actions), propagation of "
              "the first exception after all earlier results, only read errors under error_to_warning become warning + None; map = "
              "the same system with an unbounded queue; collect drops None contents in order; the align loop loads each unique "
              "secondary once in order of first appearance, delivers every matched pair and evicts after the last use. In every "
              "reachable state the i-th value handed to the caller is the value of the i-th task and does not change when the other "
              "tasks of the stream are replaced (task_results_independent, bundle_results_independent: no state shared between "
              "tasks). The ARGUMENTS of the mapped function are proved in a micro-step model of the wrapper over a heap that holds the "
              "caller's args object and kwargs dict (task_arguments_independent): for every interleaving of the wrappers of a "
              "stream and every form of args (None, tuple, list), every task's function is called once with exactly the caller's "
              "arguments in order followed by the content / FileInfo of its own file and the caller's keyword arguments, and the "
              "caller's objects are unchanged afterwards. Bundles read through the nested collect have an explicit model (bundle_task_result, bundle_refines_task, "
              "bundle_collect_any_member_order, bundle_read_warning_local, bundle_arg_is_member_list, bundle_singleton_arg): a "
              "bundle is warning + None iff error_to_warning and a member is unreadable (or nothing is left to hand on), otherwise "
              "the function applied to the LIST of the members' contents in member order - one entry per member, for a one-file "
              "bundle the one-element list, not the bare content - independent of the completion order of the member reads. Tie: "
              "the real FileSet.map / imap / collect / icollect / align with FORCED completion orders (all orders for <= 4 files "
              "quick / <= 6 thorough, failing readers on every subset, None contents, all member patterns and member orders of "
              "2-3-file bundles, directed one-file bundles via files= and bundle=n, gzip-compressed files with the same base name in "
              "different directories read while a later task decompresses and finishes); Coq checks that each recorded trace is "
              "accepted by the model and evaluates the specification; results, function arguments (kind bare/list, length, entries "
              "- compared in Coq, observed_arg_agrees_iff) must equal the model's and contents must be those of the task's own "
              "files; extra arguments are handed over as tuple / list / None with kwargs for map, imap, collect(func=), icollect(func=) "
              "and every recorded call is compared in Coq by number, order and kind of its arguments (observed_call_agrees_iff), "
              "the caller's objects after the call included; a directed probe maps an explicit selection given as plain file NAMES; the thorough tier repeats this on process pools through a multiprocessing.Manager."),
        note=COMMON_NOTE + " concurrent.futures / threading / multiprocessing (fork, pickling) are modelled by the transition system (hypothesis), exercised by forced "
             "schedules, not verified; real OS scheduling cannot be exhibited by the model; warnings raised on process pools are not counted.",
        technique="Coq proof (invariants by induction over arbitrary action traces of a transition system; explicit bundle model refining the task model) + trace-acceptance correspondence under forced schedules, thread and process pools",
        design="5/C10"),
    "C12": dict(
        text=("Theorems (closed under the global context) about an executable model of compress / compress_as / decompress as a "
              "function of the primitive step that raises, for EVERY format table, codec, name, content and fault point: no "
              "temporary file or directory survives any exit of either block, the decompressed copy is gone, every other file "
              "keeps its bytes, an exception in the caller's block creates no target and leaves an existing one untouched, an "
              "undisturbed block stores the archive of exactly the bytes written, round trip under dec(enc b) = b, pass-through of "
              "other suffixes, zip member naming; advertised_formats is stated on the key set of _known_compressions TRANSLATED "
              "from the source on every run. Tie: exhaustive fault injection over every injection point x format on the real code "
              "in a child process; the model and the certified clause checker are evaluated in Coq on the same cases and the "
              "stored files are opened with gzip/bz2/lzma/zipfile. "
              "23 theorems in all. For several blocks open at the same time a second model puts temporary entries into the same file "
              "system as the user's files, with names from an oracle, and splits blocks at their yield: nested_blocks_independent - "
              "for every list of compress / decompress blocks and every interleaving of entries, reads / writes and exits (with or "
              "without exceptions in the bodies), given an oracle returning names that do not exist (what NamedTemporaryFile / "
              "TemporaryDirectory provide) and caller names outside its range, each block observes exactly what it observes alone; "
              "nested_blocks_no_debris - afterwards every path that is not a compress target, archives and bystanders of any name "
              "included, is byte for byte what it was; the hypothesis is shown necessary by a refutation for names derived from the "
              "archive's stem, and both models are proved to agree on one block. The tie additionally runs 389 (thorough 3269) "
              "histories of 1-4 context managers entered, used and left by hand in nested, overlapping and random order on archives "
              "with equal stems, shared temporary directories and bystander files, judged in Coq against the ideal history."),
        note=COMMON_NOTE + " Standard-library codecs and tempfile/os.unlink behaviour are hypotheses exercised on every case; copy chunks above 100 MiB not exercised.",
        technique="Coq proof (case analysis over all fault points of the step model, induction over copy blocks) on a model whose format table is translated from the source + vm_compute correspondence with exhaustive fault injection",
        design="5/C12"),
    "C13": dict(
        text=("35 theorems about list models of the compaction in Collocator._create_return, _rows_for_secondaries, the NaN-padded "
              "bin matrix of collapse, expand and concat_collocations, for every compact dataset (25 closed under the global "
              "context): the compaction is consistent for every row of raw pairs - exactly the collocated points stored, each once, "
              "valid indices, every stored point in a pair, every pair still naming its original point, two pairs sharing a stored "
              "point iff they share the original point; the pairs are determined by the order of the stored points "
              "(compact_is_consistent, consistent_no_merged_points, consistent_pairs_determined) - and the built dataset expands to "
              "the raw pairs carrying the original data (create_return_expands_to_raw_pairs); rows are running counts; column c of "
              "the bin matrix holds exactly the partner values of reference c in pair order, then padding (any lane, either "
              "reference); expand gives one row per pair; expand(concat ds) = concat (map expand ds) over unbounded indices, and in an index type of W values the concatenation is "
              "the model's modulo W, equal to it exactly when the totals of stored points fit (concat_fits_width_iff, "
              "expand_concat_any_width; W = 2^63 is the code); the boolean checkers applied "
              "to implementation output are sound. Over the standard-library reals: the fields of a call without custom functions "
              "are exactly mean, std, number = sum/n, sqrt(sum of squared deviations/n), n over the non-NaN partner values (NaN / "
              "NaN / 0 iff all are NaN), invariant under rearranging the pair list; a custom function replaces only the default of "
              "its name; for ANY custom function g the field of (variable, function, reference point) is g of that variable's own "
              "NaN-padded partner column, independent of the other variables (collapse_custom_function; slot k = (k+1)-th partner in "
              "pair order or NaN, last slot only for the largest bins); a call is a function of its arguments. Tie: the real expand "
              "/ collapse / concat_collocations / Collocator.collocate on generated datasets (1-1300 pairs, five variables per group "
              "incl. two of one shape), call histories (custom incl. view-returning m[0], m[-1], m[h//2]; overriding; plain; "
              "rearranged pairs; other reference) and collocate results incl. seed-independent and random SPARSE, UNORDERED "
              "track / station cases (300-3000 points, 3-12 stations, both roles, flat and gridded) and seed-independent "
              "concatenations of two and three dense collocate results passing 255 and 65535 stored points (dtype of "
              "Collocations/pairs recorded); every third dataset carries a variable with |offset| / spread = 1e5, 1e7 or 1e9 judged "
              "within 8 times the error bound of the two-pass std; id rows, counts, NaN-ness, "
              "field names and view results are compared exactly, mean / std against long-double sums (1e-9), sparse results also "
              "against a brute-force search."),
        note=COMMON_NOTE + " xarray selection/concat and numpy nan-statistics are modelled as list operations and exercised (rounding of nanmean/nanstd compared at 1e-9, infinities not generated); aliasing of numpy views and statelessness are facts about the Python code tied by the view collapsers and call histories, not modelled (collapse_call_independent holds by construction in the stateless model); the numba row-assignment variant is not installed here; real-number axioms and funext in the statistics theorems.",
        technique="Coq proof (induction over pair lists, permutations, real arithmetic on option R) + vm_compute correspondence with certified boolean checkers and exact count / NaN masks",
        design="5/C13"),
    "C15": dict(
        text=("24 theorems (closed under the global context): crash_safe - after EVERY prefix of the primitive I/O sequence of "
              "save_cache (open backup, each write, close, rename), whatever the two files held, the cache file is the previous "
              "or the complete new document; history_safe / history_restart over all sequences of save / crash / restart; "
              "time_roundtrip - strptime(strftime(t)) = t for every datetime from datetime.min to datetime.max to the microsecond "
              "(digit-level model over the proved calendar), with the as-found unpadded %Y kept as asis_time_roundtrip_refuted; "
              "malformed documents (wrong types, missing keys, null/short/bad times anywhere) leave the cache unchanged and warn - "
              "all or nothing, no invented times; find_same_with_cache. The json module is no longer a hypothesis: Model/C15_json.v "
              "is a Gallina model of json.dump / json.load of CPython with default arguments (all escapes incl. surrogate pairs, "
              "integers of any size, lists, dictionaries, null/true/false; floats outside), with json_roundtrip (load (dump v) = v "
              "on the subset: no high surrogate directly before a low one, distinct keys) and json_prefix_free (NO proper prefix of "
              "ANY dumped list is accepted, via json_load_accepts_closed_texts: everything json_load accepts has its strings and "
              "brackets closed); save_load_roundtrip_json / crash_then_restart_json / history_restart_json / truncated_file_json "
              "are the restart and truncation theorems with this codec and no codec hypothesis. Tie: child processes killed by "
              "os._exit after every single primitive (incl. remove / unlink) over several prior states, save histories, restart "
              "round trips, a corruption stream and real interpreter sessions with atexit, all compared with the model evaluated in "
              "Coq; every written cache file is compared byte for byte with json_dump, and json.load's verdict and value with "
              "json_load's on every truncation point, damaged file, foreign-style JSON text and every prefix of the written "
              "documents."),
        note=COMMON_NOTE + " POSIX rename atomicity (no fsync / power-failure model); CPython's json module is modelled (Model/C15_json.v) and compared byte for byte / verdict for verdict on every run, floats, the int() digit limit and the scanner's recursion limit excluded; glibc strftime/strptime is a digit-level model exercised by the runs.",
        technique="Coq proof (induction over crash prefixes and save histories; digit-level time codec round trip over the calendar; recursive-descent JSON codec with round-trip and prefix-freeness (lexical balance) proofs) + vm_compute correspondence with crash injection in child processes and byte-exact comparison of the written files",
        design="5/C15"),
    "C19": dict(
        text=("coq/gen/scores.v (element-wise kernels of mape, bias, quantile_score) is REGENERATED from typhon/retrieval/scores.py on "
              "every run; 23 theorems re-checked against it: quantile_score is the pinball loss (tau|d| below, (1-tau)|d| above), "
              "non-negative, zero iff equal; for EVERY finite non-empty sample and tau in (0,1) a constant minimises the mean loss "
              "over all constants IF AND ONLY IF it is a tau-quantile (quantile_minimises, minimiser_is_quantile - also from "
              "minimality among the sample points only or among c +- delta only; exact slope of the loss between sample values; the "
              "minimum is attained at a sample point, so the exhaustive search over sample points is exact); for a k-vector of "
              "fractions the (n,k) score matrix is column-wise the pinball loss on a list-of-rows model including the flat reshape "
              "and the accept/reject shape contract, and a vector of quantiles minimises every entry of mean_quantile_score; "
              "np.nanmean / np.mean are modelled on NaN-able values and proved equal to the arithmetic mean on NaN-free data; mape and "
              "bias are 0 for perfect predictions, |p| resp. p for a uniform p % offset, permutation and scale invariant. Tie: "
              "translation, a structural tie of mean_quantile_score to nanmean(kernel), interval enclosures of the scalar and matrix "
              "models around the implementation's floats, the shape model against the real accept/reject behaviour, and a numeric law "
              "sweep on samples of 1..1e4 values (exhaustive / rank-neighbour minimiser search, off-sample constants against the "
              "proved slope, unsorted tau vectors in every consistent shape; samples with NaN only for 'no exception, documented shapes')."),
        note=COMMON_NOTE + " Translator trusted for the whitelisted subset (mitigated by enclosures); numpy reshape/broadcast/where hand-modelled and tied by enclosures; inf and a zero truth value are outside the real model; real-number axioms and funext in Print Assumptions.",
        technique="Coq proof over R on kernels translated from the source on every run (lra/nra, induction over samples, sub-gradient argument for both directions of the quantile characterisation) + interval enclosures + numeric law sweep",
        design="5/C19"),
    "C20": dict(
        text=("16 theorems (closed under the global context) in exact rational arithmetic, on the tile table TRANSLATED from "
              "SRTM30._tiles on every run: the table is well formed (27 disjoint tiles covering 60S-90N); for ANY rectangle inside "
              "the covered area get_native_grids yields non-empty consecutive cell centres covering the rectangle with less than "
              "one cell of margin (checker meaning proved); mosaic_cellwise - for any tile contents, entry [i,j] of the mosaic is "
              "the value of the unique tile pixel centred at (lat[i], lon[j]) across 1, 2, 4 or more tiles; get_tiles names exactly "
              "the intersecting tiles once; native grid of a tile's bounds = grid of the tile; download iff absent over every "
              "request history; the as-found latitude arithmetic and -180 normalisation are kept as _refuted theorems. "
              "robust_margin: block, mosaic and tile requests are unchanged when every corner is perturbed by up to 1/M degree "
              "provided the corners are farther than 1/M degree from every cell edge (any M; the check uses 2^-40 degree), and "
              "margin_hypothesis_needed shows the hypothesis is necessary. Tie: the real SRTM30.elevation / get_tiles / get_grids / "
              "get_native_grids / get_tile on synthetic tile files with a recording download stub, coordinates handed to Coq as the "
              "exact rationals of the doubles; in addition the binary64 computations of the implementation are repeated by an "
              "executable Coq model on primitive floats (Model/C20_float.v, not a dependency of the theorems) and compared with the "
              "running code bit for bit on every case (every returned coordinate, tiles in order, cells), including "
              "non-representable corners (10.1, 1/3) and corners 1-4 ulps off cell edges and tile borders; wherever binary64 and "
              "exact arithmetic select different cells the case must lie within 2^-40 degree of an edge (measured: only within "
              "6e-14 degree), otherwise it is a failing input."),
        note=COMMON_NOTE + " The binary64 model itself is tied by bit-exact comparison, not proved against the rational model outside the margin; numpy trunc/arange/linspace/boolean-mask semantics are modelled and exercised; within 2^-40 degree of a cell edge either neighbouring block is accepted (the literal statement can fail there by a few ulps of rounding, see DESIGN 11.2 'observed, not repaired').",
        technique="Coq proof (Z/Q arithmetic with lia, computation on the translated table lifted by lemmas, perturbation margin) + vm_compute correspondence on synthetic tiles + executable binary64 reference model (PrimFloat) compared bit for bit",
        design="5/C20"),
    "C05": dict(
        text=("26 theorems (closed under the global context) about the model of collocate_filesets - find, the C03 file matching with "
              "coverages floored to seconds and widened by max_interval, array_split over the workers, the per-worker bundling "
              "state machine with final flush - and about a transition system of the bounded result queue: union_over_matches / "
              "pipeline_exact - the collocations emitted over all workers and bundles are exactly collocate(all data of A, all data "
              "of B), each once, for EVERY process count, bundle mode and split of the data into files; an unreadable file removes "
              "exactly its own pairs; bundling is lossless. The worker's loop is also stated over the flat pair list with pairs that yield nothing at all in "
              "arbitrary positions (bundling_lossless_with_skips: lagging matches[processed] tags, processed never reaching "
              "len(matches), the last cached bundle included; worker_items_with_skips ties it to the pipeline model), and a final "
              "flush that waits for processed == len(matches) is characterised exactly (guarded_final_flush_exact / _loses: the same "
              "loop without a skipped pair, everything but the worker's last bundle with one). The queue over ALL interleavings: at parent exit exactly what was put "
              "has been yielded (queue_exactly_once), the queue is bounded, from every reachable state an explicit scheduler reaches "
              "the exit within the measure mu <= 20 #items + 5 #workers + 3 (queue_liveness, queue_no_deadlock), any run holds at "
              "most 3 #items + #workers + 1 non-polling actions; the final drain is characterised exactly (drain_needed: a parent "
              "without it loses precisely what is visible in the queue at the snapshot that saw the last worker dead, and such a "
              "run exists for every non-empty workload), the one-get-per-pass parent loses results with two slots but never with "
              "one. Collocator.collocate (C04) enters as a Section variable assumed exact, FileSet.find by its specification. Output "
              "to a fileset is lossless only under pairwise distinct rendered names; same_name_overwrites refutes it otherwise "
              "(open finding F-C05-3, printed as KNOWN-FINDING). Tie: end-to-end runs of collocate_filesets / Collocations.search "
              "with 1-4 processes and a pickle handler, compared with the specification evaluated in Coq (independent long-double "
              "chord oracle), logged queue histories replayed in the queue model, including runs with a caller that pauses after "
              "every yielded dataset and runs in which the parent is held up between empty() and its snapshot."),
        note=COMMON_NOTE + " multiprocessing.Queue (a dead worker has nothing in flight), fair termination, real OS scheduling, pickling and killed workers are outside the model; "
             "the queue bound is a theorem of the model only.",
        technique="Coq proof (NoDup/Permutation refinement to the brute-force collocation; invariants of the bundling loop; queue transition system over all interleavings with liveness by an explicit scheduler and a decreasing measure, exact characterisation of weaker parents) + end-to-end differential runs with schedule perturbations and queue traces evaluated in Coq",
        design="5/C05"),
    "C11": dict(
        text=("38 theorems (closed under the global context) about an executable model of FileSet write / read / collect / find / move / "
              "copy / convert / delete on a disk = finite map path -> content, names from the proved C02 renderer / parser, compression "
              "decided as in files/utils.py: move_conserves (core), progress, write_read, convert_reads_back, written_is_found for "
              "every end spelling C02 proves, delete_exact, dry_run_noop, empty_selection_noop, read / write_with_args, "
              "calls_keep_object, args_do_not_stick, frame theorems lifted to all histories, and move_failure_conserves: when the "
              "conversion of a move fails for some selected files (the user's function raises, the target handler cannot store the "
              "object), then for ANY set of files the parallel workers got through, every selected file is either moved (converted "
              "content under its target name, original removed unless copy) or untouched at its source with nothing under its target "
              "name, a failing file is always of the second kind, and no other path changes (move_given_sound is the boolean form "
              "evaluated on the observed tree, move_sequential the one-worker case); post_reader is a function of the file's own FileInfo "
              "(read_applies_post_reader_to_own_entry with its fileset[t] / collect / convert forms, decompression_is_transparent: "
              "never the temporary decompressed file's) and copy_is_independent (after move(copy=True) a later write to the original "
              "leaves the copy's content, and vice versa); reading operations return the whole disk unchanged (reading_keeps_disk, "
              "read_history_keeps_disk, collect_reads_each_file_alone) and an overwrite leaves exactly what the last write alone "
              "produces (overwrite_forgets, overwrite_reads_last). Tie: random plus directed histories (year end, "
              "removed-then-asked, single-file filesets, failing moves, handlers built from bound methods of three signatures, "
              "copy-then-overwrite-in-place, post_readers that checksum file_info.path / times / attr on plain and .gz / .bz2 / .xz / .zip "
              "filesets through read, fileset[t], fileset[s:e], collect, icollect, convert; compressed filesets with ONE base name in many "
              "sub directories read by slow readers in the default worker pools beside bystander files in temp_dir; NetCDF data sets "
              "with variables in pseudo groups overwritten in place) on real "
              "FileSets in child processes; per-step tree listings canonicalised independently of typhon and compared with the "
              "model's step evaluated in Coq; the object's default dictionaries observed after every call; after a move that raised, "
              "the observed tree must equal the model's move of exactly the files that arrived; a file removed by the object's own "
              "delete() / move() must never be handed out again by fileset[t]; no two paths of the tree may be one inode; the SHA-1 of every file is unchanged across read-only steps."),
        note=COMMON_NOTE + " find() is taken as its brute-force filter (C01); worker pools sequentialised (C10); moves whose target names collide are outside the hypotheses and not compared; NetCDF4 only in the thorough tier, single-threaded, in a child process.",
        technique="Coq proof (induction over the selected files, over operation histories and over call histories on a finite-map disk, reuse of the C02 round-trip theorems for all three end kinds) + vm_compute correspondence of per-step tree listings and of laws evaluated on the implementation's output from child-process runs of the real FileSet",
        design="5/C11"),
    "C16": dict(
        text=("41 theorems (closed under the global context): the boolean checker closest_ok decides the property's specification "
              "for every population, filter, exclusion and timestamp (closest_ok_iff_spec; it accepts exactly the covering "
              "candidates, else exactly the minimisers: accepts_exactly_covering, accepts_exactly_minimisers); the model of "
              "find_closest - exact-name short cut, window t -+ one fixed sub-directory period (366 d / 31 d / day / ...: "
              "period_is_lookback), first covering file, else first nearest end point in find order (search_first_in_order, unique) "
              "- meets that specification (model_meets_spec, none_iff_no_candidate, exact_name_covers via C02). The candidate set is "
              "no longer assumed: composed with the algorithmic model of FileSet.find of C01 (directory walk, look-back, pruning) "
              "the model returns, on every tree inside C01's hypotheses, the covering-or-nearest file among the files whose coverage "
              "meets the window and that pass filters and exclusions, None iff there is none (closest_end_to_end), and equals the "
              "flat model the correspondence runs (composed_is_flat_model); window edges (closed at t - P, open at t + P, covering "
              "file of a neighbouring directory found, files two fixed-length directories away never returned) and the dispatch of "
              "fileset[t] / fileset[t, filters] for datetime, str, tuple and list items (getitem_reads_closest, getitem_meets_spec) "
              "are theorems; filters are dicts with any number of white-list and black-list entries over any number of user "
              "placeholders: a file is a candidate iff every entry lets it pass (all_filters_apply, tree_all_filters_apply) and the "
              "order of the entries is irrelevant to the specification, the checker and both models (dict_order_irrelevant, "
              "filter_order_irrelevant; dict_composed_is_flat with the numbering of placeholders and values proved adequate: "
              "encoded_filters_agree, pool_numbering_ok); single-file filesets answer with their file; the code before fix c46288c is "
              "refuted. Tie on every run: "
              "FileSet.find_closest / fileset[...] (datetime, pandas.Timestamp, str, tuples, lists) on harness-built and 57 directed "
              "edge-case trees, trees with one or two user placeholders and multi-entry filter dicts in both key orders, two decoy FileSet "
              "objects with the same placeholder names and other regexes alive during every query, the time coverage re-assigned after "
              "the object has looked at its files (24 directed trees + half of the random trees without end fields), histories on one object (vanished files, the same filter key asked before with another value), each "
              "answer judged by the certified checker (accepted_iff_spec makes every rejection a failing input), the composed model "
              "evaluated beside it with its hypotheses decided in Coq."),
        note=COMMON_NOTE + " Trusted: find = its C01 model (C01's own tie), get_info (C02, compared per file), the template-to-layout split (decided per generated template and compared with the harness's own per tree), pandas string parsing, Python re/glob/datetime/numpy; timestamps whose window leaves the range of datetime are outside the theorems; np.datetime64 / datetime.date items are outside the documented interface (datetime or str).",
        technique="Coq proof of a certified relational checker (closest_ok <-> ClosestSpec), of the algorithm model against the brute-force specification, and of its composition with the algorithmic model of FileSet.find (C01) on directory trees + differential execution of the real FileSet on generated and directed directory trees, judged inside Coq (vm_compute)",
        design="5/C16"),
    "C01": dict(
        text=("23 theorems (closed under the global context): the search algorithm of FileSet.find (end - 1 us, directory pruning "
              "with a one-period look-back clamped at datetime.min, truncation to the resolution of all levels parsed so far, year-only fallback, closed overlap, "
              "exclusion through the C03 interval tree, white/black lists, stable sort, count and time bundles, `in`, len, "
              "single-file filesets) is modelled in Gallina and proved equal to sort-after-filter for every layout without "
              "placeholder gaps, every population of valid files placed in the directory of their start time and no longer than one "
              "period of the finest level, and EVERY well-formed period - there is no longer a hypothesis on the distance of the start "
              "from datetime.min (find_sound_complete: Sorted, Permutation of the filter, "
              "equal to find_spec); find_each_once, semi_open, exclusion_exact, layout_independent, contains_agrees, len_agrees, both "
              "bundle partitions and the single-file cases; the sort is proved stable and the result is the unique key-sorted "
              "sequence that keeps, coverage by coverage, the order of the directory walk (find_sorted_stable, find_result_unique, "
              "find_stable_any_input); time bundles are exactly the non-empty bins [o + k w, o + (k+1) w), o = midnight of the first "
              "file's day, in increasing order, for every width w > 0 (bin_edges, bundle_freq_bins); the clamp is max(datetime.min, start - P) (lookback_clamped); both "
              "earlier versions of the code are refuted in Coq on inputs meeting every hypothesis: chunk-local resolution "
              "(find_asis_refuted) and the unclamped look-back, which raised OverflowError exactly for 0 < start - datetime.min < P "
              "(lookback_overflow_asis_exact, lookback_overflow_asis_refuted). Tie: the real FileSet on generated directory trees written with the harness's own "
              "renderer (152 quick / 1854 thorough incl. fsspec zip, and a directed stream of 8 layouts with files in years 1-2 asked for "
              "periods starting 1 us ... P + 1 day after datetime.min; 24 directed cases and half of the random ones put the queries to ONE "
              "object whose time_coverage was re-assigned after find() / len / `in` had filled its info cache), compared with the specification inside the hypotheses (a "
              "mismatch is a failing input) and with the algorithmic model outside them; ties of (t0, t1) are checked against the "
              "unsorted stream of the same FileSet, every time-bundle query (widths 30min ... 2D) bin by bin with the Coq edges and "
              "with pandas' own group labels."),
        note=COMMON_NOTE + " Python re/glob/fsspec listing (walk order observed, not proved), pandas' grouping apart from the compared bin edges, and name parsing (C02, cross-checked per found file) are trusted; calendar-dependent frequencies are outside the model.",
        technique="Coq refinement proof (algorithmic model = brute-force specification; monotonicity of calendar truncation; stability and uniqueness of the sort) + differential execution on harness-rendered trees (local and zip) evaluated by vm_compute",
        design="5/C01"),
    "C17": dict(
        text=("coq/gen/oem.v (mathcomp matrix terms) is REGENERATED from typhon/retrieval/oem on every run; 23 theorems, closed under the "
              "global context (coqchk: no axioms), for every ordered field, every shape and every SPD pair S_a, S_y (invertibility "
              "derived from SPD, not assumed): error_covariance_matrix is the two-sided inverse of K^T S_y^-1 K + S_a^-1, is SPD and "
              "<= S_a in the Loewner order (Woodbury form); the gain equals S K^T S_y^-1 and the measurement-space form S_a K^T (K S_a "
              "K^T + S_y)^-1; A = G K = I - S S_a^-1; smoothing_error and retrieval_noise are the stated linear maps. Spectrum: A is "
              "self-adjoint for x^T S_a^-1 y with Rayleigh quotient in [0,1), has no complex eigenpairs, no Jordan blocks, orthogonal "
              "eigenvectors and eigenvalues in [0,1) over every ordered field; over every real closed field every eigenvalue in R[i] "
              "is real in [0,1) and the characteristic polynomial splits into n+1 factors with roots in [0,1) (an explicit eigenbasis "
              "is not constructed). Limits: epsilon-delta, uniformly in the entries, S -> 0 and A -> 0 for vanishing prior variance, "
              "S -> 0 and A -> I for vanishing noise with K of full column rank, with explicit O(d), O(e) bounds per entry. No theorem "
              "is partial. Tie: translation + exact-rational evaluation of the same source expressions inside Coq (inverse certified "
              "per call) against the running code + a 21-law numeric sweep with componentwise conditioning-scaled tolerances, incl. "
              "histories with arrays modified in place."),
        note=COMMON_NOTE + " Translator trusted (cross-checked by the exact evaluation); numpy/scipy matmul/inv up to rounding bridged case by case by first-order error bounds; the Q-matrix model is a second reading of the source, not proved equal to the mathcomp terms; the whole-spectrum theorems need a real closed field (mathcomp real_closed).",
        technique="Coq/mathcomp proof over an arbitrary ordered field on matrix terms translated from the source on every run (self-adjointness argument for the spectrum; real_closed for the complex spectrum) + exact-rational vm_compute evaluation + numeric law sweep",
        design="5/C17"),
    "C04": dict(
        text=("18 theorems (closed under the global context) about the model of Collocator.collocate (common time window, sort, "
              "row-major flattening of grids, NaN index arrays, build-side choice, index cache, temporal pre-binning with offsets and "
              "dataset swap, temporal check, compaction), in the row form and in the form of the code's three separate arrays "
              "(arrays_agree: both forms return the same state and result): pairs_exact - the reported id pairs are exactly the pairs "
              "within distance, within max_interval (whole seconds) and inside [start, end], None iff there is none, for EVERY tuning "
              "(bin width and origin, magnitude_factor, path threshold - hence both code paths) and every Collocator state; "
              "invariant_under_tuning; history_independent; transpose; each pair is reported once on both paths (no pair from two "
              "bins); values_are_of_the_pair - the k-th stored interval is |t_p - t_s| in whole seconds and the k-th stored distance "
              "is the index's distance of exactly the two input points the k-th column of Collocations/pairs names; "
              "compaction_consistent - the output is a valid compact dataset (C13's compact_ok) that expands to exactly the rows of "
              "original_pairs and stores each point once; the as-found allclose cache test is refuted. The spatial tree is a Section "
              "hypothesis (near = chord <= max_distance; GeoIndex.query is C06). Tie: generated histories of 1-5 calls on one "
              "Collocator (flat / grid, labelled / unlabelled, NaNs, poles, date line, >1e6-candidate cases measured to take the "
              "binned path); every returned dataset passes through the certified checker check_output inside Coq (checker_sound), "
              "interval and distance of every row are compared with the model's row for the same id pair, id-pair sets with the "
              "specification on an exact-integer long-double chord oracle with a guard band."),
        note=COMMON_NOTE + " xarray where/dropna/sortby/sel/stack and pandas Grouper/searchsorted are modelled by filter, stable sort, flattening and fixed-width bins (the theorem holds for every bin origin); threshold parsing trusted; the order of stored points is not compared; max_interval=None, max_distance=None and sub-second max_interval are outside the claim.",
        technique="Coq refinement proof (executable model = brute-force specification, induction over lists/bins, lia; certified output checker) + differential correspondence on generated call histories evaluated by vm_compute",
        design="5/C04"),
    "C14": dict(
        text=("45 theorems over the reals about a hand model on lists built on kernels and the ISA table TRANSLATED from the source on "
              "every run; every clause of the statement is a theorem of the model for every input: integrate_column (trapz) is the "
              "Riemann integral (Coquelicot RInt) of the piecewise-linear interpolant (whole range and segment by segment), linear, "
              "additive at grid points, sign-reversing, unit-spaced by default and lane-wise on arrays of any rank; for an integrand "
              "sampled on the grid it is the mean of two Coquelicot Riemann sums over fine pointed subdivisions "
              "(trapz_is_mean_of_riemann_sums) and therefore converges to the Riemann integral on every sequence of monotone grids "
              "(uniform or not, either direction) whose mesh tends to 0 (trapz_converges_to_integral), within (b-a) h^2 M / 12 for C^2 "
              "and (b-a) h L / 2 for Lipschitz integrands on any grid with steps <= h; both forms of integrate_water_vapor inherit "
              "this (limits -1/g int q dp and int rho_v dz for integrable, in particular continuous, profiles), with closed forms "
              "and explicit bounds for an exponential vapour-density column and a quadratic specific-humidity column for all "
              "parameter values; IWV >= 0; over z = pressure2height(p, T_v) the general form minus the hydrostatic form is EXACTLY "
              "the sum of the layer defects, is bounded by the layer contrasts and tends to 0 under refinement (a counterexample "
              "shows the pressure step alone does not suffice); CRH = 1 for the mixed-phase saturated profile and linear in q; "
              "pressure2height starts at 0, is strictly increasing and lies within (RT/g) sum (r-1)^3/12 below (RT/g) ln(p0/p) for "
              "an isothermal column; the standard atmosphere is piecewise linear and its two addressings agree at the tabulated "
              "levels. Tie: translation of the kernels and the ISA table + interval enclosures proved in Coq on grids of 2-50 levels "
              "(ranks 1-4, every axis, the moist-column composite included) + Coq-checked continuum cases (the implementation on "
              "refined grids of the two analytic columns within the proved bound of the closed form) + law sweeps up to 1e4 levels "
              "(saturated profiles from the Murphy-Koop formulas written out in the harness, levels on both regime boundaries)."),
        note=COMMON_NOTE + " numpy reshape/trapezoid/diff/cumsum and scipy interp1d are hand-modelled and tied by the enclosures; IEEE rounding bridged pointwise (also on fine grids); a = b and one-sided C^2 hypotheses not stated; the harness forms T_v (typhon has no virtual-temperature function); x given as an n-d array is not covered; real-number axioms, classic, funext in Print Assumptions.",
        technique="Coq proof (lists over R, Coquelicot RInt / Riemann_sum / filterlim, Peano-kernel error bound, exact layer identity + bounds + limits, interval) on a hand model built on translated kernels + interval enclosures + Coq-checked continuum cases + exact-rational law sweep",
        design="5/C14"),
    "C18": dict(
        text=("14 theorems about a list/real model of BMCI: window_sound - for S symmetric PSD with right inverse Sinv and a unit "
              "eigenpair (lam, v), (d.v)^2 <= lam d^T Sinv d (Cauchy-Schwarz), hence every entry the chi-square pre-selection leaves "
              "out has chi^2 >= 2 x2_max (> x2_max for x2_max > 0); predict returns the importance-weighted mean and standard "
              "deviation - of the whole database for x2_max < 0, of exactly the entries inside the projection window otherwise -, "
              "independent of the arrangement of the entries; the searchsorted slice equals the filter and commutes with order "
              "embeddings; pruning_error bound; the double index bookkeeping yields exactly the window's entries in ascending x "
              "(closed under the global context); the cdf is non-decreasing, in [0,1] and ends at exactly 1; quantiles are monotone "
              "in tau and within the window's x range; the result is None (NaN) exactly when no entry carries weight. Tie: exact "
              "comparison of window and index view on ranks inside Coq and float128 evaluation of the weighted sums with "
              "enclosures that follow cond(S). x2_max = 0 (empty half-open window) is a documented boundary case."),
        note=COMMON_NOTE + " numpy.linalg.inv / eig enter as hypotheses (residual-checked per instance); argsort/searchsorted/cumsum/interp/exp contracts assumed; float64-vs-real gap bridged by the float128 oracle; crps and pdf are outside the property; real-number axioms and funext in Print Assumptions.",
        technique="Coq proof (Cauchy-Schwarz window soundness, weighted statistics and index-view bookkeeping of a list/real model) + differential execution against a float128 oracle and vm_compute on ranks",
        design="5/C18"),
    "C07": dict(
        text=("coq/gen/geodesy.v (sind/cosd/tand, ellipsoid radii, cart2geocentric, geocentric2cart, geodetic2cart, "
              "great_circle_distance, the ellipsoid table) is REGENERATED from typhon/geodesy.py on every run; 22 theorems over the "
              "reals for all ellipsoids with 0 < a, 0 <= e < 1 (the generated six-row table is proved admissible): spherical <-> "
              "cartesian mutually inverse (poles included); points on the ellipsoid have the radii given by ellipsoid_r_geodetic / "
              "ellipsoid_r_geocentric; the true geodetic position is a fixed point of the loop body of cart2geodetic and every fixed "
              "point maps back to (x,y,z) exactly; the iteration is proved CONVERGENT - the loop body is Lipschitz with the explicit "
              "constant e^2 a/(sqrt(1-e^2) D0) (mean value theorem, Coquelicot auto_derive), a contraction with q = 0.0126 on the "
              "stated domain (3000 km <= a <= 70000 km, e <= 0.11 - proved for all six generated models -, -10 km <= h <= 1000 km, "
              "|lat| <= 88 deg), any latitude meeting the stop criterion with tol <= 2e-12 rad is within 2e-10 deg and its height "
              "within 5 mm of the true position, and the fuelled loop started at atan2(z,p) stops within 8 passes with that "
              "accuracy; geocentricposlos2cart / cartposlos2geocentric return zenith and azimuth; the distances are symmetric, zero "
              "iff coincident, bounded, invariant under a common longitude shift, obey the triangle inequality (chord and arc) and "
              "chord = 2R sin(arc/2R). No theorem is partial. Tie: translation + interval enclosures (the hand model of the loop, "
              "tunnel and LOS code is tied by enclosures, incl. the stop criterion at the returned latitude - the hypothesis of the "
              "accuracy theorem - and by the observed number of passes of the real loop) + a numeric law sweep with longdouble "
              "oracles incl. fixed high-latitude probes and the law that conversions leave the caller's arrays untouched."),
        note=COMMON_NOTE + " Translator trusted (mitigated by enclosures); the loop / LOS model is hand-written, not translated; existence of a geodetic preimage for an arbitrary cartesian point is not proved (the theorems quantify over (h, lat, lon) as the property does); numpy broadcasting and IEEE rounding bridged pointwise; cart2geocentric with optional arguments, the pole branch of geocentricposlos2cart and the za0/aa0 branch are outside the model; real-number axioms, classic, funext in Print Assumptions.",
        technique="Coq proof over R on definitions translated from the source on every run (trigonometric case analysis, field/nra/interval; Coquelicot auto_derive + mean value theorem for the contraction bound) + hand model of the cart2geodetic loop and LOS conversions + interval enclosures + pass counter on the real loop + numeric law sweep",
        design="5/C07"),
}


def main():
    checks = []
    for pid in ALL:
        if pid not in CHECKS:
            continue
        c = CHECKS[pid]
        checks.append({
            "property_id": pid,
            "quick_cmd": f"./check {pid} quick",
            "thorough_cmd": f"./check {pid} thorough",
            "evidence_file": f"/verif/evidence/{pid}.json",
            "replay_cmd_template": f"./check {pid} --replay {{path}}",
            "engine": "coq-proof+correspondence",
            "level_claimed": {"category": "proof", "text": c["text"], "design_ref": c["design"]},
            "level_note": c["note"],
            "technique": c["technique"],
        })
    na = [{"property_id": pid, "reason": "check not built yet in this session (planned, DESIGN.md section 5); an executable model exists in the design, so this is not a claim of inapplicability"}
          for pid in ALL if pid not in CHECKS]
    man = {
        "version": 1,
        "setup_cmd": "./setup.sh",
        "hooks": {"guard": "TYPHON_VERIF", "enable": "no source hooks are needed: the harness wraps module-level names from outside; checks export TYPHON_VERIF=1 anyway",
                  "baseline_off_cmd": "/verif/tools/baseline.sh", "source_commits": [], "add_only": True},
        "engines": [{"name": "coq-proof+correspondence", "path": "/verif/check",
                     "serves_properties": [c["property_id"] for c in checks],
                     "kind_free_text": "Coq 8.16.1 theorems about Gallina models (coq/theories), models tied to /repo by a Python-ast translator (coq/gen, regenerated every run) or by differential execution evaluated with vm_compute inside Coq"}],
        "checks": checks,
        "notes": "Fix commits in /repo are listed in known_findings.json (status fixed). See DESIGN.md.",
        "not_applicable": na,
    }
    (VERIF / "MANIFEST.json").write_text(json.dumps(man, indent=1) + "\n")
    print(f"MANIFEST.json: {len(checks)} checks, {len(na)} not claimed")


if __name__ == "__main__":
    main()
