"""Fail-closed translator: a whitelisted subset of Python/numpy formula code -> Coq definitions over R.

Anything outside the subset raises Untranslatable (with the source line); the caller then emits no
definition for that function, so every proof that mentions it stops compiling.

Supported (see DESIGN 2.2, mode 1/2):
  statements  docstring; `x = expr`; `a, b = f(...)`; `a, b, .. = map(np.radians, [..])`; `x op= expr`;
              `return expr | tuple`; string-constant assignments (ignored); `inrange(..)` and
              `if np.any(cond): raise` guards (recorded as <f>_raises : Prop);
              `if P is None: P = <default>` for parameters; scalar `if/elif/else` (continuation style);
              the mask idiom `X[m] = Y[m]` with `m = <comparison>`; the float-input plumbing of e_eq_mixed_mk
  expressions + - * / ** (integer and .5 exponents), unary -, numbers, names, constants.X, np.pi,
              P[0] / P[1] on tuple parameters, np.exp log sqrt sin cos tan tanh arcsin arccos arctan arctan2
              hypot deg2rad rad2deg radians divide abs real, np.ones(np.shape(x)) (broadcast idiom = 1),
              x.ravel() / x.copy() (identity on scalars), calls of translated functions and of function parameters
  complex     (spec "complex": [params]) a complex parameter p is the pair of reals p_re, p_im; + - * / and unary - on
              complex values are written out on the pairs ((a+ib)/(c+id) = ((ac+bd) + i(bc-ad))/(cc+dd)); a local bound
              to a complex value becomes the two lets x_re, x_im (numerator/denominator of a complex quotient are bound
              first as x_n_*, x_d_*); a returned complex is the pair (re, im); a complex value anywhere else (function
              argument other than a complex parameter of a translated callee, power, comparison) is Untranslatable.
              spec "calls": {callee: variant} picks the specialisation of a translated callee (e.g. snell_complex_n2)
"""
import ast
import re

RESERVED = {"as", "at", "in", "let", "fun", "end", "if", "then", "else", "return", "Type", "Prop", "Set", "fix",
            "match", "with", "for", "forall", "exists", "exp", "ln", "sqrt", "sin", "cos", "tan", "atan", "asin", "acos",
            "tanh", "PI", "R", "Z", "N", "pow", "e", "IF", "where", "using", "mod"}


class Untranslatable(Exception):
    pass


def ident(name):
    n = re.sub(r"\W", "_", name)
    if n in RESERVED or n.startswith("_"):
        n = "v_" + n.lstrip("_")
    return n


def number(v):
    if isinstance(v, bool):
        raise Untranslatable("boolean constant")
    if isinstance(v, int):
        return str(v) if v >= 0 else f"(- {abs(v)})"
    if isinstance(v, float):
        if v != v or v in (float("inf"), float("-inf")):
            raise Untranslatable("non-finite float constant")
        s = repr(abs(v))
        if s.endswith(".0"):
            s = s[:-2]
        return s if v >= 0 else f"(- {s})"
    raise Untranslatable(f"constant {v!r}")


NP1 = {"exp": "exp", "log": "ln", "sqrt": "sqrt", "sin": "sin", "cos": "cos", "tan": "tan", "tanh": "tanh",
       "arcsin": "asin", "arccos": "acos", "arctan": "atan", "abs": "Rabs", "absolute": "Rabs"}


class Fn:
    """Translation of one function definition."""

    def __init__(self, mod, node, spec):
        self.mod, self.node, self.spec = mod, node, spec or {}
        self.name = self.spec.get("as", node.name)
        self.guards = []          # Coq Props under which the function raises
        self.notes = []
        self.fun_params = {}      # parameter -> default function name (or None)
        self.tuple_params = {}    # parameter -> arity
        self.none_params = set(self.spec.get("none", ()))   # parameters specialised to None
        self.params = []
        self.masks = {}
        self.used_consts = set()
        self.reduction = None
        self.rettype = None       # set when complex values are returned (pairs of reals)
        self.prefix = []          # let-bindings in force (so that guards can mention locals)
        self.skip = [re.compile(p) for p in self.spec.get("skip_patterns", ())]
        self.skipped = [0] * len(self.skip)

    def fail(self, node, why):
        raise Untranslatable(f"{self.node.name}:{getattr(node, 'lineno', '?')}: {why}")

    # ---------------------------------------------------------------- expressions
    def expr(self, n, env):
        if isinstance(n, ast.Constant):
            return number(n.value)
        if isinstance(n, ast.Name):
            if n.id in env:
                if not isinstance(env[n.id], str):
                    self.fail(n, f"complex value {n.id} used where a real is expected")
                return env[n.id]
            self.fail(n, f"unknown name {n.id}")
        if isinstance(n, ast.Attribute):
            if isinstance(n.value, ast.Name) and n.value.id == "constants":
                self.used_consts.add(n.attr)
                return "c_" + n.attr
            if isinstance(n.value, ast.Name) and n.value.id in ("np", "numpy", "math") and n.attr == "pi":
                return "PI"
            self.fail(n, f"attribute {ast.unparse(n)}")
        if isinstance(n, ast.UnaryOp):
            if isinstance(n.op, ast.USub):
                return f"(- {self.expr(n.operand, env)})"
            if isinstance(n.op, ast.UAdd):
                return self.expr(n.operand, env)
            self.fail(n, "unary operator")
        if isinstance(n, ast.BinOp):
            if isinstance(n.op, ast.Pow):
                return self.power(n, env)
            a, b = self.expr(n.left, env), self.expr(n.right, env)
            op = {ast.Add: "+", ast.Sub: "-", ast.Mult: "*", ast.Div: "/"}.get(type(n.op))
            if not op:
                self.fail(n, f"operator {type(n.op).__name__}")
            return f"({a} {op} {b})"
        if isinstance(n, ast.Subscript):
            if isinstance(n.value, ast.Name) and n.value.id in self.tuple_params and isinstance(n.slice, ast.Constant) \
                    and isinstance(n.slice.value, int) and 0 <= n.slice.value < self.tuple_params[n.value.id]:
                return f"{ident(n.value.id)}_{n.slice.value}"
            self.fail(n, f"subscript {ast.unparse(n)}")
        if isinstance(n, ast.Call):
            return self.call(n, env)
        self.fail(n, f"expression {type(n).__name__}")

    # ---------------------------------------------------------------- complex values (pairs of reals)
    def is_cx(self, n, env):
        """Does the expression denote a complex value (syntactically: it mentions a complex parameter or local)?"""
        if isinstance(n, ast.Name):
            if n.id in env:
                return not isinstance(env[n.id], str)
            return n.id in self.spec.get("complex", ())
        if isinstance(n, ast.UnaryOp):
            return self.is_cx(n.operand, env)
        if isinstance(n, ast.BinOp):
            return self.is_cx(n.left, env) or self.is_cx(n.right, env)
        return False

    def cexpr(self, n, env, binds, hint):
        """Returns (re, im) as Coq terms; im is None for a real value. Lets needed for quotients are appended to binds."""
        if not self.is_cx(n, env):
            return self.expr(n, env), None
        if isinstance(n, ast.Name):
            if n.id in env:
                return env[n.id][1], env[n.id][2]
            return f"{ident(n.id)}_re", f"{ident(n.id)}_im"
        if isinstance(n, ast.UnaryOp):
            if isinstance(n.op, ast.UAdd):
                return self.cexpr(n.operand, env, binds, hint)
            if isinstance(n.op, ast.USub):
                a, b = self.cexpr(n.operand, env, binds, hint)
                return f"(- {a})", f"(- {b})"
            self.fail(n, "unary operator on a complex value")
        if isinstance(n, ast.BinOp):
            op = type(n.op)
            if op not in (ast.Add, ast.Sub, ast.Mult, ast.Div):
                self.fail(n, f"operator {op.__name__} on a complex value")
            (a, b), (c, d) = self.cexpr(n.left, env, binds, hint), self.cexpr(n.right, env, binds, hint)
            if op in (ast.Add, ast.Sub):
                o = "+" if op is ast.Add else "-"
                if d is None:
                    return f"({a} {o} {c})", b
                if b is None:
                    return f"({a} {o} {c})", (d if op is ast.Add else f"(- {d})")
                return f"({a} {o} {c})", f"({b} {o} {d})"
            if op is ast.Mult:
                if d is None:
                    return f"({a} * {c})", f"({b} * {c})"
                if b is None:
                    return f"({a} * {c})", f"({a} * {d})"
                return f"(({a} * {c}) - ({b} * {d}))", f"(({a} * {d}) + ({b} * {c}))"
            if d is None:                                   # complex / real
                return f"({a} / {c})", f"({b} / {c})"
            # quotient with a complex denominator: bind numerator and denominator first
            k = sum(1 for x in binds if x[0].startswith(f"{hint}_d")) // 2
            sfx = "" if k == 0 else str(k + 1)
            nr, ni, dr, di = (f"{hint}_n{sfx}_re", f"{hint}_n{sfx}_im", f"{hint}_d{sfx}_re", f"{hint}_d{sfx}_im")
            binds.append((nr, a))
            if b is not None:
                binds.append((ni, b))
            binds.append((dr, c))
            binds.append((di, d))
            den = f"(({dr} * {dr}) + ({di} * {di}))"
            if b is None:
                return f"(({nr} * {dr}) / {den})", f"((- ({nr} * {di})) / {den})"
            return f"((({nr} * {dr}) + ({ni} * {di})) / {den})", f"((({ni} * {dr}) - ({nr} * {di})) / {den})"
        self.fail(n, f"complex expression {type(n).__name__}")

    def let_complex(self, pyname, v, rest, env):
        c = ident(pyname)
        binds = []
        re_, im_ = self.cexpr(v, env, binds, c)
        binds += [(f"{c}_re", re_), (f"{c}_im", im_)]
        taken = {x for x in env.values() if isinstance(x, str)} | {y for x in env.values() if not isinstance(x, str) for y in x[1:]}
        for nm, _ in binds:
            if nm in taken or any(f"let {nm} :=" in p for p in self.prefix):
                self.fail(v, f"name clash for the complex local {nm}")
        env2 = dict(env)
        env2[pyname] = ("cx", f"{c}_re", f"{c}_im")
        out = [f"let {nm} := {val} in" for nm, val in binds]
        self.prefix += out
        try:
            return "\n  ".join(out) + "\n  " + self.body(rest, env2)
        finally:
            del self.prefix[-len(out):]

    def power(self, n, env):
        base = self.expr(n.left, env)
        e = n.right
        neg = False
        if isinstance(e, ast.UnaryOp) and isinstance(e.op, ast.USub) and isinstance(e.operand, ast.Constant):
            neg, e = True, e.operand
        if not isinstance(e, ast.Constant) or isinstance(e.value, bool):
            self.fail(n, "exponent is not a numeric constant")
        v = e.value
        if isinstance(v, float) and v == int(v):
            v = int(v)
        if isinstance(v, int) and v >= 0:
            r = f"({base} ^ {v})"
        elif v == 0.5:
            r = f"(sqrt {base})"
        else:
            self.fail(n, f"exponent {v}")
        return f"(/ {r})" if neg else r

    def call(self, n, env):
        f = n.func
        args = n.args
        if n.keywords and not (isinstance(f, ast.Name) and f.id in self.mod.sigs):
            self.fail(n, "keyword arguments in call")
        if isinstance(f, ast.Attribute) and isinstance(f.value, ast.Name) and f.value.id in ("np", "numpy"):
            a = f.attr
            if a in NP1 and len(args) == 1:
                return f"({NP1[a]} {self.expr(args[0], env)})"
            if a in ("deg2rad", "radians") and len(args) == 1:
                return f"({self.expr(args[0], env)} * PI / 180)"
            if a in ("rad2deg", "degrees") and len(args) == 1:
                return f"({self.expr(args[0], env)} * 180 / PI)"
            if a == "divide" and len(args) == 2:
                return f"({self.expr(args[0], env)} / {self.expr(args[1], env)})"
            if a == "arctan2" and len(args) == 2:
                return f"(atan2 {self.expr(args[0], env)} {self.expr(args[1], env)})"
            if a == "hypot" and len(args) == 2:
                x, y = self.expr(args[0], env), self.expr(args[1], env)
                return f"(sqrt ({x} ^ 2 + {y} ^ 2))"
            if a == "where" and len(args) == 3:
                dec, _ = self.cond(args[0], env)
                return f"(if {dec} then {self.expr(args[1], env)} else {self.expr(args[2], env)})"
            if a in ("mean", "nanmean") and len(args) == 1 and self.spec.get("reduction") and not self.reduction:
                self.reduction = a
                return self.expr(args[0], env)
            if a in ("real", "imag") and len(args) == 1 and isinstance(args[0], ast.Name) \
                    and args[0].id in self.spec.get("complex", ()) and args[0].id not in env:
                return f"{ident(args[0].id)}_{'re' if a == 'real' else 'im'}"
            if a == "real" and len(args) == 1 and self.spec.get("real"):
                return self.expr(args[0], env)
            if a == "imag" and len(args) == 1 and self.spec.get("real"):
                self.expr(args[0], env)
                return "0"
            if a == "ones" and len(args) == 1 and isinstance(args[0], ast.Call) \
                    and ast.unparse(args[0].func) in ("np.shape", "numpy.shape"):
                return "1"          # np.ones(np.shape(x)) * v : broadcast idiom
            self.fail(n, f"numpy function {a}")
        if isinstance(f, ast.Attribute) and f.attr in ("ravel", "copy", "flatten") and not args:
            return self.expr(f.value, env)      # identity on the scalar an element-wise kernel sees
        if isinstance(f, ast.Name):
            if f.id in self.fun_params:
                return "(" + " ".join([ident(f.id)] + [self.expr(a, env) for a in args]) + ")"
            if f.id in ("abs",) and len(args) == 1:
                return f"(Rabs {self.expr(args[0], env)})"
            if f.id in self.mod.sigs:
                return self.call_translated(n, f.id, env)
            self.fail(n, f"call of untranslated function {f.id}")
        self.fail(n, f"call {ast.unparse(f)}")

    def call_translated(self, n, name, env):
        name = self.spec.get("calls", {}).get(name, name)
        if name not in self.mod.sigs:
            self.fail(n, f"call of untranslated function {name}")
        sig = self.mod.sigs[name]
        vals = {}
        pos = list(n.args)
        for p, a in zip(sig["pyparams"], pos):
            vals[p] = a
        if len(pos) > len(sig["pyparams"]):
            self.fail(n, "too many arguments")
        for kw in n.keywords:
            if kw.arg is None or kw.arg not in sig["pyparams"]:
                self.fail(n, "unsupported keyword")
            vals[kw.arg] = kw.value
        out = []
        for p in sig["pyparams"]:
            kind = sig["kinds"][p]
            if kind == "none":
                if p in vals and not (isinstance(vals[p], ast.Constant) and vals[p].value is None):
                    self.fail(n, f"argument {p} given but callee is specialised to None")
                continue
            if p in vals:
                a = vals[p]
                if kind == "fun":
                    if isinstance(a, ast.Name) and a.id in self.fun_params:
                        out.append(ident(a.id))
                    elif isinstance(a, ast.Name) and a.id in self.mod.sigs:
                        out.append(self.mod.sigs[a.id]["coqname"])
                    else:
                        self.fail(n, "function argument")
                elif kind == "complex":
                    if isinstance(a, ast.Name) and self.is_cx(a, env):
                        out += list(self.cexpr(a, env, [], ident(a.id)))
                    else:
                        self.fail(n, f"argument {p}: the callee expects a complex value given by name")
                elif kind == "tuple":
                    if isinstance(a, ast.Name) and a.id in self.tuple_params:
                        out += [f"{ident(a.id)}_{i}" for i in range(self.tuple_params[a.id])]
                    else:
                        self.fail(n, "tuple argument")
                else:
                    out.append(self.expr(a, env))
            else:
                d = sig["defaults"].get(p)
                if d is None:
                    self.fail(n, f"missing argument {p}")
                out.append(d)
        return "(" + " ".join([sig["coqname"]] + out) + ")"

    # ---------------------------------------------------------------- conditions
    def cond(self, n, env):
        """Returns (coq_sumbool_term, coq_Prop) for a scalar comparison."""
        if isinstance(n, ast.Compare) and len(n.ops) == 1:
            a, b = self.expr(n.left, env), self.expr(n.comparators[0], env)
            op = type(n.ops[0])
            table = {ast.Lt: (f"Rlt_dec {a} {b}", f"{a} < {b}"), ast.LtE: (f"Rle_dec {a} {b}", f"{a} <= {b}"),
                     ast.Gt: (f"Rlt_dec {b} {a}", f"{b} < {a}"), ast.GtE: (f"Rle_dec {b} {a}", f"{b} <= {a}"),
                     ast.Eq: (f"Req_EM_T {a} {b}", f"{a} = {b}")}
            if op in table:
                return table[op]
        self.fail(n, f"condition {ast.unparse(n)}")

    def guard_cond(self, n, env):
        """Condition of `if <cond>: raise`: np.any(c), c1 or c2."""
        if isinstance(n, ast.BoolOp) and isinstance(n.op, ast.Or):
            return "(" + " \\/ ".join(self.guard_cond(v, env) for v in n.values) + ")"
        if isinstance(n, ast.Call) and ast.unparse(n.func) in ("np.any", "numpy.any") and len(n.args) == 1:
            return self.guard_cond(n.args[0], env)
        return "(" + self.cond(n, env)[1] + ")"

    # ---------------------------------------------------------------- statements
    def body(self, stmts, env):
        """Translate a statement list into a Coq term (continuation style)."""
        if not stmts:
            self.fail(self.node, "control reaches the end of the function without return")
        s, rest = stmts[0], stmts[1:]
        if isinstance(s, ast.Expr) and isinstance(s.value, ast.Constant) and isinstance(s.value.value, str):
            return self.body(rest, env)
        src = " ".join(ast.unparse(s).split())
        for k, pat in enumerate(self.skip):
            if pat.fullmatch(src):
                self.skipped[k] += 1
                self.notes.append(f"line {s.lineno}: `{src[:70]}` is shape plumbing, modelled by hand")
                return self.body(rest, env)
        if isinstance(s, ast.Return):
            if s.value is None:
                self.fail(s, "bare return")
            if isinstance(s.value, ast.Tuple) and any(self.is_cx(e, env) for e in s.value.elts):
                parts, tys = [], []
                for e in s.value.elts:
                    if not isinstance(e, ast.Name):
                        self.fail(s, "complex values are returned by name")
                    a, b = self.cexpr(e, env, [], "")
                    parts.append(a if b is None else f"({a}, {b})")
                    tys.append("R" if b is None else "(R * R)")
                self.rettype = " * ".join(tys)
                return "(" + ", ".join(parts) + ")"
            if isinstance(s.value, ast.Tuple):
                return "(" + ", ".join(self.expr(e, env) for e in s.value.elts) + ")"
            if self.is_cx(s.value, env):
                if not isinstance(s.value, ast.Name):
                    self.fail(s, "complex values are returned by name")
                self.rettype = "R * R"
                return "(" + ", ".join(self.cexpr(s.value, env, [], "")) + ")"
            if isinstance(s.value, ast.IfExp) and ast.unparse(s.value.test) == "is_float_input":
                return self.expr(s.value.orelse, env)        # `return x[0] if is_float_input else x`
            return self.expr(s.value, env)
        if isinstance(s, ast.Expr) and isinstance(s.value, ast.Call) and ast.unparse(s.value.func) == "inrange":
            self.inrange(s.value, env)
            return self.body(rest, env)
        if isinstance(s, ast.AugAssign) and isinstance(s.target, ast.Name):
            op = {ast.Add: "+", ast.Sub: "-", ast.Mult: "*", ast.Div: "/"}.get(type(s.op))
            if not op or s.target.id not in env or not isinstance(env[s.target.id], str) or self.is_cx(s.value, env):
                self.fail(s, "augmented assignment")
            v = f"({env[s.target.id]} {op} {self.expr(s.value, env)})"
            return self.let(s.target.id, v, rest, env)
        if isinstance(s, ast.Assign) and len(s.targets) == 1:
            return self.assign(s, rest, env)
        if isinstance(s, ast.If):
            return self.if_(s, rest, env)
        self.fail(s, f"statement {type(s).__name__}: {ast.unparse(s)[:60]}")

    def let(self, pyname, value, rest, env):
        c = ident(pyname)
        env2 = dict(env)
        env2[pyname] = c
        self.prefix.append(f"let {c} := {value} in")
        try:
            return f"let {c} := {value} in\n  {self.body(rest, env2)}"
        finally:
            self.prefix.pop()

    def add_guard(self, prop):
        self.guards.append("(" + " ".join(self.prefix + [prop]) + ")")

    def assign(self, s, rest, env):
        t, v = s.targets[0], s.value
        # plumbing of e_eq_mixed_mk: is_float_input = isinstance(T, Number)
        if isinstance(t, ast.Name) and t.id == "is_float_input" and ast.unparse(v).startswith("isinstance("):
            self.notes.append(f"line {s.lineno}: scalar/array plumbing ignored (pointwise translation)")
            return self.body(rest, env)
        if isinstance(t, ast.Name) and isinstance(v, ast.Constant) and isinstance(v.value, str):
            return self.body(rest, env)
        # mask definition: m = <comparison>
        if isinstance(t, ast.Name) and isinstance(v, ast.Compare):
            self.masks = dict(self.masks)
            self.masks[t.id] = (v, dict(env))
            return self.body(rest, env)
        # mask assignment: X[m] = Y[m]
        if isinstance(t, ast.Subscript) and isinstance(t.value, ast.Name) and isinstance(t.slice, ast.Name) \
                and t.slice.id in self.masks and isinstance(v, ast.Subscript) and isinstance(v.slice, ast.Name) \
                and v.slice.id == t.slice.id and isinstance(env.get(t.value.id), str):
            cnode, cenv = self.masks[t.slice.id]
            dec, _ = self.cond(cnode, cenv)
            val = f"(if {dec} then {self.expr(v.value, env)} else {env[t.value.id]})"
            return self.let(t.value.id, val, rest, env)
        if isinstance(t, ast.Name) and self.is_cx(v, env):
            return self.let_complex(t.id, v, rest, env)
        if isinstance(t, ast.Name):
            return self.let(t.id, self.expr(v, env), rest, env)
        if isinstance(t, ast.Tuple) and all(isinstance(e, ast.Name) for e in t.elts):
            names = [e.id for e in t.elts]
            # a, b, .. = map(np.radians, [x, y, ..])
            if isinstance(v, ast.Call) and ast.unparse(v.func) == "map" and len(v.args) == 2 \
                    and isinstance(v.args[1], (ast.List, ast.Tuple)) and len(v.args[1].elts) == len(names):
                fnode = v.args[0]
                vals = [self.expr(ast.Call(func=fnode, args=[e], keywords=[]), env) for e in v.args[1].elts]
                env2 = dict(env)
                out = []
                for nme, val in zip(names, vals):
                    c = ident(nme) + "_r" if nme in env else ident(nme)
                    out.append(f"let {c} := {val} in")
                    env2[nme] = c
                self.prefix += out
                try:
                    return "\n  ".join(out) + "\n  " + self.body(rest, env2)
                finally:
                    del self.prefix[-len(out):]
            if isinstance(v, ast.Call) and isinstance(v.func, ast.Name) and v.func.id in self.mod.sigs:
                if self.mod.sigs[v.func.id]["arity"] != len(names) or self.mod.sigs[v.func.id].get("rettype"):
                    self.fail(s, "tuple arity")
                env2 = dict(env)
                cs = []
                for nme in names:
                    env2[nme] = ident(nme)
                    cs.append(ident(nme))
                bind = f"let '({', '.join(cs)}) := {self.expr(v, env)} in"
                self.prefix.append(bind)
                try:
                    return f"{bind}\n  {self.body(rest, env2)}"
                finally:
                    self.prefix.pop()
        self.fail(s, f"assignment {ast.unparse(s)[:70]}")

    def inrange(self, call, env):
        a = call.args
        if len(a) != 3:
            self.fail(call, "inrange arguments")
        x, lo, hi = (self.expr(e, env) for e in a)
        excl = "none"
        for kw in call.keywords:
            if kw.arg == "exclude" and isinstance(kw.value, ast.Constant):
                excl = kw.value.value
            elif kw.arg != "text":
                self.fail(call, "inrange keyword")
        lo_bad = f"{x} <= {lo}" if excl in ("lower", "both") else f"{x} < {lo}"
        hi_bad = f"{hi} <= {x}" if excl in ("upper", "both") else f"{hi} < {x}"
        self.add_guard(f"({lo_bad} \\/ {hi_bad})")

    def if_(self, s, rest, env):
        test = s.test
        # if P is None: P = default
        if isinstance(test, ast.Compare) and isinstance(test.ops[0], ast.Is) and isinstance(test.left, ast.Name) \
                and isinstance(test.comparators[0], ast.Constant) and test.comparators[0].value is None:
            p = test.left.id
            if p in self.fun_params or p in self.tuple_params:
                if len(s.body) == 1 and isinstance(s.body[0], ast.Assign) and not s.orelse \
                        and ast.unparse(s.body[0].targets[0]) == p:
                    self.notes.append(f"line {s.lineno}: default of `{p}` is `{ast.unparse(s.body[0].value)}`"
                                      " (the translated function takes it as an argument)")
                    return self.body(rest, env)
                self.fail(s, "default idiom")
            if p in self.none_params:
                return self.body(list(s.body) + rest, env)
            if p in env:                                    # parameter given: else-branch
                return self.body(list(s.orelse) + rest, env)
            self.fail(s, f"`{p} is None`")
        # if is_float_input: T = np.asarray([T])
        if ast.unparse(test) == "is_float_input" and not s.orelse and len(s.body) == 1 \
                and re.fullmatch(r"(\w+) = np\.asarray\(\[\1\]\)", ast.unparse(s.body[0])):
            return self.body(rest, env)
        # if all(x is not None for x in [optional parameters]) -> skipped when they are specialised to None
        m = re.fullmatch(r"all\(\(?x is not None for x in \[([\w, ]+)\]\)?\)", ast.unparse(test))
        if m and not s.orelse:
            names = [x.strip() for x in m.group(1).split(",")]
            if all(nm in self.none_params for nm in names):
                self.notes.append(f"line {s.lineno}: block for optional arguments {names} not translated "
                                  "(function specialised to their default None)")
                return self.body(rest, env)
            self.fail(s, "optional-argument block")
        # branch fixed by the specialisation (e.g. real refractive indices)
        pick = self.spec.get("branches", {}).get(ast.unparse(test))
        if pick == "body":
            self.notes.append(f"line {s.lineno}: branch `{ast.unparse(test)}` taken (specialisation)")
            return self.body(list(s.body) + rest, env)
        if pick == "orelse":
            self.notes.append(f"line {s.lineno}: branch `{ast.unparse(test)}` not taken (specialisation)")
            return self.body(list(s.orelse) + rest, env)
        # guard: if <cond>: raise
        if len(s.body) == 1 and isinstance(s.body[0], ast.Raise) and not s.orelse:
            self.add_guard(self.guard_cond(test, env))
            return self.body(rest, env)
        # scalar branch
        dec, _ = self.cond(test, env)
        return (f"(if {dec}\n   then {self.body(list(s.body) + rest, env)}\n"
                f"   else {self.body(list(s.orelse) + rest, env)})")

    # ---------------------------------------------------------------- whole function
    def translate(self):
        node = self.node
        a = node.args
        if a.vararg or a.kwonlyargs or a.posonlyargs:
            self.fail(node, "unsupported parameter kinds")
        if a.kwarg and not self.spec.get("ignore_kwargs"):
            self.fail(node, "**kwargs")
        pyparams = [p.arg for p in a.args]
        defaults = dict(zip(pyparams[len(pyparams) - len(a.defaults):], a.defaults))
        env, coqparams, kinds, coqdefaults = {}, [], {}, {}
        body_src = ast.unparse(node)
        for p in pyparams:
            if p in self.none_params:
                d = defaults.get(p)
                if not (isinstance(d, ast.Constant) and d.value is None):
                    self.fail(node, f"{p} specialised to None but its default is not None")
                kinds[p] = "none"
                continue
            if p in self.spec.get("complex", ()):
                kinds[p] = "complex"
                coqparams += [f"{ident(p)}_re", f"{ident(p)}_im"]
                continue
            if p in self.spec.get("tuples", {}):
                k = self.spec["tuples"][p]
                self.tuple_params[p] = k
                kinds[p] = "tuple"
                coqparams += [f"{ident(p)}_{i}" for i in range(k)]
                continue
            d = defaults.get(p)
            if isinstance(d, ast.Constant) and d.value is None and re.search(rf"\b{p}\(", body_src):
                self.fun_params[p] = None
                kinds[p] = "fun"
                coqparams.append(f"({ident(p)} : R -> R)")
                env[p] = ident(p)
                continue
            kinds[p] = "R"
            env[p] = ident(p)
            coqparams.append(ident(p))
            if d is not None and not (isinstance(d, ast.Constant) and d.value is None):
                coqdefaults[p] = self.expr(d, {})
        term = self.body(list(node.body), env)
        for k, cnt in enumerate(self.skipped):
            if cnt != 1:
                self.fail(node, f"plumbing pattern {self.skip[k].pattern!r} matched {cnt} times (expected once)")
        if self.spec.get("reduction") and not self.reduction:
            self.fail(node, "expected a mean/nanmean reduction of an element-wise kernel")
        arity = self.return_arity(node)
        return {"coqname": ident(self.name), "pyparams": pyparams, "kinds": kinds, "defaults": coqdefaults,
                "coqparams": coqparams, "term": term, "arity": arity, "guards": self.guards, "notes": self.notes,
                "lineno": node.lineno, "reduction": self.reduction, "rettype": self.rettype}

    @staticmethod
    def return_arity(node):
        ar = set()
        for n in ast.walk(node):
            if isinstance(n, ast.Return) and n.value is not None:
                ar.add(len(n.value.elts) if isinstance(n.value, ast.Tuple) else 1)
        return ar.pop() if len(ar) == 1 else None


class Module:
    def __init__(self, path, text):
        self.path = path
        self.tree = ast.parse(text)
        self.funcs = {n.name: n for n in self.tree.body if isinstance(n, ast.FunctionDef)}
        self.sigs = {}
        self.results = []      # (pyname, coqname, ok, info)
        self.used_consts = set()

    def translate(self, pyname, spec=None):
        spec = spec or {}
        key = spec.get("as", pyname)
        if pyname not in self.funcs:
            self.results.append((pyname, key, False, "function not found in the source"))
            return None
        fn = Fn(self, self.funcs[pyname], spec)
        try:
            r = fn.translate()
        except Untranslatable as e:
            self.results.append((pyname, key, False, str(e)))
            return None
        except RecursionError:
            self.results.append((pyname, key, False, "recursion limit"))
            return None
        self.used_consts |= fn.used_consts
        if "as" not in spec:
            self.sigs[pyname] = r
        else:
            self.sigs.setdefault(pyname, r)
            self.sigs[key] = r
        self.results.append((pyname, key, True, r))
        return r


def render(r, rettype=None):
    ty = rettype or r.get("rettype") or ("R" if r["arity"] == 1 else " * ".join(["R"] * (r["arity"] or 1)))
    params = " ".join(p if p.startswith("(") else f"({p} : R)" for p in r["coqparams"])
    out = [f"(* line {r['lineno']} *)"]
    for note in r["notes"]:
        out.append(f"(* {note} *)")
    out.append(f"Definition {r['coqname']} {params} : {ty} :=\n  {r['term']}.")
    if r["guards"]:
        out.append(f"Definition {r['coqname']}_raises {params} : Prop :=\n  " + " \\/ ".join(r["guards"]) + ".")
    return "\n".join(out) + "\n"
