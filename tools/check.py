"""Dispatcher: ./check Cxx quick|thorough | --replay FILE"""
import importlib
import json
import os
import sys
import traceback
from pathlib import Path

sys.path.insert(0, str(Path(__file__).resolve().parent))
from lib import core  # noqa: E402


def main(argv):
    if len(argv) < 2:
        print("usage: check Cxx quick|thorough | check Cxx --replay FILE", file=sys.stderr)
        return 2
    prop = argv[1].upper()
    replay = None
    tier = os.environ.get("VERIF_TIER", "quick")
    if len(argv) >= 3:
        if argv[2] == "--replay":
            replay = argv[3]
        else:
            tier = argv[2]
    core.use_repo()
    mod = importlib.import_module(f"props.{prop.lower()}")
    if replay:
        case = json.loads(Path(replay).read_text())
        ctx = core.Ctx(prop, case.get("tier", "quick"), seed=case.get("seed"), clean=False)
        if not hasattr(mod, "replay"):
            print(f"{prop}: no replay support; re-run ./check {prop} {case.get('tier','quick')} with VERIF_SEED={case.get('seed')}")
            return 2
        return mod.replay(ctx, case)
    ctx = core.Ctx(prop, tier)
    try:
        return mod.run(ctx)
    except Exception:
        # the machinery itself failed: that is an error of the check, reported as such
        traceback.print_exc()
        ctx.fail("proof", "the check crashed: " + traceback.format_exc()[-1500:], obligation="check machinery",
                 signature="check-crash")
        return ctx.finish(trusted_base=[], extra_cov={"explanation": "check crashed"})


if __name__ == "__main__":
    sys.exit(main(sys.argv))
