#!/bin/bash
# Validate one seeded change and run a check against it, on a scratch worktree outside /repo and /verif.
#   tools/seedtest.sh <PROP> <dir with patch.diff [+ demo.py]> [quick|thorough]
# Prints: baseline result with the patch, demo on clean / patched tree, the check's verdict. Removes the worktree.
set -u
prop="$1"; dir="$(cd "$2" && pwd)"; tier="${3:-quick}"
verif="$(cd "$(dirname "$0")/.." && pwd)"
wt="/tmp/sv_${prop}_$$"
git -C /repo worktree add -f "$wt" HEAD > /dev/null 2>&1 || { echo "cannot create worktree"; exit 2; }
trap 'git -C /repo worktree remove --force "$wt" > /dev/null 2>&1; rm -rf "$wt"' EXIT
if [ -f "$dir/demo.py" ]; then
  ( cd "$wt" && TYPHON_TREE="$wt" PYTHONPATH="$wt" timeout 600 /venv/bin/python -W ignore "$dir/demo.py" > "$wt.demo_clean.log" 2>&1 ); echo "demo on clean tree: rc=$? (want 0)"
fi
git -C "$wt" apply "$dir/patch.diff" || { echo "patch does not apply"; exit 2; }
if [ -f "$dir/demo.py" ]; then
  ( cd "$wt" && TYPHON_TREE="$wt" PYTHONPATH="$wt" timeout 600 /venv/bin/python -W ignore "$dir/demo.py" > "$wt.demo_patched.log" 2>&1 ); echo "demo on patched tree: rc=$? (want 1): $(tail -2 "$wt.demo_patched.log" | tr '\n' ' ' | cut -c1-300)"
fi
VERIF_REPO="$wt" "$verif/tools/baseline.sh" | tail -3
priv="$verif/build/seedrun_${prop}_$$"; mkdir -p "$priv"; cp -a "$verif/coq" "$priv/coq"
( cd "$verif" && VERIF_BUILD="$priv" VERIF_COQ="$priv/coq" VERIF_EVIDENCE="$priv/evidence" VERIF_REPO="$wt" timeout 3000 ./check "$prop" "$tier" > "$verif/build/logs/seed_${prop}_$(basename "$dir").log" 2>&1 ); rc=$?
echo "check $prop $tier on patched tree: rc=$rc (want 1)"
grep -E "VIOLATION|KNOWN|->" "$verif/build/logs/seed_${prop}_$(basename "$dir").log" | cut -c1-400 | head -8
rm -rf "$priv"
rm -f "$wt".demo_*.log
exit 0
