#!/bin/bash
# Complete independent re-check of every Props file with coqchk -o (outside the per-property time budget).
# Prints the context summary (axioms of all loaded libraries, type-in-type, unsafe fixpoints, assumed positivity) per file.
cd "$(dirname "$0")/../coq" || exit 2
rc=0
# by default vm_compute casts are replayed with the VM (as coqc does); COQCHK_NOVM=1 re-checks them by plain reduction (hours)
VMOPT="-bytecode-compiler yes"; [ -n "$COQCHK_NOVM" ] && VMOPT=""
for f in theories/Props/*.v; do
  mod="Typhon.Props.$(basename "$f" .v)"
  echo "== $mod"
  if ! timeout "${COQCHK_TIMEOUT:-5400}" coqchk -silent -o $VMOPT -Q theories Typhon -Q gen TyphonGen "$mod" 2>&1 | sed -n '/CONTEXT SUMMARY/,$p'; then rc=1; fi
done
exit $rc
