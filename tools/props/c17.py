"""C17 -- optimal-estimation matrices satisfy their defining identities (typhon/retrieval/oem/{common,error}.py).

T-route: coq/gen/oem.v (mathcomp matrices over a field) is regenerated from the source on every run and the
theorems of Props/C17.v are about those generated definitions, so a wrong transpose / inverse / factor order
breaks the proofs.  Two ties to the running code:

 * exact correspondence: the same five source expressions are re-read here into terms over the executable exact
   matrix model Model/C17_qmat.v (lists over Q, run-time certified inverse) and evaluated by vm_compute on small
   integer inputs; the doubles the implementation returns must lie within the conditioning-scaled tolerance of the
   exact rationals (this is also a differential test of the reading of `@`, `.T`, `inv` and of the argument order);
 * numeric law sweep on the implementation only (shapes 1..30 x 1..40, diagonal / correlated / widely scaled SPD
   covariances, dense / rank-deficient / zero / strong / weak Jacobians): every clause of the property, incl. the
   whole complex spectrum of A in [0,1), self-adjointness of A for x^T Sa^-1 y with Rayleigh quotient in [0,1)
   (theorem A_symmetrised), and the two limits both in norm and entry by entry against the proved O(d) / O(e) rates
   (theorems A_vanishing_*_rate), with tolerances derived from the condition numbers of the diagonally normalised problem.

Tolerances.  With d_a = sqrt(diag S_a), d_y = sqrt(diag S_y) the problem is rewritten in the normalised variables
K~ = D_y^-1 K D_a, S_a~ = D_a^-1 S_a D_a^-1, S_y~ = D_y^-1 S_y D_y^-1 (unit diagonals), in which "widely varying
scales" disappear; S = D_a S~ D_a, G = D_a G~ D_y^-1, A = D_a A~ D_a^-1.  All comparisons are made on the
normalised quantities with ABSOLUTE tolerances from a first-order forward error analysis of the formulas as the
code evaluates them (inv(S_y), inv(S_a), products, sum, inv): they follow the largest intermediate quantities,
not the size of the result.  A case whose tolerance exceeds ILL relative to the scale of the result is
"ill-conditioned": it is still checked (with its large tolerance) but not counted as non-trivial.
"""
import ast
from fractions import Fraction

import numpy as np

from lib import core, encl

FNS = ["error_covariance_matrix", "retrieval_gain_matrix", "averaging_kernel_matrix", "smoothing_error", "retrieval_noise"]
NEEDED = ["oem." + f for f in FNS]
TRUSTED = [
    "translator tools/translate (Python-ast matrix expression -> mathcomp term), fail-closed; its reading of `@`, `.T`, `inv` and "
    "of the argument order is cross-checked by the exact-rational evaluation of the same source expressions against the running code",
    "numpy `@` / `.T` and scipy.linalg.inv compute matrix product, transpose and inverse up to rounding (bridged by "
    "conditioning-scaled tolerances case by case, never globally)",
    "spectral clause: proved over every ordered field that A is self-adjoint for x^T S_a^-1 y with Rayleigh quotient in [0,1), has no "
    "complex eigenpairs and no Jordan blocks, and over every real closed field (R[i] algebraically closed, mathcomp real_closed) that "
    "the whole spectrum is real in [0,1) and the characteristic polynomial splits; NOT constructed: an eigenbasis (diagonalisation). "
    "The two limits are proved as epsilon-delta statements uniformly in the entries, with explicit O(d) / O(e) entry bounds; the numeric "
    "sweep of the complex spectrum and of the limits is kept as the tie of these theorems to the floating-point code",
]
U = 2.0 ** -53
CONST = 32.0          # safety constant of the first-order error bounds
ILL = 1e-4


# ============================================================================ the implementation under test

def impl():
    from typhon.retrieval.oem import common, error
    return {"error_covariance_matrix": common.error_covariance_matrix, "retrieval_gain_matrix": common.retrieval_gain_matrix,
            "averaging_kernel_matrix": common.averaging_kernel_matrix, "smoothing_error": error.smoothing_error,
            "retrieval_noise": error.retrieval_noise}


def call(f, *args):
    """-> (array or None, error text or None)"""
    try:
        with np.errstate(all="ignore"):
            r = np.asarray(f(*[np.array(a, dtype=float) for a in args]), dtype=float)
    except Exception as e:  # noqa
        return None, f"{type(e).__name__}: {str(e)[:120]}"
    if not np.all(np.isfinite(r)):
        return None, "non-finite values in the result"
    return r, None


def call_same_objects(f, *args):
    """Like call(), but hands the function the very array objects it is given (no copies): needed where the identity
    of the arrays across calls matters (histories with in-place modification)."""
    try:
        with np.errstate(all="ignore"):
            r = np.array(f(*args), dtype=float)
    except Exception as e:  # noqa
        return None, f"{type(e).__name__}: {str(e)[:120]}"
    if not np.all(np.isfinite(r)):
        return None, "non-finite values in the result"
    return r, None


# ============================================================================ conditioning / tolerances

def inv_bound(A, c):
    """(inverse X, componentwise first-order bound on the error of an LU-based inverse: c |X| |P L| |U| |X|)"""
    from scipy.linalg import lu
    with np.errstate(all="ignore"):
        X = np.linalg.inv(A)
        P, L, Uf = lu(A)
        aX = np.abs(X)
        return X, c * (aX @ (np.abs(P @ L) @ np.abs(Uf)) @ aX)


class Norm:
    """The diagonally normalised problem, its condition numbers, the error bounds and the m-form oracles."""

    def __init__(self, K, Sa, Sy):
        K, Sa, Sy = (np.asarray(a, dtype=float) for a in (K, Sa, Sy))
        self.m, self.n = K.shape
        self.da, self.dy = np.sqrt(np.diag(Sa)), np.sqrt(np.diag(Sy))
        self.ok = bool(np.all(np.isfinite(self.da)) and np.all(np.isfinite(self.dy)) and np.all(self.da > 0) and np.all(self.dy > 0))
        if not self.ok:
            return
        self.Kt = K * self.da[None, :] / self.dy[:, None]
        self.Sat = Sa / np.outer(self.da, self.da)
        self.Syt = Sy / np.outer(self.dy, self.dy)
        ea, ey = np.linalg.eigvalsh((self.Sat + self.Sat.T) / 2), np.linalg.eigvalsh((self.Syt + self.Syt.T) / 2)
        self.ok = bool(ea[0] > 1e-12 and ey[0] > 1e-12 and np.allclose(Sa, Sa.T, rtol=1e-14, atol=0) and np.allclose(Sy, Sy.T, rtol=1e-14, atol=0))
        if not self.ok:
            return
        I = np.eye(self.n)
        self.nSa, self.iSa, self.nSy, self.iSy = ea[-1], 1 / ea[0], ey[-1], 1 / ey[0]
        self.ksa, self.ksy = self.nSa * self.iSa, self.nSy * self.iSy
        self.nK = float(np.linalg.norm(self.Kt, 2)) if K.size else 0.0
        B = self.Kt.T @ np.linalg.solve(self.Syt, self.Kt)
        self.Bt = (B + B.T) / 2
        self.Nt = self.Bt + np.linalg.solve(self.Sat, I)
        self.Nt = (self.Nt + self.Nt.T) / 2
        en = np.linalg.eigvalsh(self.Nt)
        self.nN, self.nS = en[-1], 1 / en[0]
        self.kN = self.nN * self.nS
        self.Mt = self.Kt @ self.Sat @ self.Kt.T + self.Syt
        self.Mt = (self.Mt + self.Mt.T) / 2
        em = np.linalg.eigvalsh(self.Mt)
        self.nM, self.iM = em[-1], 1 / em[0]
        self.kM = self.nM * self.iM
        eb = np.linalg.eigvalsh(self.Bt)
        self.nB, self.lminB = max(eb[-1], 0.0), eb[0]
        self.p = max(self.m, self.n)
        c = self.c = CONST * self.p * U
        # n-form, as the code computes it: first-order COMPONENTWISE forward error bounds in the raw variables
        # (|dA| <= gamma |L||U| for the LU factors scipy.linalg.inv uses, |d(XY)| <= gamma |X||Y|), normalised afterwards.
        # They account for what bad scaling does to Gaussian elimination with partial pivoting.
        aK = np.abs(K)
        Y, EY = inv_bound(Sy, c)
        Ai, EA = inv_bound(Sa, c)
        Nraw = K.T @ Y @ K + Ai
        EN = aK.T @ EY @ aK + c * (aK.T @ np.abs(Y) @ aK) + EA + U * np.abs(Nraw)
        Sraw, ES0 = inv_bound(Nraw, c)
        aS = np.abs(Sraw)
        ES = aS @ EN @ aS + ES0
        SKt = aS @ aK.T
        EG = ES @ aK.T @ np.abs(Y) + SKt @ EY + c * (SKt @ np.abs(Y))
        EAk = EG @ aK + c * (SKt @ np.abs(Y) @ aK)
        tiny = 1e-300
        self.TS, self.TG, self.TA = self.nS_(ES) + tiny, self.nG_(EG) + tiny, self.nA_(EAk) + tiny
        self.tolS, self.tolG, self.tolA = mx(self.TS), mx(self.TG), mx(self.TA)
        self.fS, self.fA = float(np.linalg.norm(self.TS)), float(np.linalg.norm(self.TA))      # Frobenius >= 2-norm
        self.nG = self.nS * self.nK * self.iSy
        # m-form oracles (numpy solves)
        self.Gm = np.linalg.solve(self.Mt, self.Kt @ self.Sat).T
        self.tolGm = c * self.kM * self.nSa * self.nK * self.iM
        self.Sm = self.Sat - self.Gm @ self.Kt @ self.Sat
        self.tolSm = self.tolGm * self.nK * self.nSa + c * self.nSa * (1 + self.nSa * self.nK ** 2 * self.iM)
        self.ill = bool(self.tolS > ILL * self.nS or self.tolA > ILL or self.tolSm > ILL * self.nS
                        or (self.nK > 0 and (self.tolG > ILL * self.nG or self.tolGm > ILL * self.nG)))

    # normalisation of outputs
    def nS_(self, S):
        return S / np.outer(self.da, self.da)

    def nG_(self, G):
        return G * self.dy[None, :] / self.da[:, None]

    def nA_(self, A):
        return A * self.da[None, :] / self.da[:, None]


def mx(a):
    return float(np.max(np.abs(a))) if np.size(a) else 0.0


def check_case(fns, case, limits=False):
    """Every clause of the property on one input. Returns (violations, stats); a violation is (signature, text)."""
    K, Sa, Sy = (np.asarray(case[k], dtype=float) for k in ("K", "S_a", "S_y"))
    m, n = K.shape
    N = Norm(K, Sa, Sy)
    if not N.ok:
        return [], {"skipped": True}
    bad, ratios = [], {}

    def law(sig, err, tol, text):
        """err, tol: scalars or arrays of the same shape (entrywise comparison)"""
        err, tol = np.asarray(err, dtype=float), np.asarray(tol, dtype=float)
        if err.size == 0:
            return
        tol = np.broadcast_to(tol, err.shape)
        with np.errstate(all="ignore"):
            ratio = np.where(tol > 0, err / np.where(tol > 0, tol, 1.0), np.where(err == 0, 0.0, np.inf))
        i = int(np.argmax(np.where(np.isnan(ratio), np.inf, ratio)))
        r, e, t = float(ratio.ravel()[i]), float(err.ravel()[i]), float(tol.ravel()[i])
        ratios[sig] = max(ratios.get(sig, 0.0), r if r == r else np.inf)
        if not np.all(err <= tol):
            bad.append((sig, f"{text}: error {e:.3e} > tolerance {t:.3e} (normalised units; K is {m}x{n})"))
    S, e1 = call(fns["error_covariance_matrix"], K, Sa, Sy)
    G, e2 = call(fns["retrieval_gain_matrix"], K, Sa, Sy)
    A, e3 = call(fns["averaging_kernel_matrix"], K, Sa, Sy)
    for name, r, e, shape in (("error_covariance_matrix", S, e1, (n, n)), ("retrieval_gain_matrix", G, e2, (n, m)),
                              ("averaging_kernel_matrix", A, e3, (n, n))):
        if r is None:
            bad.append((f"{name}-raises", f"{name} fails on SPD covariances and a {m}x{n} Jacobian: {e}"))
        elif r.shape != shape:
            bad.append((f"{name}-shape", f"{name} returns shape {r.shape} for a {m}x{n} Jacobian, expected {shape}"))
    if bad:
        return bad, {"ill": N.ill}
    St, Gt, At = N.nS_(S), N.nG_(G), N.nA_(A)
    I = np.eye(n)
    p, c = N.p, N.c
    # --- S = (K^T Sy^-1 K + Sa^-1)^-1: residual against N, and the Woodbury (m-form) value
    law("S-defining", np.abs(St @ N.Nt - I), N.TS @ np.abs(N.Nt) + p * c * (N.nS * (N.nK ** 2 * N.iSy * N.ksy + N.iSa * N.ksa) + N.kN),
        "error_covariance_matrix * (K^T Sy^-1 K + Sa^-1) is not the identity")
    law("S-woodbury", np.abs(St - N.Sm), N.TS + N.tolSm, "error_covariance_matrix differs from Sa - Sa K^T (K Sa K^T + Sy)^-1 K Sa")
    law("S-symmetric", np.abs(St - St.T), N.TS + N.TS.T, "error_covariance_matrix is not symmetric")
    Ss = (St + St.T) / 2
    lmin = float(np.linalg.eigvalsh(Ss)[0])
    law("S-positive-definite", max(1 / N.nN - lmin, 0.0), N.fS + 1e-9 / N.nN,
        f"smallest eigenvalue {lmin:.3e} of error_covariance_matrix is below 1/||N|| = {1/N.nN:.3e}")
    if 1 / N.nN > 2 * N.fS and not lmin > 0:
        bad.append(("S-positive-definite", f"error_covariance_matrix is not positive definite: smallest eigenvalue {lmin:.3e}"))
    law("S-le-Sa", max(-float(np.linalg.eigvalsh(N.Sat - Ss)[0]), 0.0), N.fS + p * c * N.nSa,
        "Sa - error_covariance_matrix has a negative eigenvalue")
    # --- G = S K^T Sy^-1 (with the S the code returned) = Sa K^T (K Sa K^T + Sy)^-1
    SyiK = np.linalg.solve(N.Syt, N.Kt)
    law("G-is-S-KT-Syinv", np.abs(Gt - St @ SyiK.T), N.TG + N.TS @ np.abs(SyiK.T) + p * c * N.nG * (N.ksy + 1),
        "retrieval_gain_matrix differs from error_covariance_matrix K^T Sy^-1")
    law("G-m-form", np.abs(Gt - N.Gm), N.TG + N.tolGm, "retrieval_gain_matrix differs from Sa K^T (K Sa K^T + Sy)^-1")
    # --- A = G K = I - S Sa^-1
    law("A-is-GK", np.abs(At - Gt @ N.Kt), 2 * c * (np.abs(Gt) @ np.abs(N.Kt)) + 1e-300,
        "averaging_kernel_matrix differs from retrieval_gain_matrix K")
    Sai = np.linalg.solve(N.Sat, I)
    law("A-is-I-minus-S-Sainv", np.abs(At - (I - St @ Sai)), N.TA + N.TS @ np.abs(Sai) + p * c * (1 + N.nS * N.iSa * N.ksa),
        "averaging_kernel_matrix differs from I - error_covariance_matrix Sa^-1")
    # --- A is self-adjoint for x^T Sa^-1 y (theorem A_symmetrised): A Sa = Sa - S is symmetric, 0 <= A Sa < Sa (Loewner), i.e. the
    #     Rayleigh quotient x^T Sa^-1 A x / x^T Sa^-1 x lies in [0, 1)
    ASa = At @ N.Sat
    EASa = N.TA @ np.abs(N.Sat) + 2 * c * (np.abs(At) @ np.abs(N.Sat))
    law("A-symmetrised", np.abs(ASa - ASa.T), EASa + EASa.T, "averaging_kernel_matrix Sa is not symmetric (A is not self-adjoint for x^T Sa^-1 y)")
    ASs = (ASa + ASa.T) / 2
    fASa = float(np.linalg.norm(EASa))
    law("A-rayleigh", max(-float(np.linalg.eigvalsh(ASs)[0]), max(1 / N.nN - float(np.linalg.eigvalsh(N.Sat - ASs)[0]), 0.0), 0.0),
        fASa + p * c * N.nSa + 1e-9 / N.nN,
        "the Rayleigh quotient of averaging_kernel_matrix for the inner product x^T Sa^-1 y leaves [0, 1): A Sa is not within [0, Sa - 1/||N||]")
    # --- spectrum of A in [0, 1): A = S^(1/2) H S^(-1/2) with H symmetric, so eigenvalue errors are bounded by
    #     sqrt(cond S) * ||dA|| (Bauer-Fike)
    ev = np.linalg.eigvals(At)
    bf = np.sqrt(N.kN) * (N.fA + p * c * (1 + float(np.linalg.norm(At))))
    gap = 1 / (N.nSa * N.nN)
    law("A-eigenvalues", max(mx(ev.imag), max(-float(ev.real.min()), 0.0), max(float(ev.real.max()) - (1 - gap), 0.0)), bf,
        f"eigenvalues of averaging_kernel_matrix leave [0, 1 - {gap:.2e}] (min {ev.real.min():.6g}, max {ev.real.max():.6g}, "
        f"max |imag| {mx(ev.imag):.3g})")
    if gap > 2 * bf and not float(ev.real.max()) < 1:
        bad.append(("A-eigenvalues", f"averaging_kernel_matrix has an eigenvalue {ev.real.max()!r} >= 1"))
    # --- smoothing_error and retrieval_noise are the linear maps A (x - x_a) and G e_y
    x, xa, ey = (np.asarray(case[k], dtype=float) for k in ("x", "x_a", "e_y"))
    Ain = np.asarray(case.get("A_in", A), dtype=float)
    s, e = call(fns["smoothing_error"], x, xa, Ain)
    if s is None or s.shape != (n,):
        bad.append(("smoothing_error-raises", f"smoothing_error fails / has the wrong shape for n = {n}: {e or s.shape}"))
    else:
        scale = (np.abs(Ain) @ (np.abs(x) + np.abs(xa)))
        law("smoothing-linear", mx((s - (Ain @ x - Ain @ xa)) / np.maximum(scale, 1e-300)), 8 * (n + 2) * U,
            "smoothing_error(x, x_a, A) differs from A x - A x_a")
        z, _ = call(fns["smoothing_error"], xa, xa, Ain)
        law("smoothing-zero", mx(z) if z is not None else np.inf, 0.0, "smoothing_error(x_a, x_a, A) is not zero")
        j = int(case.get("col", 0)) % n
        xi = np.round(xa)
        col, _ = call(fns["smoothing_error"], xi + I[j], xi, Ain)
        law("smoothing-columns", mx(col - Ain[:, j]) if col is not None else np.inf, 16 * U * mx(Ain[:, j]),
            f"smoothing_error(x_a + e_{j}, x_a, A) is not column {j} of A")
    r, e = call(fns["retrieval_noise"], K, Sa, Sy, ey)
    if r is None or r.shape != (n,):
        bad.append(("retrieval_noise-raises", f"retrieval_noise fails / has the wrong shape for a {m}x{n} Jacobian: {e or r.shape}"))
    else:
        eyt = ey / N.dy          # G e_y = Da Gt (Dy^-1 e_y)
        law("noise-is-G-ey", np.abs(r / N.da - Gt @ eyt), 2 * c * (np.abs(Gt) @ np.abs(eyt)) + 1e-300,
            "retrieval_noise differs from retrieval_gain_matrix e_y")
        j = int(case.get("col", 0)) % m
        col, _ = call(fns["retrieval_noise"], K, Sa, Sy, np.eye(m)[j])
        law("noise-columns", mx(col / N.da - Gt[:, j] / N.dy[j]) if col is not None else np.inf,
            16 * U * mx(Gt[:, j] / N.dy[j]) + 1e-300, f"retrieval_noise(e_{j}) is not column {j} of retrieval_gain_matrix")
        # ... in particular the zero vector maps to the zero vector OF THE STATE SPACE (length n, not m), whatever its dtype
        for zlabel, ez in (("float zeros", np.zeros(m)), ("integer zeros", np.zeros(m, dtype=np.int64))):
            try:
                with np.errstate(all="ignore"):
                    rz = np.asarray(fns["retrieval_noise"](K.copy(), Sa.copy(), Sy.copy(), ez), dtype=float)
            except Exception as e_:  # noqa
                bad.append(("noise-of-zero", f"retrieval_noise raised {type(e_).__name__}: {e_} for e_y = {zlabel} of length {m}"))
                continue
            if rz.shape != (n,) or np.any(rz != 0):
                bad.append(("noise-of-zero", f"retrieval_noise of e_y = {zlabel} (length m = {m}) has shape {rz.shape} / values "
                            f"{rz.ravel()[:3].tolist()}; G 0 is the zero vector of length n = {n}"))
        # retrieval_noise is the LINEAR MAP G e_y: a block of error vectors (columns) is mapped column by column -- also a
        # single column (m, 1) and a square block (m, m)
        for pcols in (1, 3, m):
            E = np.linspace(-1.0, 1.0, m * pcols).reshape(m, pcols) * ey.reshape(m, 1) + np.eye(m, pcols)
            blk, err_ = call(fns["retrieval_noise"], K, Sa, Sy, E)
            want_b = (Gt @ (E / N.dy.reshape(m, 1))) * N.da.reshape(n, 1)
            if blk is None:
                bad.append(("noise-block-raises", f"retrieval_noise raised / returned non-finite values for a block of {pcols} error "
                            f"vectors of shape {(m, pcols)}: {err_}"))
            elif blk.shape != (n, pcols) or not np.all(np.abs(blk - want_b) <= 64 * c * (np.abs(Gt) @ np.abs(E / N.dy.reshape(m, 1))) * N.da.reshape(n, 1) + 1e-300):
                bad.append(("noise-block", f"retrieval_noise of a block of {pcols} error vectors (shape {(m, pcols)}) is not G applied "
                            f"column by column: shape {blk.shape}, max deviation "
                            f"{'n/a' if blk.shape != (n, pcols) else float(np.max(np.abs(blk - want_b)))!r}"))
        # history: the same array objects modified in place between two calls (S_y scaled, K refreshed) -- the second
        # call must be the function of the CURRENT values (compared with fresh copies handed to the same function)
        K2, Sa2, Sy2 = K.copy(), Sa.copy(), Sy.copy()
        r1, _ = call_same_objects(fns["retrieval_noise"], K2, Sa2, Sy2, ey)
        for _f in ("retrieval_gain_matrix", "averaging_kernel_matrix", "error_covariance_matrix"):
            call_same_objects(fns[_f], K2, Sa2, Sy2)
        Sy2 *= 0.25
        K2[...] = 0.5 * K2
        r2, _ = call_same_objects(fns["retrieval_noise"], K2, Sa2, Sy2, ey)
        rf, _ = call(fns["retrieval_noise"], K2.copy(), Sa2.copy(), Sy2.copy(), ey)
        g2, _ = call_same_objects(fns["retrieval_gain_matrix"], K2, Sa2, Sy2)
        gf, _ = call(fns["retrieval_gain_matrix"], K2.copy(), Sa2.copy(), Sy2.copy())
        a2, _ = call_same_objects(fns["averaging_kernel_matrix"], K2, Sa2, Sy2)
        af, _ = call(fns["averaging_kernel_matrix"], K2.copy(), Sa2.copy(), Sy2.copy())
        s2, _ = call_same_objects(fns["error_covariance_matrix"], K2, Sa2, Sy2)
        sf, _ = call(fns["error_covariance_matrix"], K2.copy(), Sa2.copy(), Sy2.copy())
        for nm, u, v in (("retrieval_noise", r2, rf), ("retrieval_gain_matrix", g2, gf), ("averaging_kernel_matrix", a2, af),
                         ("error_covariance_matrix", s2, sf)):
            if u is None or v is None or u.shape != v.shape or not np.array_equal(u, v):
                bad.append(("history:" + nm, f"{nm} called again after S_y *= 0.25 and K *= 0.5 IN PLACE returns another value than "
                            f"the same call on fresh copies of the current arrays (max difference "
                            f"{'n/a' if u is None or v is None or u.shape != v.shape else float(np.max(np.abs(u - v)))!r})"))
        # results are the caller's: a matrix returned by one call still holds its values after LATER calls with other
        # arguments of the same dimensions (no shared output buffer, no view of module state)
        for nm, extra in (("error_covariance_matrix", ()), ("retrieval_gain_matrix", ()), ("averaging_kernel_matrix", ()),
                          ("retrieval_noise", (ey,))):
            try:
                with np.errstate(all="ignore"):
                    first = fns[nm](K.copy(), Sa.copy(), Sy.copy(), *extra)
                    kept = np.array(first, dtype=float, copy=True)
                    fns[nm](0.5 * K, 3.0 * Sa, 0.25 * Sy, *[2.0 * e for e in extra])
                    for other in ("error_covariance_matrix", "retrieval_gain_matrix", "averaging_kernel_matrix"):
                        fns[other](0.25 * K, 2.0 * Sa, 4.0 * Sy)
                    now = np.array(first, dtype=float)
            except Exception:  # noqa  (exceptions are reported by the laws above)
                continue
            if now.shape != kept.shape or not np.array_equal(now, kept, equal_nan=True):
                bad.append(("result-aliased:" + nm, f"the array returned by {nm} changed its values when the function was called again "
                            f"with other arguments of the same dimensions (max change "
                            f"{'n/a' if now.shape != kept.shape else float(np.max(np.abs(now - kept)))!r})"))
        # argument types: whole-number covariances handed over as INTEGER arrays (np.diag([4, 9, 1])), K real-valued:
        # the same matrices as with the float arrays of the same values
        Si_a = np.diag(1 + (np.arange(n) * 3) % 7).astype(np.int64)
        Si_y = np.diag(1 + (np.arange(m) * 5) % 4).astype(np.int64)
        for nm, argsf in (("error_covariance_matrix", (K, Si_a, Si_y)), ("retrieval_gain_matrix", (K, Si_a, Si_y)),
                          ("averaging_kernel_matrix", (K, Si_a, Si_y)), ("retrieval_noise", (K, Si_a, Si_y, ey))):
            ui, _ = call_same_objects(fns[nm], *[a.copy() for a in argsf])
            uf, _ = call_same_objects(fns[nm], *[np.array(a, dtype=float) for a in argsf])
            if ui is None or uf is None or ui.shape != uf.shape or \
                    not np.all(np.abs(ui - uf) <= 1e-9 * np.maximum(np.abs(uf), 1e-300) + 1e-12 * (1 + mx(uf))):
                bad.append(("integer-covariances:" + nm, f"{nm} with integer-typed S_a, S_y (diagonal, whole numbers) and a real-valued K "
                            f"differs from the call with the same values as floats (max difference "
                            f"{'n/a' if ui is None or uf is None or ui.shape != uf.shape else float(np.max(np.abs(ui - uf)))!r})"))
    # --- the two limits, as explicit bounds that tend to zero:
    #     ||I - A~|| = ||S~ Sa~^-1|| <= ||(K~^T Sy~^-1 K~)^-1|| ||Sa~^-1||   (K of full column rank)   [Sy -> eps Sy]
    #     ||A~|| = ||S~ K~^T Sy~^-1 K~|| <= ||Sa~|| ||K~^T Sy~^-1 K~||                                  [Sa -> delta Sa]
    if limits:
        full_rank = m >= n and N.lminB > 1e-6 * max(N.nB, 1e-300)
        b_noise = N.iSa / N.lminB if full_rank else None
        b_prior = N.nSa * N.nB
        # entrywise rates of the theorems A_vanishing_prior_rate / A_vanishing_noise_rate, applied to the normalised problem
        # (unit diagonals):  |A_d ij| <= d/2 (Sa_ii + (B Sa B)_jj),  |(I - A_e) ij| <= e/2 (Bi_ii + (Sa^-1 Bi Sa^-1)_jj), Bi = B^-1
        r_prior = 0.5 * (np.diag(N.Sat)[:, None] + np.diag(N.Bt @ N.Sat @ N.Bt)[None, :])
        if full_rank:
            Bi = np.linalg.inv(N.Bt)
            Wt = np.linalg.solve(N.Sat, I)
            r_noise = 0.5 * (np.diag(Bi)[:, None] + np.diag(Wt @ Bi @ Wt)[None, :])
        for t in (1e-2, 1e-4, 1e-6, 1e-8):
            if full_rank:
                Ae, e = call(fns["averaging_kernel_matrix"], K, Sa, t * Sy)
                Ne = Norm(K, Sa, t * Sy)
                if Ae is None:
                    bad.append(("averaging_kernel_matrix-raises", f"averaging_kernel_matrix fails for Sy scaled by {t}: {e}"))
                elif Ne.ok and Ne.fA < 1e-3:
                    dev = float(np.linalg.norm(I - Ne.nA_(Ae), 2))
                    bound = t * b_noise * (1 + 1e-6)
                    ratios["limit-noise"] = max(ratios.get("limit-noise", 0), dev / (bound + Ne.fA))
                    if not dev <= bound + Ne.fA:
                        bad.append(("limit-noise", f"||I - A|| = {dev:.3e} for measurement noise scaled by {t} exceeds the bound "
                                    f"{bound:.3e} that tends to zero (K has full column rank, {m}x{n})"))
                    law("limit-noise-entries", np.abs(I - Ne.nA_(Ae)), t * r_noise * (1 + 1e-6) + Ne.TA,
                        f"an entry of I - A for measurement noise scaled by {t} exceeds its proved O(e) bound")
            Ad, e = call(fns["averaging_kernel_matrix"], K, t * Sa, Sy)
            Nd = Norm(K, t * Sa, Sy)
            if Ad is None:
                bad.append(("averaging_kernel_matrix-raises", f"averaging_kernel_matrix fails for Sa scaled by {t}: {e}"))
            elif Nd.ok and Nd.fA < 1e-3:
                dev = float(np.linalg.norm(Nd.nA_(Ad), 2))
                bound = t * b_prior * (1 + 1e-6)
                ratios["limit-prior"] = max(ratios.get("limit-prior", 0), dev / (bound + Nd.fA))
                if not dev <= bound + Nd.fA:
                    bad.append(("limit-prior", f"||A|| = {dev:.3e} for prior covariance scaled by {t} exceeds the bound {bound:.3e} "
                                f"that tends to zero ({m}x{n})"))
                law("limit-prior-entries", np.abs(Nd.nA_(Ad)), t * r_prior * (1 + 1e-6) + Nd.TA,
                    f"an entry of A for prior covariance scaled by {t} exceeds its proved O(d) bound")
    return bad, {"ill": N.ill, "ratios": ratios, "kN": N.kN, "nK": N.nK}


# ============================================================================ input generators (floats)

def gen_spd(rng, n):
    kind = int(rng.integers(0, 4))
    if kind == 0:
        C = np.eye(n)
    elif kind == 1:                     # exponential correlation (vertical profiles)
        L = rng.uniform(0.3, 3.0)
        idx = np.arange(n)
        C = np.exp(-np.abs(idx[:, None] - idx[None, :]) / L)
    elif kind == 2:                     # prescribed spectrum
        Q, _ = np.linalg.qr(rng.normal(size=(n, n)))
        lam = 10 ** rng.uniform(0, rng.choice([1.0, 2.0, 3.0]), size=n)
        C = (Q * lam) @ Q.T
    else:                               # Wishart-like
        W = rng.normal(size=(n, n + 2))
        C = W @ W.T / (n + 2) + 0.1 * np.eye(n)
    C = (C + C.T) / 2
    d = np.sqrt(np.diag(C))
    C = C / np.outer(d, d)
    sk = int(rng.integers(0, 3))
    s = np.ones(n) if sk == 0 else 10 ** rng.uniform(-1, 1, size=n) if sk == 1 else 10 ** rng.uniform(-3, 3, size=n)
    S = C * np.outer(s, s)
    return (S + S.T) / 2, s


def gen_jacobian(rng, m, n, sa, sy):
    kind = int(rng.integers(0, 6))
    if kind == 0:
        Kt = np.zeros((m, n))
    elif kind == 1:                     # rank deficient
        r = int(rng.integers(1, max(2, min(m, n))))
        Kt = rng.normal(size=(m, r)) @ rng.normal(size=(r, n)) / np.sqrt(r)
    elif kind == 2:                     # weighting functions
        centres = rng.uniform(0, n, size=m)
        width = rng.uniform(0.5, 3.0)
        Kt = np.exp(-0.5 * ((np.arange(n)[None, :] - centres[:, None]) / width) ** 2)
    elif kind == 3:                     # direct measurements of some state elements
        Kt = np.zeros((m, n))
        Kt[np.arange(m), rng.integers(0, n, size=m)] = 1.0
    else:
        Kt = rng.normal(size=(m, n))
    amp = 10 ** rng.uniform(-1.5, 1.5)
    return amp * Kt * sy[:, None] / sa[None, :], kind


CORNERS = [(1, 1), (1, 2), (2, 1), (2, 2), (3, 2), (2, 3), (1, 40), (30, 1), (30, 40), (30, 30), (40, 30), (5, 5), (7, 3), (3, 7),
           (12, 12), (40, 1), (1, 30), (17, 29), (29, 17), (40, 40)]      # (m, n) ; n <= 30, m <= 40


def gen_case(rng, k):
    if k < len(CORNERS):
        m, n = CORNERS[k]
        n = min(n, 30)
    else:
        n, m = int(rng.integers(1, 31)), int(rng.integers(1, 41))
        if k % 3 == 0:
            n, m = int(rng.integers(1, 7)), int(rng.integers(1, 7))
    Sa, sa = gen_spd(rng, n)
    Sy, sy = gen_spd(rng, m)
    if k in (8, 9, 10, 19):
        # the large corners in another physical unit (mixing ratios, radiances in W): well-conditioned matrices whose
        # DETERMINANT under- or overflows in binary64 (30 variances of 1e-12 multiply to 1e-360)
        ua, uy = {8: (1e-6, 1e-5), 9: (2e5, 1e4), 10: (1e-6, 1e4), 19: (3e-7, 3e-6)}[k]
        Sa, sa, Sy, sy = Sa * ua ** 2, sa * ua, Sy * uy ** 2, sy * uy
    K, kind = gen_jacobian(rng, m, n, sa, sy)
    xa = rng.integers(-5, 6, size=n).astype(float) * float(rng.choice([1.0, 0.25, 16.0]))
    x = xa + rng.normal(size=n) * sa
    ey = rng.normal(size=m) * sy
    Ain = rng.normal(size=(n, n)) if k % 2 else None
    c = {"K": K, "S_a": Sa, "S_y": Sy, "x": x, "x_a": xa, "e_y": ey, "col": int(rng.integers(0, 64)), "kind": int(kind)}
    if Ain is not None:
        c["A_in"] = Ain
    return c


def jsonable(case):
    return {k: (v.tolist() if isinstance(v, np.ndarray) else v) for k, v in case.items()}


def law_sweep(ctx, fns):
    rng = np.random.default_rng(ctx.seed)
    total = ctx.n(400, 6000)
    fails, nontrivial, ill, worst = [], 0, 0, {}
    dist = {"under-determined (m < n)": 0, "over-determined (m > n)": 0, "square": 0, "zero K": 0, "rank-deficient K": 0}
    for k in range(total):
        case = gen_case(rng, k)
        m, n = case["K"].shape
        dist["square" if m == n else "under-determined (m < n)" if m < n else "over-determined (m > n)"] += 1
        dist["zero K"] += case["kind"] == 0
        dist["rank-deficient K"] += case["kind"] == 1
        bad, st = check_case(fns, case, limits=(k % 4 == 0))
        ctx.cov["evaluations"] += 1
        if st.get("skipped"):
            continue
        if st.get("ill"):
            ill += 1
        elif case["kind"] != 0:
            nontrivial += 1
        for s, r in st.get("ratios", {}).items():
            worst[s] = max(worst.get(s, 0.0), float(r))
        for sig, text in bad:
            fails.append((m * n, sig, text, dict(jsonable(case), law=sig, limits=(k % 4 == 0), index=k)))
        if k < 2:
            ctx.sample({"law_case": {"shape_K": [m, n], "kind": case["kind"], "cond_N": st.get("kN"), "norm_K~": st.get("nK")}})
    ctx.cov["law_cases"] = total
    ctx.cov["ill_conditioned_cases"] = ill
    ctx.cov["worst_error_over_tolerance"] = {k: round(v, 4) for k, v in sorted(worst.items())}
    ctx.cov["input_distribution"] = dist
    return fails, nontrivial


# ============================================================================ exact model read from the source

Q_TYPES = ("K", "S_a", "S_y", "A", "x", "x_a", "e_y")
Q_ORDER = [("typhon/retrieval/oem/common.py", FNS[:3]), ("typhon/retrieval/oem/error.py", FNS[3:])]


class Untranslatable(Exception):
    pass


def q_expr(n, known):
    if isinstance(n, ast.Name):
        if n.id in Q_TYPES:
            return n.id
        raise Untranslatable(f"name {n.id}")
    if isinstance(n, ast.Attribute) and n.attr == "T":
        return f"(otr {q_expr(n.value, known)})"
    if isinstance(n, ast.BinOp):
        op = {ast.MatMult: "omul", ast.Add: "oadd", ast.Sub: "osub"}.get(type(n.op))
        if not op:
            raise Untranslatable(f"operator {type(n.op).__name__}")
        return f"({op} {q_expr(n.left, known)} {q_expr(n.right, known)})"
    if isinstance(n, ast.Call) and not n.keywords:
        f = ast.unparse(n.func)
        if f in ("inv", "np.linalg.inv", "linalg.inv") and len(n.args) == 1:
            return f"(oinv {q_expr(n.args[0], known)})"
        f = f.split(".")[-1]
        if f in known:
            return "(" + " ".join(["q_" + f] + [q_expr(a, known) for a in n.args]) + ")"
    raise Untranslatable(f"expression {ast.unparse(n)[:50]}")


def q_model_source():
    """Coq definitions q_<function> over Model/C17_qmat, read from the tree under test -> (text, params, errors)."""
    out, known, params, errors = [], [], {}, []
    for rel, names in Q_ORDER:
        try:
            tree = ast.parse((core.REPO / rel).read_text())
        except Exception as e:  # noqa
            errors.append(f"{rel}: {e!r}")
            continue
        funcs = {n.name: n for n in tree.body if isinstance(n, ast.FunctionDef)}
        for name in names:
            try:
                fn = funcs[name]
                body = [s for s in fn.body if not (isinstance(s, ast.Expr) and isinstance(s.value, ast.Constant))]
                if len(body) != 1 or not isinstance(body[0], ast.Return):
                    raise Untranslatable("body is not a single return")
                ps = [a.arg for a in fn.args.args]
                if any(p not in Q_TYPES for p in ps):
                    raise Untranslatable(f"parameters {ps}")
                term = q_expr(body[0].value, known)
                out.append(f"Definition q_{name} {' '.join(f'({p} : omat)' for p in ps)} : omat := {term}.")
                known.append(name)
                params[name] = ps
            except (Untranslatable, KeyError) as e:
                errors.append(f"{name}: {e}")
    return "\n".join(out), params, errors


def zmat(M):
    M = np.asarray(M)
    if M.ndim == 1:
        M = M.reshape(-1, 1)
    return "(of_Z [" + "; ".join("[" + "; ".join(core.zlit(int(v)) for v in r) + "]" for r in M) + "])"


def int_spd(rng, n):
    """small-integer SPD matrix: diagonal, C^T C + D, or the latter with widely varying integer scales"""
    kind = rng.randrange(3)
    if kind == 0:
        return np.diag([float(rng.randint(1, 9)) for _ in range(n)])
    C = np.array([[float(rng.randint(-2, 2)) for _ in range(n)] for _ in range(n)])
    D = np.diag([float(rng.randint(1, 4)) for _ in range(n)])
    if kind == 1:
        return C.T @ C + D
    s = np.diag([float(rng.choice([1, 2, 8, 32])) for _ in range(n)])
    return s @ (C.T @ C + D) @ s


def int_jacobian(rng, m, n):
    kind = rng.randrange(5)
    if kind == 0:
        return np.zeros((m, n))
    if kind == 1:
        return np.outer([float(rng.randint(-3, 3)) for _ in range(m)], [float(rng.randint(-3, 3)) for _ in range(n)])
    return np.array([[float(rng.randint(-4, 4)) for _ in range(n)] for _ in range(m)])


EXACT_SHAPES = [(1, 1), (1, 3), (3, 1), (2, 3), (3, 2), (2, 2), (3, 3), (4, 2), (2, 5), (5, 5), (6, 4), (4, 6)]


def exact_cases(ctx):
    rng = ctx.rng
    cases = []
    for k in range(ctx.n(36, 300)):
        m, n = EXACT_SHAPES[k % len(EXACT_SHAPES)] if k < 2 * len(EXACT_SHAPES) else (rng.randint(1, 6), rng.randint(1, 6))
        cases.append({"K": int_jacobian(rng, m, n), "S_a": int_spd(rng, n), "S_y": int_spd(rng, m),
                      "A": np.array([[float(rng.randint(-3, 3)) for _ in range(n)] for _ in range(n)]),
                      "x": np.array([float(rng.randint(-5, 5)) for _ in range(n)]),
                      "x_a": np.array([float(rng.randint(-5, 5)) for _ in range(n)]),
                      "e_y": np.array([float(rng.randint(-5, 5)) for _ in range(m)])})
    return cases


def exact_tolerance(fn, c, N):
    """entrywise absolute tolerance on the NORMALISED difference between the code's doubles and the exact value"""
    if fn == "error_covariance_matrix":
        return N.TS
    if fn == "retrieval_gain_matrix":
        return N.TG
    if fn == "averaging_kernel_matrix":
        return N.TA
    if fn == "retrieval_noise":
        eyt = np.abs(c["e_y"] / N.dy).reshape(-1, 1)
        return (N.TG + 2 * N.c * np.abs(N.Gm)) @ eyt + 1e-300
    return np.zeros(1)       # smoothing_error on small integers is exact in doubles


def exact_correspondence(ctx, fns):
    """-> list of failures (size, kind, signature, text, case, impl, model)"""
    text, params, errors = q_model_source()
    ctx.add_obligation("exact model: the five source expressions read into Model/C17_qmat operations", not errors, "; ".join(errors))
    if errors:
        ctx.fail("translation", "source no longer in the matrix-expression subset (exact model): " + "; ".join(errors),
                 obligation="exact model of typhon/retrieval/oem", signature="untranslatable-exact")
        return []
    okb, log, _ = core.coq_build([core.THEORIES / "Model" / "C17_qmat.v"])
    if not okb:
        ctx.fail("proof", "Model/C17_qmat.v does not compile: " + log[-800:], obligation="Model/C17_qmat.v", signature="qmat-build")
        return []
    cases = exact_cases(ctx)
    exprs, index = [], []
    for ci, c in enumerate(cases):
        for fn in FNS:
            exprs.append("out (q_" + fn + " " + " ".join(zmat(c[p]) for p in params[fn]) + ")")
            index.append((ci, fn))
    pre = ("From Coq Require Import QArith.\nFrom Typhon Require Import Model.C17_qmat.\nOpen Scope Z_scope.\n" + text +
           "\nDefinition out (A : omat) := match show A with Some x => [x] | None => [] end.")
    vals, log = core.coq_eval(ctx.work / "cases", "exact", pre, exprs, shard=50)
    if log:
        ctx.log(log[-1500:])
    fails, nontrivial, worst = [], set(), 0.0
    for (ci, fn), v in zip(index, vals):
        ctx.cov["evaluations"] += 1
        c = cases[ci]
        m, n = c["K"].shape
        case = dict(jsonable(c), fn=fn, law="exact")
        if v is None:
            fails.append((m * n, "correspondence", "exact:not-evaluated", f"Coq did not evaluate the exact model of {fn}", case, None, None))
            continue
        got, exc = call(fns[fn], *[c[p] for p in params[fn]])
        if not v:
            # undefined in exact arithmetic: shape error or singular matrix -- impossible for the correct formulas on SPD
            # covariances (theorem S_defining), this is what a mutated formula looks like
            if got is None:
                fails.append((m * n, "failing-input", f"{fn}-raises", f"{fn} fails on SPD covariances and a {m}x{n} Jacobian: {exc} "
                              f"(the exact reading of the source expression is undefined there too: shape error or singular matrix)",
                              case, exc, "undefined"))
            else:
                fails.append((m * n, "correspondence", f"exact:{fn}-undefined", f"the exact reading of {fn} is undefined (shape error / "
                              f"singular matrix) but the code returned a value", case, got.tolist(), "undefined"))
            continue
        model = [[Fraction(int(a), int(b)) for (a, b) in r] for r in v[0]]
        if got is None:
            fails.append((m * n, "failing-input", f"{fn}-raises", f"{fn} fails on SPD covariances and a {m}x{n} Jacobian: {exc}", case, exc,
                          [[str(q) for q in r] for r in model]))
            continue
        g2 = got.reshape(-1, 1) if got.ndim == 1 else got
        want = {"error_covariance_matrix": (n, n), "retrieval_gain_matrix": (n, m), "averaging_kernel_matrix": (n, n),
                "smoothing_error": (n,), "retrieval_noise": (n,)}[fn]
        if got.shape != want:
            fails.append((m * n, "failing-input", f"{fn}-shape", f"{fn} returns shape {got.shape} for a {m}x{n} Jacobian, expected {want}",
                          case, got.tolist(), None))
            continue
        if g2.shape != (len(model), len(model[0])):
            fails.append((m * n, "failing-input", f"{fn}-shape", f"{fn} returns shape {got.shape}, the exact value has shape "
                          f"{(len(model), len(model[0]))}", case, got.tolist(), None))
            continue
        N = Norm(c["K"], c["S_a"], c["S_y"])
        E = np.array([[float(Fraction(float(g2[i, j])) - model[i][j]) for j in range(g2.shape[1])] for i in range(g2.shape[0])])
        if fn == "error_covariance_matrix":
            E = N.nS_(E)
        elif fn == "retrieval_gain_matrix":
            E = N.nG_(E)
        elif fn == "averaging_kernel_matrix":
            E = N.nA_(E)
        elif fn == "retrieval_noise":
            E = E / N.da[:, None]
        tol = np.broadcast_to(exact_tolerance(fn, c, N), E.shape)
        with np.errstate(all="ignore"):
            ratio = np.where(tol > 0, np.abs(E) / np.where(tol > 0, tol, 1.0), np.where(E == 0, 0.0, np.inf))
        worst = max(worst, float(ratio.max()))
        i = int(np.argmax(ratio))
        err, tol1 = float(np.abs(E).ravel()[i]), float(tol.ravel()[i])
        if not np.all(np.abs(E) <= tol):
            # the exact model follows the source expression, whatever it says: a deviation is a numerical / translation
            # disagreement, not by itself a violation of the property (the law sweep decides that)
            fails.append((m * n, "correspondence", f"exact:{fn}", f"{fn} differs from the exact value of its defining expression by "
                          f"{err:.3e} > tolerance {tol1:.3e} (normalised) for a {m}x{n} Jacobian", case, got.tolist(),
                          [[float(q) for q in r] for r in model]))
        elif np.any(c["K"] != 0) and not N.ill:
            nontrivial.add((fn, ci))
    ctx.cov["exact_evaluations"] = len(index)
    ctx.cov["exact_worst_error_over_tolerance"] = round(float(worst), 4)
    ctx.cov["distinct_nontrivial"] += len(nontrivial)
    c = cases[2]
    ctx.sample({"exact_case": {"K": c["K"].tolist(), "S_a": c["S_a"].tolist(), "S_y": c["S_y"].tolist()}})
    return fails


# ============================================================================ entry points

def run(ctx):
    fns = impl()
    missing = encl.translate(ctx, ["oem"], NEEDED)
    ctx.prove("Props/C17.v")
    fails = []
    if not missing:
        fails += exact_correspondence(ctx, fns)
    lf, nontrivial = law_sweep(ctx, fns)
    ctx.cov["distinct_nontrivial"] += nontrivial
    fails += [(size, "failing-input", sig, text, case, None, None) for size, sig, text, case in lf]
    # smallest input first for every signature
    for size, kind, sig, text, case, im, mo in sorted(fails, key=lambda f: (f[0], f[2])):
        ctx.fail(kind, text, case=case, impl=im, model=mo, signature=sig)
    ctx.cov["rule"] = ("exact: (function, small-integer input) pairs with K != 0 whose doubles lie within the tolerance of the exact "
                       "rational value computed in Coq; law sweep: generated (K, S_a, S_y) with K != 0 that are not ill-conditioned "
                       "(every tolerance <= 1e-4 of the result's scale); inputs are drawn independently, so they are distinct")
    ctx.assumptions = ["S_a and S_y symmetric positive definite (constructed so; verified by eigenvalues of the normalised matrices)",
                       "tolerances assume the first-order error model described in tools/props/c17.py with safety constant "
                       f"{CONST} x max(m, n) x 2^-53"]
    return ctx.finish(trusted_base=TRUSTED)


def replay(ctx, rec):
    fns = impl()
    case = rec.get("case") or {}
    if rec.get("kind") == "failing-input" and "K" in case:
        c = {k: (np.array(v, dtype=float) if isinstance(v, list) else v) for k, v in case.items()}
        if case.get("law") == "exact":
            c.setdefault("A_in", c.get("A"))
        bad, _ = check_case(fns, c, limits=bool(case.get("limits", True)))
        # exact cases are re-checked through the laws as well (the exact value needs Coq; the laws do not)
        for sig, text in bad:
            print("still fails:", sig, "--", text)
        if case.get("law") == "exact" and not bad:
            fn = case.get("fn")
            got, exc = call(fns[fn], *[c[p] for p in {"smoothing_error": ("x", "x_a", "A"), "retrieval_noise": ("K", "S_a", "S_y", "e_y")}.get(fn, ("K", "S_a", "S_y"))])
            if got is None:
                print("still fails:", fn, exc)
                return 1
        return 1 if bad else 0
    missing = encl.translate(ctx, ["oem"], NEEDED)
    ctx.prove("Props/C17.v")
    return 1 if (ctx.failures or missing) else 0
