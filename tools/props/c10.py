"""C10 -- parallel map / imap / collect / icollect / align process each file once and keep file order.

Theorems: coq/theories/Props/C10.v -- the transition system of imap (Submit / Complete i / Yield) keeps
the yielded files a prefix of the stream, never queues more than max_workers futures, never gets stuck,
ends with exactly `spec` (values in order up to the first exception) for EVERY schedule; map is the same
system with an unbounded queue; collect drops None contents; the align loop loads every unique secondary
once, in order of first appearance, delivers every pair and evicts after the last use.

Tie: the real FileSet methods are run on harness-built filesets with a FORCED completion order of the
per-file tasks (tools/harness/c10_driver.py: every task blocks until its predecessor in the requested
order is done; the executors in the namespace of typhon.files.fileset are replaced by logging
subclasses).  The recorded trace (submit / finish / yield events) is handed to Coq, which checks that
the model accepts it, and evaluates the specification; a result that differs from the specification, a
queue longer than max_workers or a file processed twice is a failing input of the property.

Extension (Model/C10_bundle.v): imap_lazy -- the submitted tasks never exceed the yielded results by more
than max_workers (checked on every recorded trace by an independent counter as well); bundles are evaluated
with the explicit bundle model (members with contents, nested collect, function applied to the list of
contents): the list the real function was called with is compared with the model's, member reads inside a
bundle are forced into chosen completion orders, readers returning None exercise the None-dropping of
collect.  Thorough tier: the same laws on process pools (map / imap / pass-through imap = what icollect does,
on processes / icollect itself, which pins threads) with events and gates shared through a
multiprocessing.Manager.

Extension 2: (e) TYPE and length of the content of a bundle task -- the harness records whether the function (or the
caller of collect / icollect) got a bare content or a list; Coq compares the observation with the model's list
(`bundle_arg_codes`: a bare content instead of the list is code 2, theorems bundle_singleton_arg /
bundle_arg_is_member_list / observed_arg_agrees_iff); directed streams with bundles of ONE file ([[0,1],[2,3],[4]],
bundle=1, files=[[f0],[f1,f2]], find(bundle=n) inside the call).  (f) compressed files with the same base name in
different directories (layout "gz", see the driver) under forced completion orders in which a later task
decompresses, reads and finishes while an earlier one is still inside its reader: every content must be the content
of the task's OWN file (`own` pairs, theorem task_results_independent) and no task may raise.

Extension 3 (Model/C10_args.v, theorem task_arguments_independent): extra arguments in every form the API accepts --
`args` as a tuple, as a LIST, as None (also empty), `kwargs` as a dict or None -- for map / imap / collect(func=) /
icollect(func=) under forced completion orders, single files and bundles; the mapped function records exactly what it
received (number, order and kind of the positional arguments, the keyword arguments).  Coq runs the model's wrappers
and compares (`args_check`: call_code per task, after_code for the caller's objects; observed_call_agrees_iff): every
task's function gets (the caller's args in order, then its OWN content / FileInfo) and the kwargs, nothing else, and the
caller's `args` and `kwargs` hold afterwards what they held before.
"""
import itertools
import json
import os
import shutil
import tempfile

from lib import core
from lib.core import zlit, coq_list, coq_bool
from harness import c10_driver as drv

PREAMBLE = "From Typhon Require Import Model.C10_pool Model.C10_bundle Model.C10_args.\n"
TRUSTED = [
    "correspondence harness tools/props/c10.py + tools/harness/c10_driver.py (case generators, gates that force the "
    "completion order, logging executor subclasses, canonicalisation of values to integers)",
    "concurrent.futures (Executor.submit/map, Future.result re-raises, shutdown waits), threading, multiprocessing "
    "(modelled by the transition system, exercised, not verified)",
    "FileSet.find / FileSet.match deliver the stream of files (properties C01 / C03); C10 is tied on the stream they deliver",
    "warnings raised in worker threads are observed through warnings.catch_warnings of the main thread",
]


# ----------------------------------------------------------------------------- cases

def first_error(case):
    """Index of the first task (stream order) that ends with an exception, or None (mirror of
    task_result, used only to know which tasks will run; the verdict comes from Coq)."""
    sp = case["sets"]["p"]
    for k, bundle in enumerate(sp["stream"]):
        rf = any(pos in sp["rfail"] for pos in bundle)
        if case["on_content"] and rf:
            if not case["e2w"]:
                return k
            continue
        if k in case["fraise"]:
            return k
    return None


def forced_count(case):
    """Number of leading tasks of the stream that are certain to run (and so can be ordered)."""
    n = len(case["sets"]["p"]["stream"])
    e = first_error(case)
    if e is None:
        return n
    if case["api"] in ("imap", "icollect"):
        return min(n, e + case["sets"]["p"]["w"])
    return e + 1


def mode_of(api):
    return "imap" if api in ("imap", "icollect") else "map"


def mk_case(cid, api, nfiles, stream, w, select="all", period=None, on_content=False, pass_info=False,
            return_info=False, e2w=False, rfail=(), fnone=(), fraise=(), pool="thread", extra_args=False,
            as_generator=False, pass_max_workers=True, rnone=(), passthrough=False, inner_order=None, layout=None,
            bundle=None):
    if api in ("icollect", "collect") or passthrough:
        on_content, pass_info, fnone, fraise = True, False, (), ()
    c = {"id": cid, "api": api, "pool": pool, "on_content": bool(on_content), "pass_info": bool(pass_info),
            "passthrough": bool(passthrough), "inner_order": inner_order,
            "return_info": bool(return_info), "e2w": bool(e2w), "fnone": sorted(fnone), "fraise": sorted(fraise),
            "extra_args": bool(extra_args), "pass_max_workers": bool(pass_max_workers),
            "sets": {"p": {"labels": [f"{(7 * i + 3) % 97:02d}" for i in range(nfiles)], "stream": [list(b) for b in stream],
                           "w": w, "select": select, "period": period, "rfail": sorted(rfail),
                           "rnone": sorted(rnone), "as_generator": bool(as_generator)}},
            "order": None}
    if layout:
        c["layout"] = layout
    if select == "bundle_n":
        c["sets"]["p"]["bundle"] = bundle
    return c


def chunks(nfiles, m):
    return [list(range(i, min(nfiles, i + m))) for i in range(0, nfiles, m)]


def random_stream(rng, nfiles):
    """(select, period, stream) for a fileset of nfiles files (positions = time order)."""
    style = rng.choice(["all", "all", "period", "files", "files_perm", "bundles", "bundles", "bundle_n"])
    if style == "all" or nfiles < 2:
        return "all", None, [[i] for i in range(nfiles)]
    if style == "period":
        a = rng.randint(0, nfiles - 1)
        b = rng.randint(a + 1, nfiles)
        return "period", [a, b], [[i] for i in range(a, b)]
    if style == "files":
        return "files", None, [[i] for i in range(nfiles)]
    if style == "files_perm":
        k = rng.randint(1, nfiles)
        return "files", None, [[i] for i in rng.sample(range(nfiles), k)]
    if style == "bundle_n":
        m = rng.randint(1, 3)       # find(bundle=m) inside the call; the period slot carries m
        return "bundle_n", m, chunks(nfiles, m)
    stream, i = [], 0
    while i < nfiles:
        m = rng.randint(1, 3)
        stream.append(list(range(i, min(nfiles, i + m))))
        i += m
    return "bundles", None, stream


def is_passthrough(case):
    if case.get("argform"):
        return False            # collect(func=...) / icollect(func=...): the caller's own function
    return case["api"] in ("icollect", "collect", "align") or bool(case.get("passthrough"))


# `args` / `kwargs` in the forms the API accepts: (form of args, values), kwargs as [[key index, value], ...] or None
ARG_FORMS = [("tuple", [7, 8]), ("list", [7, 8]), ("none", []), ("list", [9]), ("list", []), ("tuple", [])]
KW_FORMS = [None, [], [[0, 5]], [[0, 5], [1, 6]]]


def arg_form_cases(rng, start_id, apis, pool="thread", all_orders_n=3, all_orders_w=2):
    """Extra arguments for the mapped function in every form the API accepts, on streams of single files and of
    bundles, for every combination of on_content / pass_info the api has; for `args` given as a LIST additionally every
    feasible completion order of `all_orders_n` files on 1 .. `all_orders_w` workers, and an unreadable file under
    error_to_warning (its function must not be called, the others get their own arguments)."""
    shapes = [("all", 3, [[0], [1], [2]]), ("bundles", 5, [[0, 1], [2], [3, 4]]), ("files", 4, [[2], [0], [3]])]
    cases, cid = [], start_id

    def add(api, form, vals, oc, pi, select, nfiles, stream, w, order=None, e2w=False, rfail=()):
        nonlocal cid
        c = mk_case(cid, api, nfiles, stream, w, select, on_content=oc, pass_info=pi, return_info=(cid % 2 == 0),
                    e2w=e2w, rfail=rfail, pool=pool)
        c["on_content"], c["pass_info"] = bool(oc), bool(pi)
        c["argform"] = {"args": form, "vals": list(vals), "kw": KW_FORMS[cid % len(KW_FORMS)]}
        c["order"] = order if order is not None else drv.random_order(
            rng, mode_of(api), forced_count(c), w, style=[None, "latest", "earliest-last"][cid % 3])
        cases.append(c)
        cid += 1

    for api in apis:
        flags = [(True, False), (True, True)] if api in ("collect", "icollect") else [(False, False), (True, False), (True, True)]
        for form, vals in ARG_FORMS:
            for oc, pi in flags:
                for select, nfiles, stream in shapes:
                    add(api, form, vals, oc, pi, select, nfiles, stream, [1, 2, 3][cid % 3])
        for oc, pi in flags:
            n = all_orders_n
            for w in range(1, all_orders_w + 1):
                for order in drv.feasible_orders(mode_of(api), n, w):
                    add(api, "list", [7, 8], oc, pi, "all", n, [[i] for i in range(n)], w, order=order)
            if oc:
                add(api, "list", [7, 8], oc, pi, "all", 3, [[0], [1], [2]], 2, e2w=True, rfail=(1,))
                add(api, "list", [7], oc, pi, "bundles", 4, [[0, 1], [2, 3]], 2, e2w=True, rfail=(1,))
    return cases


def none_and_inner(rng, api, passthrough, on_content, select, stream, rfail, w):
    """Files whose reader returns None and forced member orders inside bundles.  A bundle without an unreadable
    member keeps at least one content (the outcome of a bundle with nothing left to hand on is not fixed by the
    property); single files get a None content only under the pass-through function."""
    rnone, inner = set(), {}
    if not on_content:
        return rnone, None
    pt = passthrough or api in ("icollect", "collect")
    if select in ("bundles", "bundle_n"):
        for k, b in enumerate(stream):
            failing = any(p in rfail for p in b)
            if rng.random() < 0.3:
                cand = [p for p in b if p not in rfail]
                pick = set(rng.sample(cand, rng.randint(0, len(cand)))) if cand else set()
                if not failing and pick >= set(b):
                    pick.discard(rng.choice(sorted(pick)))
                rnone |= pick
            if len(b) >= 2 and not failing and rng.random() < 0.6:
                inner[str(k)] = drv.random_order(rng, "map", len(b), w)
    elif pt and rng.random() < 0.3:
        cand = [b[0] for b in stream if b[0] not in rfail]
        if cand:
            rnone = set(rng.sample(cand, rng.randint(1, max(1, len(cand) // 2))))
    return rnone, (inner or None)


def random_case(rng, cid, api, nmax, pool="thread", passthrough=False, layout=None):
    nfiles = rng.randint(2 if layout else 1, nmax)
    select, period, stream = random_stream(rng, nfiles)
    bundle = None
    if select == "bundle_n":
        bundle, period = period, None
    n = len(stream)
    w = rng.choice([2, 2, 3, 3, 4, n] if layout else [1, 2, 2, 3, 3, 4, 5, n, n + 2])
    # compressed files: the reads are what matters
    on_content = rng.random() < 0.6 or passthrough or api in ("icollect", "collect") or bool(layout)
    fail_style = rng.random()
    rfail, fnone, fraise = set(), set(), set()
    files_in_stream = [p for b in stream for p in b]
    if on_content or api in ("icollect", "collect"):
        if fail_style < 0.5:
            rfail = set(rng.sample(files_in_stream, rng.randint(1, max(1, len(files_in_stream) // 2))))
        elif fail_style < 0.55:
            rfail = set(files_in_stream)
    if rng.random() < 0.4:
        fnone = set(rng.sample(range(n), rng.randint(1, n)))
    if rng.random() < 0.25:
        fraise = set(rng.sample(range(n), rng.randint(1, min(2, n))))
    rnone, inner = none_and_inner(rng, api, passthrough, on_content, select, stream, rfail, w)
    c = mk_case(cid, api, nfiles, stream, w, select, period, on_content, rng.random() < 0.5, rng.random() < 0.5,
                rng.random() < 0.6, rfail, fnone, fraise, pool=pool, extra_args=rng.random() < 0.2 and not passthrough,
                as_generator=(select == "files" and rng.random() < 0.3), pass_max_workers=True,
                rnone=rnone, passthrough=passthrough, inner_order=inner, layout=layout, bundle=bundle)
    c["order"] = drv.random_order(rng, mode_of(api), forced_count(c), w)
    return c


def exhaustive_cases(rng, start_id, nmax, wmax, apis):
    """Every completion order the model allows for n <= nmax files and 1..wmax workers."""
    cases, cid = [], start_id
    for api in apis:
        for n in range(1, nmax + 1):
            for w in range(1, wmax + 1):
                if w > n + 1:
                    continue
                for order in drv.feasible_orders(mode_of(api), n, w):
                    c = mk_case(cid, api, n, [[i] for i in range(n)], w, return_info=(cid % 2 == 0))
                    c["order"] = order
                    cases.append(c)
                    cid += 1
    return cases


def bundle_pattern_cases(rng, start_id, sizes, apis, pool="thread"):
    """A stream of two bundles; every member of the first one is readable / returns None / cannot be read (all
    patterns), error_to_warning on and off; when no member fails, every completion order of the member reads
    inside the bundle is forced.  `apis` is cycled through when it is a tuple of one-element choices."""
    cases, cid = [], start_id
    for m in sizes:
        stream = [list(range(m)), [m, m + 1]]
        for pat in itertools.product("onf", repeat=m):
            if "f" not in pat and "o" not in pat:
                continue            # nothing left to hand on: not fixed by the property
            rfail = {i for i, c in enumerate(pat) if c == "f"}
            rnone = {i for i, c in enumerate(pat) if c == "n"}
            inner = [None] if rfail else drv.feasible_orders("map", m, m)
            for e2w in (True, False):
                for order in inner:
                    for api in (apis if isinstance(apis, list) else [apis[cid % len(apis)]]):
                        w = m                      # the nested collect runs on max_threads = w workers
                        c = mk_case(cid, api, m + 2, stream, w, "bundles", on_content=True, e2w=e2w, rfail=rfail,
                                    rnone=rnone, pass_info=(cid % 3 == 0), return_info=(cid % 2 == 0), pool=pool,
                                    inner_order=({"0": order} if order else None))
                        c["order"] = drv.random_order(rng, mode_of(api), forced_count(c), w)
                        cases.append(c)
                        cid += 1
    return cases


def singleton_bundle_cases(rng, start_id, apis, pool="thread"):
    """Streams with bundles of exactly ONE file (the trailing bundle of find(bundle=2) over 5 files, bundle=1, explicit
    files=[[f0],[f1,f2]], ...): the function / the caller gets the one-element list [content], not the bare content
    (bundle_singleton_arg).  `apis`: (api, passthrough) pairs."""
    shapes = [("bundles", None, 5, [[0, 1], [2, 3], [4]]), ("bundle_n", 2, 5, chunks(5, 2)),
              ("bundles", None, 3, [[0], [1, 2]]), ("bundles", None, 3, [[0], [1], [2]]),
              ("bundle_n", 1, 3, chunks(3, 1)), ("bundle_n", 3, 4, chunks(4, 3)),
              ("bundles", None, 4, [[1], [0, 2, 3]]), ("bundle_n", 4, 1, chunks(1, 4)), ("bundles", None, 1, [[0]])]
    cases, cid = [], start_id
    for api, pt in apis:
        for select, m, nfiles, stream in shapes:
            for variant in range(2):
                n = len(stream)
                w = [2, 3][variant] if n > 1 else 1 + variant
                e2w = variant == 1
                rfail = {stream[-1][0]} if (variant == 1 and cid % 3 == 0 and n > 1) else set()
                c = mk_case(cid, api, nfiles, stream, w, select, on_content=True, e2w=e2w, rfail=rfail,
                            pass_info=(cid % 2 == 0), return_info=(cid % 3 != 1), pool=pool, passthrough=pt, bundle=m)
                c["order"] = drv.random_order(rng, mode_of(api), forced_count(c), w, style="latest" if variant else None)
                cases.append(c)
                cid += 1
    return cases


def gz_cases(rng, start_id, apis, nmax, wmax, sampled, pool="thread"):
    """Compressed files with the same base name in different directories (layout "gz"): every feasible completion
    order for 2..nmax files on 2..wmax workers -- among them all orders in which a later task decompresses, reads and
    finishes while an earlier one is still inside its reader -- a one-worker run, and `sampled` random cases per api
    (bundles with forced member orders, unreadable files, periods, files=).  `apis`: (api, passthrough) pairs."""
    cases, cid = [], start_id
    for api, pt in apis:
        for n in range(2, nmax + 1):
            for w in [1] + list(range(2, wmax + 1)):
                if w > n + 1 or (w == 1 and n != 3):
                    continue
                for order in drv.feasible_orders(mode_of(api), n, w):
                    c = mk_case(cid, api, n, [[i] for i in range(n)], w, on_content=True, pass_info=(cid % 2 == 0),
                                return_info=(cid % 3 != 0), pool=pool, passthrough=pt, layout="gz")
                    c["order"] = order
                    cases.append(c)
                    cid += 1
        for _ in range(sampled):
            cases.append(random_case(rng, cid, api, 7, pool=pool, passthrough=pt, layout="gz"))
            cid += 1
    return cases


def failing_subset_cases(rng, start_id, n, apis, pool="thread"):
    """Readers failing on every subset of n files, error_to_warning on and off, one random forced order each."""
    cases, cid = [], start_id
    for api in apis:
        for r in range(0, n + 1):
            for sub in itertools.combinations(range(n), r):
                for e2w in (True, False):
                    w = rng.choice([1, 2, 3])
                    c = mk_case(cid, api, n, [[i] for i in range(n)], w, on_content=True, e2w=e2w, rfail=sub,
                                return_info=rng.random() < 0.5, pass_info=rng.random() < 0.5,
                                fnone=set(rng.sample(range(n), rng.randint(0, 1))), pool=pool)
                    c["order"] = drv.random_order(rng, mode_of(api), forced_count(c), w)
                    cases.append(c)
                    cid += 1
    return cases


def uniq(xs):
    seen, out = set(), []
    for x in xs:
        if x not in seen:
            seen.add(x)
            out.append(x)
    return out


def align_case(rng, cid, nmax):
    timed = rng.random() < 0.3
    if timed:
        n_p = rng.randint(1, nmax)
        n_s = rng.randint(max(1, n_p - 1), n_p + 1)
        mi_days = rng.choice([0, 1, 1, 2])
        matches = []
        for i in range(n_p):
            secs = [j for j in range(n_s) if abs(i - j) <= mi_days]
            if secs:
                matches.append([i, secs])
        if not matches:
            matches = None
    if not timed or matches is None:
        timed = False
        n_p, n_s = rng.randint(1, nmax), rng.randint(1, nmax)
        prim = rng.sample(range(n_p), rng.randint(1, n_p))
        matches = []
        for pp in prim:
            k = rng.randint(1, min(4, n_s + 1))
            secs = [rng.randrange(n_s) for _ in range(k)]
            if rng.random() < 0.6:
                secs = uniq(secs)
            matches.append([pp, secs])
    useq = uniq([x for _, secs in matches for x in secs])
    wp, ws = rng.choice([1, 2, 3, 4]), rng.choice([1, 2, 3, 4])
    skip = rng.random() < 0.6
    pfail, sfail = set(), set()
    if rng.random() < 0.5:
        pfail = set(rng.sample([m[0] for m in matches], rng.randint(0, max(1, len(matches) // 2))))
        sfail = set(rng.sample(useq, rng.randint(0, max(1, len(useq) // 2))))
    forced = skip or not (pfail or sfail)
    c = {"id": cid, "api": "align", "pool": "thread", "skip_errors": skip, "return_info": rng.random() < 0.5,
         "on_content": True, "pass_info": False, "e2w": skip, "fnone": [], "fraise": [],
         "matches": None if timed else matches, "planned_matches": matches,
         "max_interval_h": (24 * mi_days + 1 if mi_days else None) if timed else None,
         "sets": {"p": {"labels": [f"{i:02d}" for i in range(n_p)], "stream": [[m[0]] for m in matches], "w": wp,
                        "rfail": sorted(pfail)},
                  "s": {"labels": [f"{i:02d}" for i in range(n_s)], "stream": [[x] for x in useq], "w": ws,
                        "rfail": sorted(sfail)}},
         "order_p": drv.random_order(rng, "imap", len(matches), wp) if forced else None,
         "order_s": drv.random_order(rng, "imap", len(useq), ws) if forced else None}
    return c


# ----------------------------------------------------------------------------- Coq expressions

def is_bundled(case, name="p"):
    return case["sets"][name].get("select") in ("bundles", "bundle_n")


def task_items(case, name="p"):
    """(reads / members, want, f, fv) per task of the stream."""
    sp = case["sets"][name]
    passthrough = is_passthrough(case)
    rnone = set(sp.get("rnone", []))
    items = []
    for k, bundle in enumerate(sp["stream"]):
        if not passthrough and k in case["fraise"]:
            f, fv = 2, 3000 + k
        elif not passthrough and k in case["fnone"]:
            f, fv = 1, 0
        elif passthrough and not is_bundled(case, name) and bundle[0] in rnone:
            f, fv = 1, 0        # the pass-through function hands the None content on
        else:
            f, fv = 0, 1000 + k
        items.append((bundle, f, fv))
    return items


def tasks_expr(case, name="p"):
    sp = case["sets"][name]
    rnone = set(sp.get("rnone", []))
    oc, ew = coq_bool(case['on_content']), coq_bool(case['e2w'])
    if is_bundled(case, name):
        return f"(bresults {oc} {ew} {btasks_expr(case, name)})"
    items = []
    for bundle, f, fv in task_items(case, name):
        reads = coq_list([zlit(2000 + pos if pos in sp["rfail"] else -1) for pos in bundle])
        items.append(f"mk_task {reads} {f} {fv}")
    return f"(results {oc} {ew} {coq_list(items)})"


def btasks_expr(case, name="p"):
    """The stream of a bundled case in the explicit bundle model (Model/C10_bundle.v)."""
    sp = case["sets"][name]
    rnone = set(sp.get("rnone", []))
    items = []
    for bundle, f, fv in task_items(case, name):
        members = coq_list([zlit(2000 + pos if pos in sp["rfail"] else (-1 if pos in rnone else pos)) for pos in bundle])
        want = coq_list([zlit(pos) for pos in bundle if pos not in rnone])
        items.append(f"mk_btask {members} {want} {f} {fv}")
    return coq_list(items)


def task_of_code(case, code, name="p"):
    if not isinstance(code, int):
        return None
    if 3000 <= code < 4000:
        return code - 3000
    if 2000 <= code < 3000:
        for k, b in enumerate(case["sets"][name]["stream"]):
            if code - 2000 in b:
                return k
    return None


def trace_of(case, obs, name="p"):
    tr = []
    for kind, nm, k in obs["events"]:
        if nm != name or k is None or kind not in ("submit", "finish", "yield"):
            continue
        tr.append({"submit": "zS", "finish": "zC", "yield": "zY"}[kind] + f" {zlit(k)}")
    k = task_of_code(case, obs.get("err"), name)
    if k is not None and case["api"] in ("imap", "icollect"):
        tr.append(f"zY {zlit(k)}")
    return tr


def maplike_expr(case, obs):
    n = len(case["sets"]["p"]["stream"])
    w = case["sets"]["p"]["w"] if case["api"] in ("imap", "icollect") else max(1, n)
    rs = tasks_expr(case)
    tr = coq_list(trace_of(case, obs))
    prio = coq_list([zlit(k) for k in case["order"]])
    if is_bundled(case):
        bc = f"bundle_check {coq_bool(case['on_content'])} {coq_bool(case['e2w'])} {btasks_expr(case)}"
        # what the function of every task was seen to be called with: (0, []) nothing, (1, l) a bare content, (2, l) a list
        seen = []
        for k in range(n):
            got, kind = obs.get("args", {}).get(f"p:{k}"), obs.get("kinds", {}).get(f"p:{k}")
            seen.append("(0, [])" if got is None else f"({1 if kind == 'bare' else 2}, {coq_list([zlit(x) for x in got])})")
        codes = f"bundle_arg_codes {btasks_expr(case)} {coq_list(seen)}"
    else:
        bc = "(@nil (option (list Z)), true)"
        codes = "(@nil Z)"
    return (f"(check_trace {w} {rs} {tr}, sched_z {w} {rs} {prio}, cres_z (collect_model {rs}), {bc}, {codes}, "
            f"{args_expr(case, obs)})")


def zpairs(ps):
    return coq_list([f"({zlit(a)}, {zlit(b)})" for a, b in ps])


def first_call(obs, k):
    calls = (obs.get("calls") or {}).get(f"p:{k}") or []
    return calls[0] if calls else None


def args_expr(case, obs):
    """Model/C10_args.v: the model's wrappers against the recorded calls, the caller's objects after the run."""
    af = case.get("argform")
    if not af:
        return "(@nil Z, 0%Z, 0%Z)"
    n = len(case["sets"]["p"]["stream"])
    form = {"none": 0, "tuple": 1, "list": 2}[af["args"]]
    seen = []
    for k in range(n):
        call = first_call(obs, k)
        seen.append("(0, [], [])" if call is None else f"(1, {zpairs(call[0])}, {zpairs(call[1])})")
    after = obs.get("args_after")
    kwafter = obs.get("kwargs_after")
    return (f"(args_check {coq_bool(case['on_content'])} {coq_bool(case['pass_info'])} {form} {core.zlist(af['vals'])} "
            f"{zpairs(af.get('kw') or [])} {zlit(n)} {core.zlist(case['order'])} {coq_list(seen)} "
            f"{zpairs(after if after is not None else [])} {zpairs(kwafter if kwafter is not None else [])})")


def align_expr(case):
    return "align_z " + coq_list([coq_list([zlit(x) for x in secs]) for _, secs in case["planned_matches"]])


# ----------------------------------------------------------------------------- verdicts

def describe(case):
    sp = case["sets"]["p"]
    lay = ("compressed files <dir>/yyyy/mm/dd/data.txt.gz (same base name everywhere), " if case.get("layout") == "gz" else "")
    return (f"{case['api']}({case.get('pool','thread')}, {lay}max_workers={sp['w']}, select={sp.get('select')}"
            f"{'=' + str(sp.get('bundle')) if sp.get('select') == 'bundle_n' else ''}, stream={sp['stream']}, "
            f"on_content={case['on_content']}, return_info={case['return_info']}, error_to_warning={case['e2w']}, "
            f"unreadable={sp['rfail']}, reader returns None for {sp.get('rnone', [])}, func None for {case['fnone']}, "
            f"func raises for {case['fraise']}, pass-through function={bool(case.get('passthrough'))}, "
            f"forced completion order {case.get('order')}, member orders inside bundles {case.get('inner_order')}"
            + (f", extra arguments {case['argform']}, pass_info={case['pass_info']}" if case.get("argform") else "") + ")")


def judge_maplike(ctx, case, obs, val):
    """Compare one observation with what Coq computed. Returns True when the case counted as non-trivial."""
    api = case["api"]
    sp = case["sets"]["p"]
    n, w = len(sp["stream"]), sp["w"]
    if "crash" in obs:
        ctx.fail("correspondence", "the harness child crashed: " + obs["crash"][-400:], case=case, signature="harness-crash")
        return False
    if obs.get("skipped"):
        ctx.notes.append(f"case {case['id']} skipped: {obs['skipped']}")
        return False
    if val is None:
        ctx.fail("correspondence", "Coq evaluation of the model failed", case=case, signature="coq-eval")
        return False
    # Coq prints left-nested pairs flat
    acc, final, mvals, merr, svals, serr, sched, (ccode, clist), (margs, refines), codes, argchk = val
    n_acc, n_tr, inflight = acc
    opt = lambda v: None if v is None else v[1]        # noqa: E731
    svals, mvals = [opt(v) for v in svals], [opt(v) for v in mvals]
    serr = None if serr == -1 else serr
    what = describe(case)
    bad = False

    def fail(kind, msg, sig, impl=None, model=None):
        nonlocal bad
        bad = True
        ctx.fail(kind, f"{msg} -- {what}", case=case, impl=impl, model=model, signature=sig)

    # --- the property itself: what the caller received
    if api in ("imap", "icollect"):
        if obs["out"] != svals or obs["err"] != serr:
            fail("failing-input", f"{api} handed the caller values {obs['out']} / exception {obs['err']}; the property "
                 f"requires {svals} / {serr}", f"{api}-result", impl=[obs["out"], obs["err"]], model=[svals, serr])
        if inflight > w:
            fail("failing-input", f"{api} held {inflight} submitted-but-unconsumed tasks with max_workers={w} (it ran ahead of "
                 f"its consumer: submitted > yielded + max_workers, imap_lazy / imap_bounded)",
                 f"{api}-bound", impl=obs["events"])
    elif api == "map":
        want = (svals, None) if serr is None else ([], serr)
        if (obs["out"], obs["err"]) != want:
            fail("failing-input", f"map returned {obs['out']} / exception {obs['err']}; the property requires "
                 f"{want[0]} / {want[1]}", "map-result", impl=[obs["out"], obs["err"]], model=list(want))
    elif api == "collect":
        if ccode == -2:
            # nothing but None contents: the property does not fix the outcome (the code raises ValueError)
            ctx.notes.append(f"case {case['id']}: collect with no content left -> {obs['err']}")
            return False
        want = ([1000 + i for i, _ in clist], None) if ccode == -1 else ([], ccode)
        if (obs["out"], obs["err"]) != want:
            fail("failing-input", f"collect returned {obs['out']} / exception {obs['err']}; the property requires "
                 f"{want[0]} / {want[1]}", "collect-result", impl=[obs["out"], obs["err"]], model=list(want))
    if not obs.get("yield_info_ok", True):
        fail("failing-input", f"{api}: a result was paired with the FileInfo of another file", f"{api}-info-pairing",
             impl=obs["out"])
    # --- bundles: the function is applied to the list of member contents in member order (bundle_task_result)
    if is_bundled(case) and case["on_content"]:
        if not refines:
            ctx.fail("proof", "the bundle model and its abstraction to the pool model differ (bundle_refines_task)", case=case,
                     signature="model-vs-spec")
        oargs, okinds = obs.get("args", {}), obs.get("kinds", {})
        for k, m in enumerate(margs):
            got, kind = oargs.get(f"p:{k}"), okinds.get(f"p:{k}")
            code = codes[k] if k < len(codes) else None
            members = sp["stream"][k]
            # the verdict is Coq's (bundle_arg_codes, observed_arg_agrees_iff); the same comparison in Python guards the encoding
            py_ok = (got is None) if m is None else (got == m[1] and kind == "list")
            if (code == 0) != py_ok:
                ctx.fail("correspondence", f"harness: bundle {k}: Coq's arg_code {code} and the harness's own comparison "
                         f"({got}, {kind} vs {m}) differ", case=case, signature="harness-arg-code")
            if code == 3:
                # a member cannot be read: the function must not be called for this bundle
                fail("failing-input", f"{api}: the function of bundle {k} was called with the contents {got} although a "
                     f"member cannot be read", f"{api}-bundle-args", impl=got)
            elif code == 2:
                fail("failing-input", f"{api}: bundle {k} (files {members}, {len(members)} file(s)) handed on the BARE content "
                     f"of file {got} instead of the list of its members' contents {m[1]}: the property requires the list, one "
                     f"entry per member, for every bundle size (bundle_singleton_arg / bundle_arg_is_member_list)",
                     f"{api}-bundle-args", impl=["bare", got], model=m[1])
            elif code == 1:
                fail("failing-input", f"{api}: the function of bundle {k} was called with the contents of the files {got}; the "
                     f"property requires the members' contents in member order {m[1]}", f"{api}-bundle-args",
                     impl=got, model=m[1])
            elif code == 4 and obs["err"] is None and api in ("map", "imap") and not case.get("passthrough"):
                fail("failing-input", f"{api}: the function was never called for bundle {k} (contents {m[1]})",
                     f"{api}-bundle-args", impl=oargs, model=m[1])
        # the forced completion order of the member reads inside a bundle was followed
        for ks, order in (case.get("inner_order") or {}).items():
            b = sp["stream"][int(ks)]
            seen = [k2 for kind, nm, k2 in obs["events"] if kind == "mread" and k2 in b]
            if len(seen) == len(b) and seen != [b[i] for i in order] and not bad and not obs["stuck"]:
                fail("correspondence", f"{api}: the members of bundle {ks} were read in order {seen}, forced {[b[i] for i in order]}",
                     f"{api}-inner-order-not-forced", impl=seen)
    # --- a task on a single file gets the bare content of that file, not a list
    if not is_bundled(case) and case["on_content"]:
        wrong = {k: v for k, v in obs.get("kinds", {}).items() if v != "bare"}
        if wrong:
            fail("failing-input", f"{api}: tasks on a single file were handed a {sorted(set(wrong.values()))} instead of the "
                 f"file's content: {wrong}", f"{api}-content-type", impl=wrong)
    # --- every content is the content of the task's OWN file(s) (task_results_independent: a task's result depends on
    #     its own file only, whatever the other tasks do at the same time)
    rnone_p = set(sp.get("rnone", []))
    for k, positions in obs.get("own", []):
        own = [p for p in sp["stream"][k] if p not in rnone_p] if isinstance(k, int) and 0 <= k < n else None
        if positions != own:
            fail("failing-input", f"{api}: task {k} (files {sp['stream'][k] if own is not None else '?'}) was paired with the "
                 f"content of the files {positions}: every task must get the content of its own file(s) "
                 f"(task_results_independent)", f"{api}-own-content", impl=[k, positions], model=own)
            break
    # --- extra arguments: every task's function gets (the caller's args in order, its own file arguments) and the kwargs,
    #     nothing else; the caller's objects are not modified (task_arguments_independent; the verdict is Coq's)
    if case.get("argform"):
        judge_args(ctx, case, obs, argchk, fail)
    # --- exactly once
    delivered = len(obs["out"]) if api in ("imap", "icollect") else (n if obs["err"] is None else 0)
    over = {k: v for k, v in obs["func_calls"].items() if v > 1}
    over.update({"read " + k: v for k, v in obs["read_calls"].items() if v > 1})
    if over:
        fail("failing-input", f"{api}: processed more than once: {over}", f"{api}-exactly-once", impl=over)
    if obs["err"] is None and not case["on_content"] and api in ("map", "imap"):
        missing = [k for k in range(n) if obs["func_calls"].get(f"p:{k}", 0) != 1]
        if missing:
            fail("failing-input", f"{api}: the function was not called exactly once for tasks {missing}",
                 f"{api}-exactly-once", impl=obs["func_calls"])
    if obs["err"] is None and case["on_content"]:
        # a bundle with an unreadable member yields one warning and one None for the bundle (the unit map() works
        # on); whether the bundle's other members were still read before the error surfaced is not fixed by the
        # property (they must not be read twice, checked above), so only bundles without unreadable member count here
        files = [p for b in sp["stream"] if not (case["e2w"] and len(b) > 1 and any(q in sp["rfail"] for q in b)) for p in b]
        missing = [p for p in files if obs["read_calls"].get(f"p:{p}", 0) != 1]
        if missing:
            fail("failing-input", f"{api}: files not read exactly once: {missing}", f"{api}-exactly-once",
                 impl=obs["read_calls"])
    # --- warnings
    if obs.get("warnings") is not None and obs["err"] is None and case["on_content"]:
        nwarn = sum(1 for b in sp["stream"] if any(p in sp["rfail"] for p in b)) if case["e2w"] else 0
        if obs["warnings"] != nwarn:
            fail("failing-input", f"{api}: {obs['warnings']} read warnings for {nwarn} unreadable files/bundles",
                 f"{api}-warnings", impl=obs["warnings"])
    # --- the tie: schedule followed, trace accepted by the model
    if obs["stuck"] and not bad:
        fail("correspondence", f"{api} could not follow a completion order the model allows (task, waiting for): "
             f"{obs['stuck']}", f"{api}-stuck", impl=obs["events"])
    fin = [k for kind, nm, k in obs["events"] if kind == "finish" and k in case["order"]]
    if not obs["stuck"] and fin != case["order"] and not bad:
        fail("correspondence", f"{api}: tasks finished in order {fin}, forced order {case['order']}",
             f"{api}-order-not-forced", impl=obs["events"])
    if api in ("imap", "icollect"):
        model_compl = [k for a, k in sched if a == 1]
        if model_compl != case["order"]:
            ctx.fail("correspondence", f"harness: the model's scheduler completes {model_compl} for priority {case['order']}",
                     case=case, signature="harness-schedule")
    if not bad and api in ("imap", "icollect", "map") and (n_acc != n_tr or not final or (mvals, merr) != (svals, -1 if serr is None else serr)):
        if api == "map" and obs["err"] is not None:
            pass        # the list is lost with the exception: the trace has no yields to accept
        else:
            fail("correspondence", f"{api}: the model accepts only the first {n_acc} of {n_tr} recorded events "
                 f"(final={final})", f"{api}-trace-rejected", impl=obs["events"])
    return n >= 2 and len(set(case["order"])) >= 2 and case["order"] != sorted(case["order"])


ARG_KIND = {0: "caller's argument", 1: "content of task", 2: "FileInfo of task", 4: "wrongly composed content of task",
            5: "wrongly composed FileInfo of task", 9: "unknown object"}


def show_args(pos):
    return "(" + ", ".join(f"{ARG_KIND.get(a, a)} {b}" if a != 9 else ARG_KIND[9] for a, b in pos) + ")"


def judge_args(ctx, case, obs, argchk, fail):
    api, sp, af = case["api"], case["sets"]["p"], case["argform"]
    n = len(sp["stream"])
    codes, after, kwafter = argchk
    given = {"none": "args=None", "tuple": f"args=tuple{tuple(af['vals'])}", "list": f"args=LIST {af['vals']}"}[af["args"]]
    given += f", kwargs={af.get('kw')}"
    for k in range(n):
        call = first_call(obs, k)
        code = codes[k] if k < len(codes) else None
        pos, kw = drv.expected_call(case, k)
        py_ok = call is not None and call[0] == pos and call[1] == kw
        if (code == 0) != py_ok:
            ctx.fail("correspondence", f"harness: task {k}: Coq's call_code {code} and the harness's own comparison "
                     f"({call} vs {[pos, kw]}) differ", case=case, signature="harness-call-code")
        unreadable = case["on_content"] and any(p in sp["rfail"] for p in sp["stream"][k])
        if call is not None and unreadable:
            fail("failing-input", f"{api}: the function of task {k} was called {show_args(call[0])} although its file "
                 f"cannot be read ({given})", f"{api}-arguments", impl=call)
        elif call is not None and code in (2, 3):
            fail("failing-input", f"{api}: the function of task {k} was called with {len(call[0])} positional arguments "
                 f"{show_args(call[0])}; the property requires exactly the caller's arguments in order followed by the "
                 f"task's own file arguments {show_args(pos)} ({given}; task_arguments_independent)",
                 f"{api}-arguments", impl=call[0], model=pos)
        elif call is not None and code == 5:
            fail("failing-input", f"{api}: the function of task {k} was called with the keyword arguments {call[1]}; the "
                 f"caller gave {kw} ({given})", f"{api}-arguments", impl=call[1], model=kw)
        elif call is None and not unreadable and obs["err"] is None:
            fail("failing-input", f"{api}: the function was never called for task {k} ({given})", f"{api}-arguments",
                 impl=obs.get("calls"))
    stray = (obs.get("calls") or {}).get("p:-1")
    if stray:
        fail("failing-input", f"{api}: the function was called with arguments that name no task of the stream: "
             f"{show_args(stray[0][0])} ({given})", f"{api}-arguments", impl=stray)
    if after != 0:
        fail("failing-input", f"{api}: the caller's own `args` object was changed by the call ({given}): it now holds "
             f"{show_args(obs.get('args_after') or [])}" + (" -- it GREW by the file arguments of the tasks" if after == 1 else ""),
             f"{api}-args-modified", impl=obs.get("args_after"), model=[[0, v] for v in af["vals"]])
    if kwafter != 0:
        fail("failing-input", f"{api}: the caller's own `kwargs` dict was changed by the call ({given}): it now holds "
             f"{obs.get('kwargs_after')}", f"{api}-args-modified", impl=obs.get("kwargs_after"), model=af.get("kw"))
    if not obs.get("args_type_kept", True):
        ctx.fail("correspondence", "harness: the args object has not the requested type", case=case, signature="harness-args-type")


def judge_align(ctx, case, obs, val):
    if obs.get("skipped"):
        ctx.notes.append(f"case {case['id']} skipped: {obs['skipped']}")
        return False
    if val is None:
        ctx.fail("correspondence", "Coq evaluation of align_model failed", case=case, signature="coq-eval")
        return False
    loads, deliv, (maxcache, cache_end, loader_end), aerr = val
    matches = case["planned_matches"]
    what = (f"align(skip_errors={case['skip_errors']}, return_info={case['return_info']}, matches(primary, secondaries)="
            f"{matches}, max_threads p/s={case['sets']['p']['w']}/{case['sets']['s']['w']}, unreadable p/s="
            f"{case['sets']['p']['rfail']}/{case['sets']['s']['rfail']}, forced orders {case['order_p']} / {case['order_s']})")
    bad = False

    def fail(kind, msg, sig, impl=None, model=None):
        nonlocal bad
        bad = True
        ctx.fail(kind, f"{msg} -- {what}", case=case, impl=impl, model=model, signature=sig)
    useq = [b[0] for b in case["sets"]["s"]["stream"]]
    if aerr or loads != useq or cache_end or loader_end:
        ctx.fail("proof", "align model contradicts its theorems", case=case, signature="model-vs-spec")
    pf, sf = set(case["sets"]["p"]["rfail"]), set(case["sets"]["s"]["rfail"])
    full = [[matches[m][0], x] for m, x in deliv]
    want = [[a, x] for a, x in full if a not in pf and x not in sf]
    got = [[a, x] for a, x, _ in obs["deliv"]]
    if not case["skip_errors"] and (pf or sf):
        # the first unreadable file in consumption order raises
        if obs["err"] is None or not isinstance(obs["err"], int):
            fail("failing-input", f"align: an unreadable file did not raise its error (got {obs['err']})", "align-error-lost",
                 impl=obs["err"])
        elif got != full[:len(got)]:
            fail("failing-input", f"align yielded {got}, not a prefix of {full}", "align-deliveries", impl=got, model=full)
    else:
        if obs["err"] is not None:
            fail("failing-input", f"align raised {obs['err']}", "align-raised", impl=obs["err"], model=want)
        elif got != want:
            fail("failing-input", f"align yielded the pairs {got}; every matched pair in order is {want}",
                 "align-deliveries", impl=got, model=want)
        twice = {k: v for k, v in obs["read_calls"].items() if v != 1}
        nread = len(obs["read_calls"])
        if (twice or nread != len(matches) + len(useq)) and obs["err"] is None:
            fail("failing-input", f"align: files not read exactly once: {twice or obs['read_calls']}", "align-read-once",
                 impl=obs["read_calls"])
    if any(not ok for _, _, ok in obs["deliv"]):
        fail("failing-input", "align paired a content with the wrong FileInfo or read a file twice", "align-content",
             impl=obs["deliv"])
    sub_s = [k for kind, nm, k in obs["events"] if kind == "submit" and nm == "s"]
    if obs["err"] is None and sub_s != list(range(len(useq))) and not bad:
        fail("failing-input", f"align read the secondaries in order {sub_s}, expected each unique secondary once in order "
             f"of first appearance", "align-load-order", impl=sub_s)
    if obs["stuck"] and not bad:
        fail("correspondence", f"align could not follow the forced completion orders: {obs['stuck']}", "align-stuck",
             impl=obs["events"])
    shared = any(sum(1 for _, x in deliv if x == y) > 1 for y in useq)
    return shared and len(matches) >= 2


# ----------------------------------------------------------------------------- running

def run_thread_cases(ctx, cases, root):
    obs = []
    for c in cases:
        try:
            obs.append(drv.run_case(c, root))
        except Exception as e:   # noqa
            import traceback
            obs.append({"crash": traceback.format_exc()[-1500:]})
    return obs


def run_child_cases(ctx, cases, args=(), shards=8):
    """Run the cases in `shards` child interpreters of tools/harness/c10_driver.py (round-robin); the observations come
    back in the order of `cases`."""
    if not cases:
        return []
    chunks = [cases[i::shards] for i in range(shards)]
    chunks = [c for c in chunks if c]
    from concurrent.futures import ThreadPoolExecutor

    def one(chunk):
        r = core.run_py(core.VERIF / "tools" / "harness" / "c10_driver.py", list(args), timeout=800, stdin=json.dumps(chunk))
        for line in r.stdout.splitlines():
            if line.startswith("C10RESULT "):
                return json.loads(line[len("C10RESULT "):])
        return [{"crash": (r.stdout + r.stderr)[-1500:]}] * len(chunk)
    with ThreadPoolExecutor(max_workers=shards) as ex:
        res = list(ex.map(one, chunks))
    out = [None] * len(cases)
    for i, chunk_res in enumerate(res):
        for j, o in enumerate(chunk_res):
            out[i + shards * j] = o
    return out


def run_process_cases(ctx, cases):
    return run_child_cases(ctx, cases)


def run_thread_cases_parallel(ctx, cases):
    """The thread-pool cases, sharded over child interpreters (each case still runs alone in its interpreter, with the
    in-process recorder); the children strip the case dicts they receive, the parent's copies stay as generated."""
    return run_child_cases(ctx, cases, args=("--thread",))


def evaluate(ctx, cases, obs, tag):
    exprs = []
    for c, o in zip(cases, obs):
        if c["api"] == "align":
            exprs.append(align_expr(c))
        elif "crash" in o or o.get("skipped"):
            exprs.append("0")
        else:
            exprs.append(maplike_expr(c, o))
    vals, log = core.coq_eval(ctx.work / "cases", tag, PREAMBLE, exprs, shard=120)
    if log:
        ctx.log(log[-2000:])
    nontrivial = set()
    for c, o, v in zip(cases, obs, vals):
        ctx.cov["evaluations"] += 1
        if c["api"] == "align":
            nt = judge_align(ctx, c, o, v)
        else:
            nt = judge_maplike(ctx, c, o, v)
        if nt:
            key = dict(c)
            key.pop("id", None)
            nontrivial.add(json.dumps(key, sort_keys=True, default=str))
        if c["id"] % 97 == 0:
            ctx.sample({"case": {k: c[k] for k in c if k not in ("sets",)}, "stream": c["sets"]["p"]["stream"],
                        "w": c["sets"]["p"]["w"], "observed": [o.get("out"), o.get("err")]}, limit=6)
    return nontrivial



def plain_names_probe(ctx):
    """Directed: an explicit selection given as plain file NAMES (documented for files=) is mapped like the same selection given as
    FileInfo objects: one result per name, in the order of the list.  The child runs under a time and an address-space limit."""
    import subprocess
    e = dict(os.environ)
    e.update({"PYTHONPATH": str(core.REPO), "PYTHONHASHSEED": "0", "PYTHONWARNINGS": "ignore"})
    cmd = f"ulimit -v 4000000; exec timeout 120 {core.PY} -W ignore {core.VERIF / 'tools' / 'harness' / 'c10_names.py'}"
    pr = subprocess.run(["bash", "-c", cmd], capture_output=True, text=True, env=e, cwd=str(core.VERIF))
    ctx.cov["evaluations"] += 1
    want = {"collect": [100, 106, 112, 118],
            "collect-info": [[f"20180101_{h:02d}0000.txt", 100 + h] for h in (0, 6, 12, 18)],
            "icollect": [100, 106, 112, 118],
            "map": [f"20180101_{h:02d}0000.txt" for h in (0, 6, 12, 18)],
            "imap-content": [119, 113, 107, 101]}
    try:
        got = json.loads(pr.stdout.strip().splitlines()[-1])
    except Exception:  # noqa
        ctx.fail("failing-input", f"collect / map with files= given as four plain file names did not return within 120 s and 4 GB "
                 f"(rc {pr.returncode}): {(pr.stderr or pr.stdout)[-200:]!r}", case={"files": "plain names"}, signature="files-as-names")
        return
    for k_, w_ in want.items():
        if got.get(k_) != w_:
            ctx.fail("failing-input", f"{k_} with files= given as plain file names returns {str(got.get(k_))[:160]}, one result per name in "
                     f"list order is {w_}", case={"files": "plain names", "api": k_}, impl=got.get(k_), model=w_, signature="files-as-names")
            return


def run(ctx):
    plain_names_probe(ctx)
    ctx.prove("Props/C10.v")
    rng = ctx.rng
    cases = []
    nx, wx = ctx.n(4, 6), ctx.n(3, 4)
    cases += exhaustive_cases(rng, 0, nx, 4, ["imap"])
    cases += exhaustive_cases(rng, len(cases), ctx.n(3, 5), wx, ["map", "icollect"])
    cases += exhaustive_cases(rng, len(cases), ctx.n(3, 4), 3, ["collect"])
    if ctx.thorough:
        # all n! completion orders: as many workers as files
        for api, n in (("imap", 5), ("imap", 6), ("map", 6), ("icollect", 6)):
            for order in drv.feasible_orders(mode_of(api), n, n):
                c = mk_case(len(cases), api, n, [[i] for i in range(n)], n, return_info=(len(cases) % 2 == 0))
                c["order"] = order
                cases.append(c)
    n_exh = len(cases)
    cases += failing_subset_cases(rng, len(cases), ctx.n(3, 4), ["imap", "map", "icollect", "collect"])
    n_sub = len(cases) - n_exh
    bun = bundle_pattern_cases(rng, len(cases), [2, 3], ["imap", "map", "icollect"] if ctx.thorough
                               else ("imap", "map", "icollect", "imap", "collect"))
    if not ctx.thorough:
        # each nested collect() runs gc.collect(): keep the quick tier to all two-member patterns and every second
        # three-member one
        bun = [c for i, c in enumerate(bun) if len(c["sets"]["p"]["stream"][0]) == 2 or i % 2 == 0]
        for i, c in enumerate(bun):
            c["id"] = len(cases) + i
    cases += bun
    n_bun = len(cases) - n_exh - n_sub
    four = [("imap", False), ("map", False), ("icollect", False), ("collect", False)]
    cases += singleton_bundle_cases(rng, len(cases), four)
    n_sing = len(cases) - n_exh - n_sub - n_bun
    cases += gz_cases(rng, len(cases), four, ctx.n(3, 4), ctx.n(3, 4), ctx.n(8, 60))
    n_gz = len(cases) - n_exh - n_sub - n_bun - n_sing
    for api, k in (("imap", ctx.n(60, 500)), ("map", ctx.n(30, 250)), ("icollect", ctx.n(30, 250)),
                   ("collect", ctx.n(30, 250))):
        for _ in range(k):
            cases.append(random_case(rng, len(cases), api, ctx.n(10, 14)))
    # an explicit selection that is EMPTY (files=[], files=()): nothing is processed, nothing is yielded
    for api in ("map", "imap", "icollect"):
        for nf in (1, 3):
            for oc in (False, True):
                c = mk_case(len(cases), api, nf, [], 2, select="files", on_content=oc, pass_info=oc)
                c["order"] = []
                cases.append(c)
    n_rand = len(cases) - n_exh - n_sub - n_bun - n_sing - n_gz
    align_cases = [align_case(rng, len(cases) + i, ctx.n(6, 8)) for i in range(ctx.n(80, 600))]
    proc_cases = []
    if ctx.thorough:
        pid = len(cases) + len(align_cases)
        # process pools: the same laws with the events and gates in a multiprocessing.Manager.  icollect() pins
        # worker_type="thread" in the code, so next to icollect itself the pass-through function is run through
        # imap(worker_type="process") -- what icollect does, on processes.
        for api in ("imap", "map", "icollect"):
            for n in range(1, 5):
                for w in range(1, 4):
                    if w > n + 1:
                        continue
                    for order in drv.feasible_orders(mode_of(api), n, w):
                        c = mk_case(pid, api, n, [[i] for i in range(n)], w, pool="process", return_info=(pid % 2 == 0))
                        c["order"] = order
                        proc_cases.append(c)
                        pid += 1
        for w in (2, 3):
            for order in drv.feasible_orders("imap", 4, w):
                c = mk_case(pid, "imap", 4, [[i] for i in range(4)], w, pool="process", passthrough=True,
                            return_info=(pid % 2 == 0))
                c["order"] = order
                proc_cases.append(c)
                pid += 1
        sub = failing_subset_cases(rng, pid, 3, ["imap", "map", "icollect"], pool="process")
        proc_cases += sub
        pid += len(sub)
        bun = bundle_pattern_cases(rng, pid, [2, 3], ("imap", "map", "imap"), pool="process")
        proc_cases += bun
        pid += len(bun)
        for api, pt in (("imap", False), ("map", False), ("icollect", False), ("imap", True)):
            for _ in range(60):
                proc_cases.append(random_case(rng, pid, api, 7, pool="process", passthrough=pt))
                pid += 1
        # bundles of one file and compressed same-named files on process pools (the pass-through function through
        # imap(worker_type="process") stands for collect / icollect, which pin threads)
        on_proc = [("imap", False), ("map", False), ("imap", True), ("icollect", False)]
        sing = singleton_bundle_cases(rng, pid, on_proc, pool="process")
        proc_cases += sing
        pid += len(sing)
        gzp = gz_cases(rng, pid, on_proc, 3, 3, 15, pool="process")
        proc_cases += gzp
        pid += len(gzp)
    # extra arguments (args= as tuple / LIST / None, kwargs=): generated LAST, the random draws of the older families
    # stay what they were
    next_id = len(cases) + len(align_cases) + len(proc_cases)
    argc = arg_form_cases(rng, next_id, ["map", "imap", "collect", "icollect"], all_orders_n=ctx.n(3, 4),
                          all_orders_w=ctx.n(2, 3))
    cases += argc
    n_arg = len(argc)
    if ctx.thorough:
        argp = arg_form_cases(rng, next_id + n_arg, ["map", "imap", "icollect"], pool="process")
        proc_cases += argp
    ctx.log(f"cases: {n_arg} extra-argument, {n_exh} exhaustive-order, {n_sub} failing-subset, {n_bun} bundle-pattern, {n_sing} one-file-bundle, "
            f"{n_gz} compressed-same-name, {n_rand} sampled, {len(align_cases)} align, "
            f"{len(proc_cases)} process-pool")
    obs = run_thread_cases_parallel(ctx, cases)
    ctx.log(f"ran {len(cases)} thread-pool cases")
    aobs = run_thread_cases_parallel(ctx, align_cases)
    ctx.log(f"ran {len(align_cases)} align cases")
    pobs = run_process_cases(ctx, proc_cases)
    if proc_cases:
        ctx.log(f"ran {len(proc_cases)} process-pool cases")
    nt = evaluate(ctx, cases, obs, "pool")
    nt |= evaluate(ctx, align_cases, aobs, "align")
    if proc_cases:
        nt |= evaluate(ctx, proc_cases, pobs, "proc")
    ctx.cov["distinct_nontrivial"] = len(nt)
    ctx.cov["rule"] = ("a map-like case is non-trivial when at least two tasks are forced to complete in an order different "
                       "from the file order (a later task finishes before an earlier one); an align case when at least two "
                       "primaries share a secondary (cache in use); distinct by the whole case description")
    allc = cases + proc_cases
    ctx.cov["input_distribution"] = {
        "extra_argument_cases": n_arg, "extra_argument_cases_on_process_pools": sum(1 for c in proc_cases if c.get("argform")),
        "extra_arguments_by_form": {f: sum(1 for c in allc if (c.get("argform") or {}).get("args") == f)
                                    for f in ("tuple", "list", "none")},
        "exhaustive_order_cases": n_exh, "failing_subset_cases": n_sub, "sampled_cases": n_rand,
        "bundle_pattern_cases": n_bun, "one_file_bundle_cases": n_sing, "compressed_same_basename_cases": n_gz,
        "bundles_of_one_file": sum(1 for c in allc if is_bundled(c) for b in c["sets"]["p"]["stream"] if len(b) == 1),
        "compressed_cases_with_overlap": sum(1 for c in allc if c.get("layout") == "gz" and c["order"] != sorted(c["order"])),
        "compressed_on_process_pools": sum(1 for c in proc_cases if c.get("layout") == "gz"),
        "align_cases": len(align_cases), "process_pool_cases": len(proc_cases),
        "process_pool_by_api": {a: sum(1 for c in proc_cases if c["api"] == a and not c.get("passthrough"))
                                for a in ("imap", "map", "icollect")},
        "process_pool_passthrough_imap": sum(1 for c in proc_cases if c.get("passthrough")),
        "process_pool_executor_seen": sum(1 for o in pobs if o and "ProcessPoolExecutor" in (o.get("pools") or [])),
        "bundled_cases": sum(1 for c in allc if is_bundled(c)),
        "bundled_with_none_content": sum(1 for c in allc if is_bundled(c) and c["sets"]["p"].get("rnone")),
        "bundled_with_forced_member_order": sum(1 for c in allc if c.get("inner_order")),
        "single_files_with_none_content": sum(1 for c in allc if not is_bundled(c) and c["sets"]["p"].get("rnone")),
        "by_api": {a: sum(1 for c in allc if c["api"] == a) for a in ("imap", "map", "icollect", "collect")},
        "by_selection": {s: sum(1 for c in allc if c["sets"]["p"]["select"] == s) for s in ("all", "period", "files", "bundles", "bundle_n")},
        "with_exception": sum(1 for c in allc if first_error(c) is not None),
        "with_read_warning": sum(1 for c in allc if c["e2w"] and c["on_content"] and c["sets"]["p"]["rfail"]),
        "with_none_results": sum(1 for c in allc if c["fnone"]),
        "max_tasks": max(len(c["sets"]["p"]["stream"]) for c in allc),
        "skipped_or_unfixed": len(ctx.notes),
    }
    ctx.assumptions += [
        "0 < max_workers (hypothesis of every pool theorem; the harness only uses max_workers >= 1)",
        "the executor behaves like the transition system of the model (tasks complete in any order, results are taken "
        "in submission order): exercised by forced completion orders, not verified",
        "a bundle whose members are all readable but leave no content (empty bundle, every content None) makes the nested "
        "collect() raise ValueError; the model has this outcome (e_unzip), the property does not fix it and no such case is "
        "generated",
        "icollect()/collect() pin worker_type='thread' in the code: on process pools the pass-through function is exercised "
        "through imap(worker_type='process')",
        "compressed files: the overlap of two reads is forced by gates INSIDE the reader (after FileSet.read() has "
        "decompressed the file): interference that needs two decompressions to interleave byte by byte is not forced",
        "extra arguments: which of the caller's objects an argument is, is told by a tag carried by the object (on process "
        "pools the function receives pickled copies); the task a call belongs to is known from a tag the logging "
        "executor attaches to the wrapper call, not from the arguments",
        "collect() on a selection whose contents are all None raises ValueError in the code as it is; the property does "
        "not fix that outcome and such cases are not judged",
    ]
    return ctx.finish(trusted_base=TRUSTED, extra_cov={"notes": ctx.notes[:20]})


def replay(ctx, rec):
    case = rec["case"]
    root = tempfile.mkdtemp(prefix="verif_c10_")
    try:
        if case.get("pool") == "process":
            obs = run_process_cases(ctx, [case])
        else:
            obs = run_thread_cases(ctx, [case], root)
    finally:
        shutil.rmtree(root, ignore_errors=True)
    evaluate(ctx, [case], obs, "replay")
    for f in ctx.failures:
        print("still fails:", f.what[:400])
    return 1 if ctx.failures else 0
