"""C19 -- retrieval scores behave as proper error measures (typhon/retrieval/scores.py).

T-route: the element-wise kernels of mape, bias and quantile_score are regenerated from the source on every
run (coq/gen/scores.v); the list-level wrappers and the shape contract are a hand model (Model/C19_scores.v).
Tie: interval enclosures of model values around what the implementation returns on small samples, the shape
model against the real accept/reject behaviour (vm_compute), and a numeric law sweep on the implementation
(exhaustive search over the sample points as candidate constants for the quantile-minimiser clause).
"""
import numpy as np

from lib import core, encl
from lib.core import zlit

NEEDED = ["scores.mape_kernel", "scores.bias_kernel", "scores.quantile_score_kernel"]
REQ = ("From Coq Require Import List.\nImport ListNotations.\nFrom TyphonGen Require Import scores.\n"
       "From Typhon Require Import Model.C19_scores.")
CBV = "cbv [mape bias mean_loss loss_sum rmean rsum rlen map mape_kernel bias_kernel quantile_score_kernel]."
TRUSTED = [
    "translator tools/translate (kernels of mape / bias / quantile_score); reshape / ravel / broadcasting plumbing modelled by hand",
    "numpy mean / nanmean = arithmetic mean on NaN-free data (exercised by the enclosures)",
]


def rl(xs):
    return "[" + "; ".join(encl.rlit(x) for x in xs) + "]"


def enclosure_cases(ctx, sc):
    rng = ctx.rng
    cases = []

    def add(fn, expr, args, value, prep, rtol=1e-11, atol=1e-12):
        v = float(value)
        cases.append({"expr": expr, "value": v, "tol": max(abs(v) * rtol, atol), "prep": prep,
                      "meta": {"fn": fn, "args": args, "value": v}})
    for k in range(ctx.n(12, 150)):
        n = rng.randint(1, 8)
        t = [rng.choice([-1, 1]) * 10 ** rng.uniform(-2, 3) for _ in range(n)]
        p = [x * (1 + rng.uniform(-0.5, 0.5)) for x in t]
        shape = [(n,), (n, 1)][k % 2]
        yt, yp = np.asarray(t).reshape(shape), np.asarray(p).reshape([(n,), (n, 1)][(k // 2) % 2])
        pairs = "[" + "; ".join(f"({encl.rlit(a)}, {encl.rlit(b)})" for a, b in zip(p, t)) + "]"
        add("mape", f"mape {pairs}", [p, t, list(yp.shape), list(yt.shape)], sc.mape(yp, yt), CBV)
        add("bias", f"bias {pairs}", [p, t, list(yp.shape), list(yt.shape)], sc.bias(yp, yt), CBV)
        tau = rng.choice([0.1, 0.5, 0.9, rng.uniform(0.01, 0.99)])
        c = rng.choice(t + [rng.uniform(-5, 5)])
        est = np.full((n, 1), c)
        v = sc.mean_quantile_score(est, yt, [tau])[0]
        prep = CBV + " repeat (destruct (Rlt_dec _ _); try lra); repeat match goal with H : _ |- _ => clear H end."
        add("mean_quantile_score", f"mean_loss {encl.rlit(tau)} {encl.rlit(c)} {rl(t)}", [tau, c, t], v, prep)
    return cases


def shape_cases(ctx, sc):
    """Accept / reject behaviour of quantile_score on (y_tau shape, y_test shape, #taus)."""
    rng = ctx.rng
    out = []
    for _ in range(ctx.n(60, 600)):
        m = rng.randint(1, 4)
        n = rng.randint(1, 6)
        st = rng.choice([(n, m), (n * m,), (n, m), (n, m, 1), (n * m + rng.randint(1, 2),)])
        sy = rng.choice([(n,), (n, 1), (n,), (n + 1,), (n * m,), (1, n)])
        ytau, ytest = np.arange(float(np.prod(st))).reshape(st), np.arange(float(np.prod(sy))).reshape(sy)
        try:
            r = sc.quantile_score(ytau, ytest, list(np.linspace(0.1, 0.9, m)))
            obs = ("ok", list(r.shape))
        except ValueError:
            obs = ("ValueError", None)
        except Exception as e:  # noqa
            obs = (type(e).__name__, None)
        out.append({"st": list(st), "sy": list(sy), "m": m, "obs": obs})
    return out


def law_sweep(ctx, sc):
    out = []
    rng = np.random.default_rng(ctx.seed)

    def bad(sig, what, case):
        out.append((sig, what, case))
    nev = 0
    for k in range(ctx.n(300, 6000)):
        n = int(rng.choice([1, 2, 3, 5, 10, 50, 400, 10000 if ctx.thorough and k % 50 == 0 else 20]))
        kind = k % 4
        y = rng.normal(size=n) if kind == 0 else (rng.standard_cauchy(n) if kind == 1 else
                                                  (rng.integers(0, 4, n).astype(float) if kind == 2 else rng.exponential(size=n)))
        tau = float(rng.choice([0.05, 0.25, 0.5, 0.75, 0.95, rng.uniform(0.01, 0.99)]))
        case = {"law": "pinball", "n": n, "kind": kind, "tau": tau, "seed_index": k}
        est = rng.normal(size=n)
        qs = sc.quantile_score(est, y, [tau]).ravel()
        nev += n
        d = np.abs(est - y)
        expect = np.where(est < y, tau * d, (1 - tau) * d)
        if np.any(qs < 0) or np.any(np.abs(qs - expect) > 1e-12 * (1 + d)):
            i = int(np.argmax(np.abs(qs - expect)))
            bad("pinball-cases", f"quantile_score({est[i]!r}, {y[i]!r}, {tau}) = {qs[i]!r}, pinball loss is {expect[i]!r}",
                dict(case, args=[float(est[i]), float(y[i]), tau]))
        z = sc.quantile_score(y.copy(), y, [tau]).ravel()
        if np.any(z != 0):
            bad("pinball-zero", "quantile_score(y, y) != 0", case)
        # the minimiser over constants: exhaustive search over the sample points (piecewise-linear convex function)
        if n <= 400:
            ys = np.sort(y)
            losses = np.array([sc.mean_quantile_score(np.full((n, 1), c), y, [tau])[0] for c in np.unique(ys)])
            cand = np.unique(ys)
            best = losses.min()
            for c, l in zip(cand, losses):
                lo, hi = np.sum(y < c), np.sum(y <= c)
                is_q = lo <= tau * n * (1 + 1e-12) and tau * n * (1 - 1e-12) <= hi
                if is_q and l > best + 1e-9 * (1 + abs(best)):
                    bad("quantile-minimises", f"a {tau}-quantile {c!r} of the sample has mean loss {l!r} > {best!r}", dict(case, c=float(c)))
                if (not is_q) and l < best + 1e-13 * (1 + abs(best)) and (lo > tau * n * (1 + 1e-9) or hi < tau * n * (1 - 1e-9)):
                    bad("minimiser-is-quantile", f"the minimiser {c!r} is not a {tau}-quantile", dict(case, c=float(c)))
        # vector of taus, (n,k) shape
        taus = np.sort(rng.uniform(0.01, 0.99, 3))
        estk = rng.normal(size=(n, 3))
        qk = sc.quantile_score(estk, y, taus)
        dk = np.abs(estk - y.reshape(-1, 1))
        ek = np.where(estk < y.reshape(-1, 1), taus * dk, (1 - taus) * dk)
        if qk.shape != (n, 3) or np.any(np.abs(qk - ek) > 1e-12 * (1 + dk)):
            bad("pinball-vector-taus", "quantile_score with a vector of taus is not the column-wise pinball loss", case)
        # mape / bias
        t = y[np.abs(y) > 1e-3]
        if t.size:
            p = float(rng.uniform(0, 80))
            for shape_t in ((t.size,), (t.size, 1)):
                for shape_p in ((t.size,), (t.size, 1)):
                    tt = t.reshape(shape_t)
                    case2 = {"law": "mape/bias", "truth": t[:5].tolist(), "p": p, "shape_truth": list(shape_t), "shape_pred": list(shape_p)}
                    hi, lo = (t * (1 + p / 100)).reshape(shape_p), (t * (1 - p / 100)).reshape(shape_p)
                    vals = {"mape(perfect)": (sc.mape(t.reshape(shape_p).copy(), tt), 0.0), "bias(perfect)": (sc.bias(t.reshape(shape_p).copy(), tt), 0.0),
                            "mape(+p)": (sc.mape(hi, tt), p), "mape(-p)": (sc.mape(lo, tt), p),
                            "bias(+p)": (sc.bias(hi, tt), p), "bias(-p)": (sc.bias(lo, tt), -p)}
                    for name, (got, want) in vals.items():
                        if not abs(got - want) <= 1e-9 * (1 + abs(want)):
                            bad("score:" + name.split("(")[0] + "-offset", f"{name} = {got!r}, expected {want!r} (truth shape {shape_t}, prediction shape {shape_p})", case2)
            perm = rng.permutation(t.size)
            pr = t * (1 + rng.uniform(-0.3, 0.3, t.size))
            s = float(rng.choice([-3.0, 0.01, 1e4]))
            for fn in (sc.mape, sc.bias):
                a = fn(pr, t)
                if not abs(fn(pr[perm], t[perm]) - a) <= 1e-9 * (1 + abs(a)):
                    bad(f"score:{fn.__name__}-order", f"{fn.__name__} depends on the order of the samples", {"law": "order", "truth": t[:5].tolist()})
                if not abs(fn(s * pr, s * t) - a) <= 1e-9 * (1 + abs(a)):
                    bad(f"score:{fn.__name__}-scale", f"{fn.__name__} changes when prediction and truth are scaled by {s}", {"law": "scale", "truth": t[:5].tolist(), "s": s})
            nev += 4 * t.size
    # large samples (every size class up to 10^4, sizes around powers of two and just past them): exhaustive search is
    # quadratic, so the candidates are the sample points at ranks around a tau-quantile; the mean loss is convex and
    # piecewise linear in c, so a tau-quantile q that does not minimise it is beaten by a neighbour in rank
    sizes = [1000, 1023, 1025, 2049, 4095, 4096, 4097, 5000, 8191, 8193, 9999, 10000]
    for k, n in enumerate(sizes if ctx.thorough else sizes[k0(ctx)::2]):
        for kind in range(4):
            y = rng.normal(size=n) if kind == 0 else (rng.standard_cauchy(n) if kind == 1 else
                                                      (rng.integers(0, 40, n).astype(float) if kind == 2 else rng.exponential(size=n)))
            tau = float(rng.choice([0.05, 0.25, 0.5, 0.75, 0.95, rng.uniform(0.01, 0.99)]))
            ys = np.sort(y)
            r = min(n - 1, max(0, int(np.ceil(tau * n)) - 1))
            q = ys[r]
            lo, hi = np.sum(y < q), np.sum(y <= q)
            if not (lo <= tau * n and tau * n <= hi):
                continue
            ranks = sorted({min(n - 1, max(0, r + d)) for d in (-2000, -500, -50, -5, -1, 1, 5, 50, 500, 2000)})
            lq = float(sc.mean_quantile_score(np.full((n, 1), q), y, [tau])[0])
            nev += n * (len(ranks) + 1)
            for rr in ranks:
                c = ys[rr]
                lc = float(sc.mean_quantile_score(np.full((n, 1), c), y, [tau])[0])
                if lc < lq - 1e-9 * (1 + abs(lq)):
                    bad("quantile-minimises", f"n={n}: the {tau}-quantile {q!r} of the sample has mean_quantile_score {lq!r}, the constant "
                        f"{c!r} (rank {rr}, the quantile has rank {r}) has {lc!r} < it",
                        {"law": "quantile-minimises-large", "n": n, "kind": kind, "tau": tau, "c": float(c), "q": float(q)})
                    break
    return out, nev


def k0(ctx):
    return ctx.seed % 2


MQS_BODY = "np.nanmean(quantile_score(y_tau, y_test, taus), axis=0)"


def mean_wrapper_tied(ctx):
    """mean_quantile_score is modelled as `mean_loss` = the arithmetic mean of the translated kernel over the sample
    (Model/C19_scores.v).  The tie is structural and fail-closed: the body of the function in the tree under test must be
    exactly `return np.nanmean(quantile_score(y_tau, y_test, taus), axis=0)`; any other text breaks the obligation
    (the law sweep below then searches for a failing input on samples of every size class)."""
    import ast
    try:
        tree = ast.parse((core.REPO / "typhon/retrieval/scores.py").read_text())
        fn = next(n for n in tree.body if isinstance(n, ast.FunctionDef) and n.name == "mean_quantile_score")
        body = [b for b in fn.body if not (isinstance(b, ast.Expr) and isinstance(b.value, ast.Constant))]
        ok = (len(body) == 1 and isinstance(body[0], ast.Return)
              and ast.dump(body[0].value) == ast.dump(ast.parse(MQS_BODY, mode="eval").body)
              and [a.arg for a in fn.args.args] == ["y_tau", "y_test", "taus"])
        why = "" if ok else "body is " + "; ".join(ast.unparse(b) for b in body)[:200]
    except Exception as e:  # noqa
        ok, why = False, repr(e)
    ctx.add_obligation("translation:scores.mean_quantile_score = nanmean(kernel) over the sample", ok, why)
    if not ok:
        ctx.fail("translation", "mean_quantile_score is no longer `" + MQS_BODY + "` (" + why + "): the model's mean_loss "
                 "is not tied to it any more", obligation="scores.mean_quantile_score", signature="translation:mean_quantile_score")
    return ok


def run(ctx):
    from typhon.retrieval import scores as sc
    missing = encl.translate(ctx, ["scores"], NEEDED)
    mean_wrapper_tied(ctx)
    ctx.prove("Props/C19.v")
    if not missing:
        ok, log, _ = core.coq_build([core.THEORIES / "Model" / "C19_scores.v"])
        cases = enclosure_cases(ctx, sc)
        res, log = encl.enclosure_check(ctx.work / "encl", "c19", REQ, cases)
        if log:
            ctx.log(log[-1500:])
        for c, r in zip(cases, res):
            ctx.cov["evaluations"] += 1
            if r != "OK":
                ctx.fail("correspondence", f"enclosure {r}: model value of {c['meta']['fn']} on {c['meta']['args']} is not within tolerance of "
                         f"the implementation's {c['meta']['value']!r}", case=c["meta"], signature=f"enclosure:{c['meta']['fn']}")
        ctx.cov["distinct_nontrivial"] += sum(1 for r in res if r == "OK")
        ctx.cov["enclosures_ok"] = sum(1 for r in res if r == "OK")
        for c in cases[:3]:
            ctx.sample(c["meta"])
        # shape contract
        sh = shape_cases(ctx, sc)
        exprs = [f"quantile_score_shape {zlit(int(np.prod(c['st'])))} {zlit(int(np.prod(c['sy'])))} {zlit(c['m'])}" for c in sh]
        vals, log = core.coq_eval(ctx.work / "cases", "shape", "From Typhon Require Import Model.C19_scores.", exprs)
        acc = rej = 0
        for c, v in zip(sh, vals):
            ctx.cov["evaluations"] += 1
            if v is None and c["obs"][0] == "ValueError":
                rej += 1
            elif isinstance(v, tuple) and v[0] == "Some" and c["obs"][0] == "ok" and c["obs"][1] == [v[1], c["m"]]:
                acc += 1
            else:
                consistent = int(np.prod(c["sy"])) * c["m"] == int(np.prod(c["st"]))
                what = (f"quantile_score with y_tau shape {c['st']}, y_test shape {c['sy']}, {c['m']} taus: implementation {c['obs']}, "
                        f"model {v} (shapes are {'consistent' if consistent else 'inconsistent'})")
                ctx.fail("failing-input", what, case=c, signature="shape-contract")
        ctx.cov["shape_cases"] = {"accepted": acc, "rejected": rej}
        ctx.cov["distinct_nontrivial"] += len({(tuple(c["st"]), tuple(c["sy"]), c["m"]) for c in sh})
    fails, n = law_sweep(ctx, sc)
    ctx.cov["evaluations"] += n
    ctx.cov["law_evaluations"] = n
    for sig, what, case in fails:
        ctx.fail("failing-input", what, case=case, signature=sig)
    ctx.cov["rule"] = ("enclosures: samples of 1-8 values with (n,) / (n,1) shapes; shape cases: (y_tau shape, y_test shape, #taus) triples, distinct; "
                       "non-trivial = enclosure proved by Coq resp. distinct shape triple; law sweep: samples of 1..10^4 values "
                       "(normal, Cauchy, integer ties, exponential) with exhaustive search over the sample points as constant estimates")
    return ctx.finish(trusted_base=TRUSTED)


def replay(ctx, rec):
    from typhon.retrieval import scores as sc
    fails, _ = law_sweep(ctx, sc)
    hit = [f for f in fails if f[0] == rec.get("signature")]
    for f in hit[:3]:
        print("still fails:", f[1])
    if rec.get("kind") != "failing-input":
        ctx.prove("Props/C19.v")
        return 1 if ctx.failures else 0
    return 1 if hit else 0
