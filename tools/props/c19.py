"""C19 -- retrieval scores behave as proper error measures (typhon/retrieval/scores.py).

T-route: the element-wise kernels of mape, bias and quantile_score are regenerated from the source on every
run (coq/gen/scores.v); the list-level wrappers and the shape contract are a hand model (Model/C19_scores.v).
Tie: interval enclosures of model values around what the implementation returns on small samples, the shape
model against the real accept/reject behaviour (vm_compute), and a numeric law sweep on the implementation
(exhaustive search over the sample points as candidate constants for the quantile-minimiser clause).
Extension: the converse (minimiser_is_quantile, the exact slope of the loss between sample values), the NaN model
(nanmean = mean on NaN-free data; NaN samples are exercised for "no exception" only - the property does not fix a value
there) and the vector-of-taus clause ((n,k) score matrix on lists of rows, flat reshape) are theorems of Props/C19.v; they
are tied by enclosures of single entries / column means of the matrix model and by the laws of `ext_laws`.
"""
import random
import warnings

import numpy as np

from lib import core, encl
from lib.core import zlit

NEEDED = ["scores.mape_kernel", "scores.bias_kernel", "scores.quantile_score_kernel"]
REQ = ("From Coq Require Import List.\nImport ListNotations.\nFrom TyphonGen Require Import scores.\n"
       "From Typhon Require Import Model.C19_scores.")
CBV = "cbv [mape bias mean_loss loss_sum rmean rsum rlen map mape_kernel bias_kernel quantile_score_kernel]."
TRUSTED = [
    "translator tools/translate (kernels of mape / bias / quantile_score); reshape / ravel / broadcasting plumbing modelled by hand",
    "numpy mean / nanmean = arithmetic mean on NaN-free data (Model: nanmean / npmean on option values, theorem nanmean_is_mean_when_nan_free; "
    "exercised by the enclosures and the vector-taus-mean law); NaN = None is a model of IEEE NaN propagation, inf is not modelled",
    "numpy reshape(-1, k) is C-order chunking (Model: reshape_rows; exercised by the matrix enclosures with flat and (n,k,1) inputs)",
]


def rl(xs):
    return "[" + "; ".join(encl.rlit(x) for x in xs) + "]"


def enclosure_cases(ctx, sc):
    rng = ctx.rng
    cases = []

    def add(fn, expr, args, value, prep, rtol=1e-11, atol=1e-12):
        v = float(value)
        cases.append({"expr": expr, "value": v, "tol": max(abs(v) * rtol, atol), "prep": prep,
                      "meta": {"fn": fn, "args": args, "value": v}})
    for k in range(ctx.n(12, 150)):
        n = rng.randint(1, 8)
        t = [rng.choice([-1, 1]) * 10 ** rng.uniform(-2, 3) for _ in range(n)]
        p = [x * (1 + rng.uniform(-0.5, 0.5)) for x in t]
        shape = [(n,), (n, 1)][k % 2]
        yt, yp = np.asarray(t).reshape(shape), np.asarray(p).reshape([(n,), (n, 1)][(k // 2) % 2])
        pairs = "[" + "; ".join(f"({encl.rlit(a)}, {encl.rlit(b)})" for a, b in zip(p, t)) + "]"
        add("mape", f"mape {pairs}", [p, t, list(yp.shape), list(yt.shape)], sc.mape(yp, yt), CBV)
        add("bias", f"bias {pairs}", [p, t, list(yp.shape), list(yt.shape)], sc.bias(yp, yt), CBV)
        tau = rng.choice([0.1, 0.5, 0.9, rng.uniform(0.01, 0.99)])
        c = rng.choice(t + [rng.uniform(-5, 5)])
        est = np.full((n, 1), c)
        v = sc.mean_quantile_score(est, yt, [tau])[0]
        prep = CBV + " repeat (destruct (Rlt_dec _ _); try lra); repeat match goal with H : _ |- _ => clear H end."
        add("mean_quantile_score", f"mean_loss {encl.rlit(tau)} {encl.rlit(c)} {rl(t)}", [tau, c, t], v, prep)
    return cases


def shape_cases(ctx, sc):
    """Accept / reject behaviour of quantile_score on (y_tau shape, y_test shape, #taus)."""
    rng = ctx.rng
    out = []
    for _ in range(ctx.n(60, 600)):
        m = rng.randint(1, 4)
        n = rng.randint(1, 6)
        st = rng.choice([(n, m), (n * m,), (n, m), (n, m, 1), (n * m + rng.randint(1, 2),)])
        sy = rng.choice([(n,), (n, 1), (n,), (n + 1,), (n * m,), (1, n)])
        ytau, ytest = np.arange(float(np.prod(st))).reshape(st), np.arange(float(np.prod(sy))).reshape(sy)
        try:
            r = sc.quantile_score(ytau, ytest, list(np.linspace(0.1, 0.9, m)))
            obs = ("ok", list(r.shape))
        except ValueError:
            obs = ("ValueError", None)
        except Exception as e:  # noqa
            obs = (type(e).__name__, None)
        out.append({"st": list(st), "sy": list(sy), "m": m, "obs": obs})
    return out


def law_sweep(ctx, sc, out=None):
    out = [] if out is None else out
    rng = np.random.default_rng(ctx.seed)

    def bad(sig, what, case):
        out.append((sig, what, case))
    nev = 0
    for k in range(ctx.n(300, 6000)):
        n = int(rng.choice([1, 2, 3, 5, 10, 50, 400, 10000 if ctx.thorough and k % 50 == 0 else 20]))
        kind = k % 4
        y = rng.normal(size=n) if kind == 0 else (rng.standard_cauchy(n) if kind == 1 else
                                                  (rng.integers(0, 4, n).astype(float) if kind == 2 else rng.exponential(size=n)))
        tau = float(rng.choice([0.05, 0.25, 0.5, 0.75, 0.95, rng.uniform(0.01, 0.99)]))
        case = {"law": "pinball", "n": n, "kind": kind, "tau": tau, "seed_index": k}
        est = rng.normal(size=n)
        qs = sc.quantile_score(est, y, [tau]).ravel()
        nev += n
        d = np.abs(est - y)
        expect = np.where(est < y, tau * d, (1 - tau) * d)
        if np.any(qs < 0) or np.any(np.abs(qs - expect) > 1e-12 * (1 + d)):
            i = int(np.argmax(np.abs(qs - expect)))
            bad("pinball-cases", f"quantile_score({est[i]!r}, {y[i]!r}, {tau}) = {qs[i]!r}, pinball loss is {expect[i]!r}",
                dict(case, args=[float(est[i]), float(y[i]), tau]))
        z = sc.quantile_score(y.copy(), y, [tau]).ravel()
        if np.any(z != 0):
            bad("pinball-zero", "quantile_score(y, y) != 0", case)
        # the minimiser over constants: exhaustive search over the sample points (piecewise-linear convex function)
        if n <= 400:
            ys = np.sort(y)
            losses = np.array([sc.mean_quantile_score(np.full((n, 1), c), y, [tau])[0] for c in np.unique(ys)])
            cand = np.unique(ys)
            best = losses.min()
            for c, l in zip(cand, losses):
                lo, hi = np.sum(y < c), np.sum(y <= c)
                is_q = lo <= tau * n * (1 + 1e-12) and tau * n * (1 - 1e-12) <= hi
                if is_q and l > best + 1e-9 * (1 + abs(best)):
                    bad("quantile-minimises", f"a {tau}-quantile {c!r} of the sample has mean loss {l!r} > {best!r}", dict(case, c=float(c)))
                if (not is_q) and l < best + 1e-13 * (1 + abs(best)) and (lo > tau * n * (1 + 1e-9) or hi < tau * n * (1 - 1e-9)):
                    bad("minimiser-is-quantile", f"the minimiser {c!r} is not a {tau}-quantile", dict(case, c=float(c)))
        # vector of taus, (n,k) shape
        taus = np.sort(rng.uniform(0.01, 0.99, 3))
        estk = rng.normal(size=(n, 3))
        qk = sc.quantile_score(estk, y, taus)
        dk = np.abs(estk - y.reshape(-1, 1))
        ek = np.where(estk < y.reshape(-1, 1), taus * dk, (1 - taus) * dk)
        if qk.shape != (n, 3) or np.any(np.abs(qk - ek) > 1e-12 * (1 + dk)):
            bad("pinball-vector-taus", "quantile_score with a vector of taus is not the column-wise pinball loss", case)
        # results are the caller's: the score array of one call keeps its values when the function is called again with other
        # estimates of the same shape (scoring two retrievals on one test set)
        if n <= 400:
            first = sc.quantile_score(est, y, [tau])
            kept = np.array(first, dtype=float, copy=True)
            sc.quantile_score(est + 1.0, y, [tau])
            sc.quantile_score(y.copy(), y, [tau])
            now = np.asarray(first, dtype=float)
            if now.shape != kept.shape or not np.array_equal(now, kept, equal_nan=True):
                bad("pinball-result-aliased", "the array returned by quantile_score changed its values when the function was called again "
                    f"with other estimates of the same shape (max change {float(np.max(np.abs(now - kept))) if now.shape == kept.shape else 'shape'})", case)
        # memory layout: (n, k) truth and prediction in DIFFERENT layouts (C order against Fortran order / a transposed view,
        # as netCDF / xarray data with transposed dimensions are): mape and bias pair the values by index, not by memory position
        if n >= 6 and n % 2 == 0 and n <= 400:
            t2 = (np.abs(y) + 0.5).reshape(n // 2, 2)
            p2 = t2 * (1 + 0.01 * np.arange(n).reshape(n // 2, 2))
            want_m = float(np.mean(np.abs((p2 - t2) / t2)) * 100)
            want_b = float(np.mean((p2 - t2) / t2) * 100)
            for lab_, pa, ta in (("prediction in Fortran order", np.asfortranarray(p2), t2),
                                 ("truth a transposed view", p2, np.ascontiguousarray(t2.T).T)):
                gm, gb = float(sc.mape(pa, ta)), float(sc.bias(pa, ta))
                if abs(gm - want_m) > 1e-9 * (1 + abs(want_m)) or abs(gb - want_b) > 1e-9 * (1 + abs(want_b)):
                    bad("score:memory-layout", f"mape / bias of ({n // 2}, 2) arrays with the {lab_}: {gm!r} / {gb!r}, paired by index "
                        f"{want_m!r} / {want_b!r}", dict(case, layout=lab_))
        # argument dtypes: whole-number estimates handed over as an INTEGER array, estimates in float32 against float64
        # observations -- the score is the pinball loss of the VALUES (numpy promotes to the wider type; the observation is
        # never rounded to the type of the estimate)
        if n <= 400:
            est_i = np.round(est * 3).astype(np.int64)
            est_32 = est.astype(np.float32)
            for label, e_arg in (("int64", est_i), ("float32", est_32)):
                e64 = e_arg.astype(np.float64)
                got = np.asarray(sc.quantile_score(e_arg, y, [tau]), dtype=np.float64).ravel()
                dd = np.abs(e64 - y)
                want = np.where(e64 < y, tau * dd, (1 - tau) * dd)
                if got.shape != want.shape or np.any(np.abs(got - want) > 1e-12 * (1 + dd)):
                    i_ = int(np.argmax(np.abs(got - want))) if got.shape == want.shape else 0
                    bad(f"pinball-dtype-{label}", f"quantile_score with {label} estimates against float64 observations is not the pinball "
                        f"loss of the values: estimate {e64[i_]!r}, observation {y[i_]!r}, tau {tau}: got {got[i_] if got.shape == want.shape else got.shape!r}, "
                        f"expected {want[i_]!r}", dict(case, dtype=label))
        # mape / bias
        t = y[np.abs(y) > 1e-3]
        if t.size:
            p = float(rng.uniform(0, 80))
            # the same truth values at their own magnitude and, on every third case, at a very small / very large one (an exact
            # power of two: the relative errors are bit for bit the same) -- trace-gas magnitudes must not be floored or clipped
            t_unit = t
            t = t * float([1.0, 2.0 ** -40, 2.0 ** 60][k % 3])
            for shape_t in ((t.size,), (t.size, 1)):
                for shape_p in ((t.size,), (t.size, 1)):
                    tt = t.reshape(shape_t)
                    case2 = {"law": "mape/bias", "truth": t[:5].tolist(), "p": p, "shape_truth": list(shape_t), "shape_pred": list(shape_p)}
                    hi, lo = (t * (1 + p / 100)).reshape(shape_p), (t * (1 - p / 100)).reshape(shape_p)
                    vals = {"mape(perfect)": (sc.mape(t.reshape(shape_p).copy(), tt), 0.0), "bias(perfect)": (sc.bias(t.reshape(shape_p).copy(), tt), 0.0),
                            "mape(+p)": (sc.mape(hi, tt), p), "mape(-p)": (sc.mape(lo, tt), p),
                            "bias(+p)": (sc.bias(hi, tt), p), "bias(-p)": (sc.bias(lo, tt), -p)}
                    for name, (got, want) in vals.items():
                        if not abs(got - want) <= 1e-9 * (1 + abs(want)):
                            bad("score:" + name.split("(")[0] + "-offset", f"{name} = {got!r}, expected {want!r} (truth shape {shape_t}, prediction shape {shape_p})", case2)
            perm = rng.permutation(t.size)
            pr = t * (1 + rng.uniform(-0.3, 0.3, t.size))
            t = t_unit
            s = float(rng.choice([-3.0, 0.01, 1e4, 2.0 ** -40, 1e-12, 2.0 ** 80]))
            for fn in (sc.mape, sc.bias):
                a = fn(pr, t)
                if not abs(fn(pr[perm], t[perm]) - a) <= 1e-9 * (1 + abs(a)):
                    bad(f"score:{fn.__name__}-order", f"{fn.__name__} depends on the order of the samples", {"law": "order", "truth": t[:5].tolist()})
                if not abs(fn(s * pr, s * t) - a) <= 1e-9 * (1 + abs(a)):
                    bad(f"score:{fn.__name__}-scale", f"{fn.__name__} changes when prediction and truth are scaled by {s}", {"law": "scale", "truth": t[:5].tolist(), "s": s})
            nev += 4 * t.size
    # the shape contract on the implementation alone: consistent shapes are accepted with n rows, inconsistent ones -- also
    # those numpy would silently broadcast (one estimate row against p observations, n rows against one observation) --
    # are rejected with ValueError
    for n_, p_, k_ in [(1, 3, 1), (4, 1, 1), (1, 5, 2), (6, 1, 3), (3, 4, 1), (5, 2, 2), (2, 2, 1), (3, 3, 2), (1, 1, 1)]:
        taus_ = np.linspace(0.1, 0.9, k_)
        est_ = rng.normal(size=(n_, k_))
        obs_ = rng.normal(size=p_)
        for est_form in (est_, est_.ravel() if k_ == 1 else est_):
            case = {"law": "shape-contract", "rows": n_, "observations": p_, "taus": k_}
            nev += 1
            try:
                r = sc.quantile_score(est_form, obs_, taus_)
                if n_ != p_:
                    bad("shape-contract-accepts-inconsistent", f"quantile_score with {n_} estimate row(s) of {k_} quantile(s) and {p_} "
                        f"observation(s) returned an array of shape {np.shape(r)} instead of raising ValueError", case)
                elif np.shape(r) != (n_, k_):
                    bad("shape-contract-shape", f"quantile_score of consistent shapes returned shape {np.shape(r)}, expected {(n_, k_)}", case)
            except ValueError:
                if n_ == p_:
                    bad("shape-contract-rejects-consistent", f"quantile_score rejected consistent shapes ({n_} rows, {p_} observations, {k_} taus)", case)
            except Exception as e:  # noqa
                bad("shape-contract-other-exception", f"quantile_score raised {type(e).__name__} instead of ValueError for {n_} rows / {p_} observations", case)
    # large samples (every size class up to 10^4, sizes around powers of two and just past them): exhaustive search is
    # quadratic, so the candidates are the sample points at ranks around a tau-quantile; the mean loss is convex and
    # piecewise linear in c, so a tau-quantile q that does not minimise it is beaten by a neighbour in rank
    sizes = [1000, 1023, 1025, 2049, 4095, 4096, 4097, 5000, 8191, 8193, 9999, 10000]
    for k, n in enumerate(sizes if ctx.thorough else sizes[k0(ctx)::2]):
        for kind in range(4):
            y = rng.normal(size=n) if kind == 0 else (rng.standard_cauchy(n) if kind == 1 else
                                                      (rng.integers(0, 40, n).astype(float) if kind == 2 else rng.exponential(size=n)))
            tau = float(rng.choice([0.05, 0.25, 0.5, 0.75, 0.95, rng.uniform(0.01, 0.99)]))
            ys = np.sort(y)
            r = min(n - 1, max(0, int(np.ceil(tau * n)) - 1))
            q = ys[r]
            lo, hi = np.sum(y < q), np.sum(y <= q)
            if not (lo <= tau * n and tau * n <= hi):
                continue
            ranks = sorted({min(n - 1, max(0, r + d)) for d in (-2000, -500, -50, -5, -1, 1, 5, 50, 500, 2000)})
            lq = float(sc.mean_quantile_score(np.full((n, 1), q), y, [tau])[0])
            nev += n * (len(ranks) + 1)
            for rr in ranks:
                c = ys[rr]
                lc = float(sc.mean_quantile_score(np.full((n, 1), c), y, [tau])[0])
                if lc < lq - 1e-9 * (1 + abs(lq)):
                    bad("quantile-minimises", f"n={n}: the {tau}-quantile {q!r} of the sample has mean_quantile_score {lq!r}, the constant "
                        f"{c!r} (rank {rr}, the quantile has rank {r}) has {lc!r} < it",
                        {"law": "quantile-minimises-large", "n": n, "kind": kind, "tau": tau, "c": float(c), "q": float(q)})
                    break
    return out, nev


def k0(ctx):
    return ctx.seed % 2


CBV_ROWS = ("cbv [quantile_score_rows reshape_rows chunks firstn skipn length map2 score_row nth mqs_rows col map seq "
            "rmean rsum rlen quantile_score_kernel].")
PREP_ROWS = CBV_ROWS + " repeat (destruct (Rlt_dec _ _); try lra); repeat match goal with H : _ |- _ => clear H end."


def matrix_cases(ctx, sc):
    """Vector of taus: single entries of the (n,k) score matrix of the list-of-rows model (rows obtained from the flat data by
    `reshape_rows`, as quantile_score_flat_contract states) and entries of mean_quantile_score (mqs_rows), against what the
    implementation returns for (n,k), flat and (n,k,1) estimates, (n,) / (n,1) observations and UNSORTED fractions."""
    rng = random.Random(ctx.seed * 7919 + 19)
    cases = []
    for c in range(ctx.n(8, 70)):
        n, k = rng.randint(1, 4), rng.randint(1, 3)
        taus = [rng.choice([0.1, 0.5, 0.9, round(rng.uniform(0.01, 0.99), 6)]) for _ in range(k)]
        ys = [round(rng.uniform(-5, 5), rng.choice([0, 3, 12])) for _ in range(n)]
        est = [[(ys[i] if rng.random() < 0.15 else round(rng.uniform(-6, 6), rng.choice([0, 3, 12]))) for _ in range(k)] for i in range(n)]
        flat = [v for row in est for v in row]
        a = np.asarray(est, dtype=float)
        a = [a, a.reshape(-1), a.reshape(n, k, 1)][c % 3]
        y = np.asarray(ys, dtype=float).reshape([(n,), (n, 1)][(c // 3) % 2])
        q = np.asarray(sc.quantile_score(a, y, taus), dtype=float)
        mq = np.asarray(sc.mean_quantile_score(a, y, taus), dtype=float)
        meta0 = {"estimates": est, "y_tau_shape": list(a.shape), "y_test": ys, "y_test_shape": list(y.shape), "taus": taus}
        if q.shape != (n, k) or mq.shape != (k,):
            cases.append({"shape_error": True, "meta": dict(meta0, fn="quantile_score (vector of taus)", args=[est, ys, taus],
                                                          value=f"shapes {q.shape} / {mq.shape}, expected {(n, k)} / {(k,)}")})
            continue
        rows = "[" + "; ".join(rl(r) for r in est) + "]"
        for _ in range(2):
            i, j = rng.randrange(n), rng.randrange(k)
            v = float(q[i, j])
            cases.append({"expr": f"nth {j}%nat (nth {i}%nat (quantile_score_rows (reshape_rows {k}%nat {rl(flat)}) {rl(ys)} {rl(taus)}) []) 0",
                          "value": v, "tol": max(abs(v) * 1e-11, 1e-12), "prep": PREP_ROWS,
                          "meta": dict(meta0, fn="quantile_score (vector of taus)", args=[est, ys, taus], entry=[i, j], value=v)})
        j = rng.randrange(k)
        v = float(mq[j])
        cases.append({"expr": f"nth {j}%nat (mqs_rows {rows} {rl(ys)} {rl(taus)}) 0", "value": v, "tol": max(abs(v) * 1e-11, 1e-12),
                      "prep": PREP_ROWS, "meta": dict(meta0, fn="mean_quantile_score (vector of taus)", args=[est, ys, taus], entry=[j], value=v)})
    return cases


def ext_laws(ctx, sc):
    """Laws behind the extension theorems, on the implementation:
    (A) vector of (unsorted) taus: the (n,k) matrix is column-wise the single-tau pinball loss, whatever consistent shape
        the arguments have; mean_quantile_score is the column mean of it (nanmean = mean on NaN-free data);
    (B) loss_slope_between_samples / minimiser_is_quantile / search_over_sample_points_exact: for constants c OFF the
        sample points (mid-points, beyond the extremes, q +- delta) the mean loss differs from the loss at the nearest
        sample value below / above by exactly (c - m) (#{y < c} - tau n) / n resp. (c - M) (#{y <= c} - tau n) / n, no such c
        beats the best sample point, and a c that ties with it is a tau-quantile;
    (C) samples containing NaN: no exception and the documented shapes; no value is compared (the property fixes none)."""
    out = []
    stats = {"vector_tau_cases": 0, "slope_checks": 0, "off_sample_candidates": 0, "nan_samples_exercised": 0}
    rng = np.random.default_rng(ctx.seed * 104729 + 1919)
    nev = 0

    def bad(sig, what, case):
        out.append((sig, what, case))

    def draw(kind, n):
        return (rng.normal(size=n) if kind == 0 else rng.standard_cauchy(n) if kind == 1 else
                rng.integers(0, 4, n).astype(float) if kind == 2 else rng.exponential(size=n))
    # ---- (A)
    for c in range(ctx.n(150, 2500)):
        n = int(rng.choice([1, 2, 3, 7, 50, 333]))
        k = int(rng.choice([1, 2, 3, 5]))
        kind = c % 4
        y = draw(kind, n)
        taus = rng.uniform(0.01, 0.99, k)
        if k > 1 and np.all(np.diff(taus) > 0):
            taus = taus[::-1].copy()                      # never sorted ascending
        est = draw(kind, n * k).reshape(n, k)
        if c % 2 == 0:
            est[0, 0] = y[0]                                       # estimate == observation
        case = {"law": "vector-taus", "n": n, "k": k, "kind": kind, "taus": taus.tolist(), "index": c}
        a = [est, est.reshape(-1), est.reshape(n, k, 1)][c % 3]
        yy = [y, y.reshape(n, 1), y.reshape(1, n)][(c // 3) % 3]
        stats["vector_tau_cases"] += 1
        nev += n * k
        try:
            q = np.asarray(sc.quantile_score(a.copy(), yy.copy(), taus if c % 2 else taus.tolist()))
            mq = np.asarray(sc.mean_quantile_score(a.copy(), yy.copy(), taus if c % 2 else taus.tolist()))
        except Exception as e:  # noqa
            bad("vector-taus-exception", f"quantile_score raised {type(e).__name__}: {e} for y_tau shape {a.shape}, y_test shape {yy.shape}, {k} taus",
                dict(case, shapes=[list(a.shape), list(yy.shape)]))
            continue
        if q.shape != (n, k) or mq.shape != (k,):
            bad("vector-taus-shape", f"quantile_score / mean_quantile_score returned shapes {q.shape} / {mq.shape} for n={n}, k={k}", case)
            continue
        for j in range(k):
            d = np.abs(est[:, j] - y)
            want = np.where(est[:, j] < y, taus[j] * d, (1 - taus[j]) * d)
            single = np.asarray(sc.quantile_score(est[:, j].copy(), y.copy(), [float(taus[j])])).ravel()
            if np.any(np.abs(q[:, j] - want) > 1e-12 * (1 + d)) or np.any(np.abs(q[:, j] - single) > 1e-12 * (1 + d)):
                i = int(np.argmax(np.abs(q[:, j] - want)))
                bad("vector-taus-columnwise", f"column {j} of quantile_score with taus {taus.tolist()} is not the pinball loss for tau = {taus[j]}: "
                    f"entry ({i},{j}) = {q[i, j]!r}, pinball loss of estimate {est[i, j]!r} against {y[i]!r} is {want[i]!r} "
                    f"(y_tau shape {a.shape}, y_test shape {yy.shape})", dict(case, column=j, row=i))
                break
            if not abs(mq[j] - want.mean()) <= 1e-11 * (1 + abs(want.mean())):
                bad("vector-taus-mean", f"entry {j} of mean_quantile_score = {mq[j]!r}, the mean of column {j} of the pinball losses is {want.mean()!r}",
                    dict(case, column=j))
                break
    # ---- (B)
    for c in range(ctx.n(120, 2000)):
        n = int(rng.choice([1, 2, 3, 5, 10, 20, 50, 400 if c % 10 == 0 else 30]))
        kind = c % 4
        y = draw(kind, n)
        tau = float(rng.choice([0.05, 0.25, 0.5, 0.75, 0.95, rng.uniform(0.01, 0.99), rng.integers(1, n + 1) / (n + 1.0)]))
        case = {"law": "slope", "n": n, "kind": kind, "tau": tau, "index": c}

        def loss(cst):
            return float(np.asarray(sc.mean_quantile_score(np.full((n, 1), cst), y, [tau])).ravel()[0])
        pts = np.unique(y)
        lp = np.array([loss(p) for p in pts])
        best = float(lp.min())
        r = min(n - 1, max(0, int(np.ceil(tau * n)) - 1))
        q = np.sort(y)[r]
        iq = int(np.searchsorted(pts, q))
        cand = [pts[0] - 1.0, pts[-1] + 1.0, pts[0] - 1e-3, pts[-1] + 1e-3, q - 1e-6 * (1 + abs(q)), q + 1e-6 * (1 + abs(q)),
                float(rng.uniform(pts[0], pts[-1]))]
        for i in range(max(0, iq - 3), min(len(pts) - 1, iq + 3)):
            cand.append(0.5 * (pts[i] + pts[i + 1]))
            cand.append(pts[i] + 0.9 * (pts[i + 1] - pts[i]))
        nev += n * (len(cand) + len(pts))
        for cst in cand:
            cst = float(cst)
            lc = loss(cst)
            lo, hi = int(np.sum(y < cst)), int(np.sum(y <= cst))
            stats["off_sample_candidates"] += 1
            tol = 1e-9 * (1 + abs(best) + abs(lc))
            if lc < best - tol:
                bad("minimum-not-at-sample-point", f"the constant {cst!r} has mean_quantile_score {lc!r} < {best!r}, the least value over the sample points "
                    f"(n={n}, tau={tau})", dict(case, c=cst))
                break
            margins = []
            if lo > 0:
                m = float(pts[pts < cst].max())
                k0_ = int(np.searchsorted(pts, m))
                want = (cst - m) * (lo - tau * n) / n
                got = lc - float(lp[k0_])
                stats["slope_checks"] += 1
                if not abs(got - want) <= 1e-9 * (1 + abs(lc) + abs(lp[k0_]) + abs(want)):
                    bad("loss-slope", f"mean loss at {cst!r} minus mean loss at the nearest sample value below ({m!r}) is {got!r}; the pinball loss gives "
                        f"(c - m) (#{{y < c}} - tau n) / n = {want!r} (n={n}, tau={tau}, #{{y < c}}={lo})", dict(case, c=cst, m=m))
                    break
                if lo > tau * n * (1 + 1e-9):
                    margins.append(want)
            if hi < n:
                M = float(pts[pts > cst].min())
                k1_ = int(np.searchsorted(pts, M))
                want = (cst - M) * (hi - tau * n) / n
                got = lc - float(lp[k1_])
                stats["slope_checks"] += 1
                if not abs(got - want) <= 1e-9 * (1 + abs(lc) + abs(lp[k1_]) + abs(want)):
                    bad("loss-slope", f"mean loss at {cst!r} minus mean loss at the nearest sample value above ({M!r}) is {got!r}; the pinball loss gives "
                        f"(c - M) (#{{y <= c}} - tau n) / n = {want!r} (n={n}, tau={tau}, #{{y <= c}}={hi})", dict(case, c=cst, M=M))
                    break
                if hi < tau * n * (1 - 1e-9):
                    margins.append(want)
            # not a tau-quantile (by a clear margin), yet as good as the best sample point
            if margins and max(margins) > 100 * tol and lc <= best + tol:
                bad("minimiser-is-quantile", f"the constant {cst!r} attains the least mean_quantile_score {best!r} but is not a {tau}-quantile "
                    f"(#{{y < c}}={lo}, #{{y <= c}}={hi}, tau n={tau * n})", dict(case, c=cst))
                break
    # ---- (C)
    for c in range(ctx.n(40, 400)):
        n = int(rng.choice([1, 2, 5, 50]))
        k = int(rng.choice([1, 3]))
        y = rng.normal(size=n)
        est = rng.normal(size=(n, k))
        mode = c % 5
        if mode == 0:
            y[rng.integers(0, n)] = np.nan
        elif mode == 1:
            y[:] = np.nan
        elif mode == 2:
            est[rng.integers(0, n), rng.integers(0, k)] = np.nan
        elif mode == 3:
            y[rng.random(n) < 0.5] = np.nan
            est[rng.random((n, k)) < 0.3] = np.nan
        else:
            y[0] = np.nan
            y[-1] = np.nan
        taus = np.sort(rng.uniform(0.01, 0.99, k))
        yy = y if c % 2 else y.reshape(n, 1)
        case = {"law": "nan-sample", "n": n, "k": k, "mode": mode, "index": c}
        stats["nan_samples_exercised"] += 1
        nev += n * k
        with warnings.catch_warnings():
            warnings.simplefilter("ignore")
            with np.errstate(all="ignore"):
                try:
                    q = np.asarray(sc.quantile_score(est.copy(), yy.copy(), taus))
                    mq = np.asarray(sc.mean_quantile_score(est.copy(), yy.copy(), taus))
                    sc.mape(est[:, 0].copy(), y.copy())
                    sc.bias(est[:, 0].copy(), y.copy())
                except Exception as e:  # noqa
                    bad("nan-sample-exception", f"a sample of {n} values containing NaN (pattern {mode}, {k} taus, consistent shapes {est.shape} / {yy.shape}) "
                        f"raises {type(e).__name__}: {e}", case)
                    continue
        if q.shape != (n, k) or mq.shape != (k,):
            bad("nan-sample-shape", f"a sample containing NaN gives shapes {q.shape} / {mq.shape}, expected {(n, k)} / {(k,)}", case)
    return out, nev, stats


MQS_BODY = "np.nanmean(quantile_score(y_tau, y_test, taus), axis=0)"


def mean_wrapper_tied(ctx):
    """mean_quantile_score is modelled as `mean_loss` = the arithmetic mean of the translated kernel over the sample
    (Model/C19_scores.v).  The tie is structural and fail-closed: the body of the function in the tree under test must be
    exactly `return np.nanmean(quantile_score(y_tau, y_test, taus), axis=0)`; any other text breaks the obligation
    (the law sweep below then searches for a failing input on samples of every size class)."""
    import ast
    try:
        tree = ast.parse((core.REPO / "typhon/retrieval/scores.py").read_text())
        fn = next(n for n in tree.body if isinstance(n, ast.FunctionDef) and n.name == "mean_quantile_score")
        body = [b for b in fn.body if not (isinstance(b, ast.Expr) and isinstance(b.value, ast.Constant))]
        ok = (len(body) == 1 and isinstance(body[0], ast.Return)
              and ast.dump(body[0].value) == ast.dump(ast.parse(MQS_BODY, mode="eval").body)
              and [a.arg for a in fn.args.args] == ["y_tau", "y_test", "taus"])
        why = "" if ok else "body is " + "; ".join(ast.unparse(b) for b in body)[:200]
    except Exception as e:  # noqa
        ok, why = False, repr(e)
    ctx.add_obligation("translation:scores.mean_quantile_score = nanmean(kernel) over the sample", ok, why)
    if not ok:
        ctx.fail("translation", "mean_quantile_score is no longer `" + MQS_BODY + "` (" + why + "): the model's mean_loss "
                 "is not tied to it any more", obligation="scores.mean_quantile_score", signature="translation:mean_quantile_score")
    return ok


def run(ctx):
    from typhon.retrieval import scores as sc
    missing = encl.translate(ctx, ["scores"], NEEDED)
    mean_wrapper_tied(ctx)
    ctx.prove("Props/C19.v")
    if not missing:
        ok, log, _ = core.coq_build([core.THEORIES / "Model" / "C19_scores.v"])
        cases = enclosure_cases(ctx, sc)
        res, log = encl.enclosure_check(ctx.work / "encl", "c19", REQ, cases)
        if log:
            ctx.log(log[-1500:])
        for c, r in zip(cases, res):
            ctx.cov["evaluations"] += 1
            if r != "OK":
                ctx.fail("correspondence", f"enclosure {r}: model value of {c['meta']['fn']} on {c['meta']['args']} is not within tolerance of "
                         f"the implementation's {c['meta']['value']!r}", case=c["meta"], signature=f"enclosure:{c['meta']['fn']}")
        ctx.cov["distinct_nontrivial"] += sum(1 for r in res if r == "OK")
        ctx.cov["enclosures_ok"] = sum(1 for r in res if r == "OK")
        for c in cases[:3]:
            ctx.sample(c["meta"])
        # vector of taus: entries of the list-of-rows model / of mqs_rows against the implementation
        mcases = matrix_cases(ctx, sc)
        for c in [c for c in mcases if c.get("shape_error")]:
            ctx.fail("failing-input", f"{c['meta']['fn']}: {c['meta']['value']} for consistent shapes", case=c["meta"], signature="vector-taus-shape")
        mcases = [c for c in mcases if not c.get("shape_error")]
        res, log = encl.enclosure_check(ctx.work / "encl", "c19m", REQ, mcases)
        if log:
            ctx.log(log[-1500:])
        for c, r in zip(mcases, res):
            ctx.cov["evaluations"] += 1
            if r != "OK":
                m = c["meta"]
                ctx.fail("correspondence", f"enclosure {r}: entry {m['entry']} of the model's {m['fn']} for estimates {m['estimates']} (given with shape "
                         f"{m['y_tau_shape']}), observations {m['y_test']} and taus {m['taus']} is not within tolerance of the implementation's {m['value']!r}",
                         case=m, signature="enclosure:vector-taus")
        ctx.cov["distinct_nontrivial"] += sum(1 for r in res if r == "OK")
        ctx.cov["matrix_enclosures_ok"] = sum(1 for r in res if r == "OK")
        for c in mcases[:2]:
            ctx.sample(c["meta"])
        # shape contract
        sh = shape_cases(ctx, sc)
        exprs = [f"quantile_score_shape {zlit(int(np.prod(c['st'])))} {zlit(int(np.prod(c['sy'])))} {zlit(c['m'])}" for c in sh]
        vals, log = core.coq_eval(ctx.work / "cases", "shape", "From Typhon Require Import Model.C19_scores.", exprs)
        acc = rej = 0
        for c, v in zip(sh, vals):
            ctx.cov["evaluations"] += 1
            if v is None and c["obs"][0] == "ValueError":
                rej += 1
            elif isinstance(v, tuple) and v[0] == "Some" and c["obs"][0] == "ok" and c["obs"][1] == [v[1], c["m"]]:
                acc += 1
            else:
                consistent = int(np.prod(c["sy"])) * c["m"] == int(np.prod(c["st"]))
                what = (f"quantile_score with y_tau shape {c['st']}, y_test shape {c['sy']}, {c['m']} taus: implementation {c['obs']}, "
                        f"model {v} (shapes are {'consistent' if consistent else 'inconsistent'})")
                ctx.fail("failing-input", what, case=c, signature="shape-contract")
        ctx.cov["shape_cases"] = {"accepted": acc, "rejected": rej}
        ctx.cov["distinct_nontrivial"] += len({(tuple(c["st"]), tuple(c["sy"]), c["m"]) for c in sh})
    kept = []
    try:
        fails, n = law_sweep(ctx, sc, kept)
    except Exception as e:  # noqa -- an exception of the implementation on an input of the sweep is a failing input, and the
        # failures collected before it are kept
        fails, n = kept + [("law-sweep-raises", f"the implementation raised {type(e).__name__}: {str(e)[:200]} on an input of the law sweep "
                            f"(after {len(kept)} recorded failures)", {"law": "sweep", "error": f"{type(e).__name__}: {str(e)[:200]}"})], 0
    ctx.cov["evaluations"] += n
    ctx.cov["law_evaluations"] = n
    try:
        fails2, n2, stats = ext_laws(ctx, sc)
    except Exception as e:  # noqa
        fails2, n2, stats = [("law-sweep-raises", f"the implementation raised {type(e).__name__}: {str(e)[:200]} on an input of the extended "
                              f"laws", {"law": "ext", "error": f"{type(e).__name__}: {str(e)[:200]}"})], 0, {}
    ctx.cov["evaluations"] += n2
    ctx.cov["law_evaluations"] = n + n2
    ctx.cov.update(stats)
    for sig, what, case in fails + fails2:
        ctx.fail("failing-input", what, case=case, signature=sig)
    ctx.cov["rule"] = ("enclosures: samples of 1-8 values with (n,) / (n,1) shapes; shape cases: (y_tau shape, y_test shape, #taus) triples, distinct; "
                       "non-trivial = enclosure proved by Coq resp. distinct shape triple; law sweep: samples of 1..10^4 values "
                       "(normal, Cauchy, integer ties, exponential) with exhaustive search over the sample points as constant estimates; "
                       "extension: enclosures of entries of the (n,k) matrix model (n <= 4, k <= 3, unsorted taus, (n,k) / flat / (n,k,1) inputs); "
                       "vector-of-taus law (k in 1,2,3,5), exact slope of the loss at constants off the sample points, NaN samples run for 'no exception'")
    return ctx.finish(trusted_base=TRUSTED)


def replay(ctx, rec):
    from typhon.retrieval import scores as sc
    fails, _ = law_sweep(ctx, sc)
    fails = fails + ext_laws(ctx, sc)[0]
    hit = [f for f in fails if f[0] == rec.get("signature")]
    for f in hit[:3]:
        print("still fails:", f[1])
    if rec.get("kind") != "failing-input":
        ctx.prove("Props/C19.v")
        return 1 if ctx.failures else 0
    return 1 if hit else 0
