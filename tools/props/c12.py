"""C12 -- compress / decompress round-trip any content and never leave debris.

Theorems: coq/theories/Props/C12.v, about the executable model coq/theories/Model/C12_compress.v
(control structure of compress / compress_as / decompress as a function of the primitive step that
raises; codecs are Section variables) and about the TRANSLATED key set of `_known_compressions`
(coq/gen/C12_formats.v, regenerated from the tree under test on every run).

Tie: tools/harness/c12_run.py runs the real code in a child process on every injection point x format
(exhaustively in both tiers) and on generated names / contents / priors; the model AND the property's
clause checker (spec_case, proved to accept the model: theorem model_meets_spec) are evaluated inside
Coq on the same cases.  A case on which the clause checker rejects the implementation's observations
is a failing input of the property; a case where only model and implementation differ is a
correspondence break.

Several blocks open at the same time (Model/C12_nested.v, theorems nested_blocks_independent,
nested_blocks_no_debris, two_decompress_blocks_independent): the harness enters, uses and leaves
1-4 compress / decompress context managers one event at a time (nested, overlapping, sequential and
random interleavings; archives with the same stem in different directories or with different
suffixes; shared explicit / default temporary directory; bystander files named like the stem, the
archive or 'temp' in the temporary directory; exceptions in the bodies).  The same history is
evaluated in Coq on the shared-file-system model with a concrete fresh-name oracle and on the ideal
history (every block keeps its copy to itself); the laws (clauses 9-14: each block reads the bytes
of ITS archive, leaving raises nothing, no temporary entry remains, archives and bystanders are
byte for byte what they were, each target holds the bytes of its own block, a block that enters
alone enters beside others) are judged in Coq against the ideal history.
"""
import ast
import json
import os
import os.path
import shutil
import tempfile
from pathlib import Path

from lib import core
from lib.core import coq_list, zlist

HARNESS = core.VERIF / "tools" / "harness" / "c12_run.py"
GENFILE = core.GEN / "C12_formats.v"
PREAMBLE = ("From Typhon Require Import Model.C12_compress Model.C12_nested.\n"
            "From TyphonGen Require Import C12_formats.\n")
ADVERTISED = ["gz", "bz2", "zip", "xz"]
TRUSTED = [
    "correspondence harness tools/props/c12.py + tools/harness/c12_run.py (generators, fault injection by wrapping "
    "utils.open / utils.tempfile / the compressor table / shutil.copyfileobj, directory listings, token mapping of contents)",
    "the extractor of the `_known_compressions` key set (Python ast, fail-closed, cross-checked with the table of the imported module)",
    "gzip / bz2 / lzma / zipfile of the standard library: dec(enc b) = b is a hypothesis of the round-trip theorem, "
    "exercised on every case by opening the stored file with the standard library",
    "os.path.splitext / basename, str.lstrip / endswith: modelled on character lists, compared with Python on generated names",
    "tempfile.TemporaryDirectory removes its directory on every exit of the with-statement; os.unlink removes the file (modelled, exercised)",
    "tempfile.NamedTemporaryFile(delete=False) / TemporaryDirectory return a name that did not exist: hypotheses fresh_file_ok / "
    "fresh_dir_ok of nested_blocks_independent (exercised: histories of up to four blocks open together, bystander files)",
]


def qs(s):
    return core.coq_string(s) + "%string"


def opt_s(s):
    return "None" if s is None else f"(Some {qs(s)})"


def opt_zs(x):
    return "None" if x is None else f"(Some {zlist(x)})"


# ----------------------------------------------------------------------------- translation of the table

def translate_table(ctx):
    """Key set of `_known_compressions` from the source text (dict literal + constant-key item
    assignments anywhere at module level); None if the shape is not understood."""
    src = core.REPO / "typhon" / "files" / "utils.py"
    try:
        tree = ast.parse(src.read_text())
    except Exception as e:  # noqa
        return None, f"cannot parse {src}: {e}"
    keys, problems = None, []

    def is_tbl(n):
        return isinstance(n, ast.Name) and n.id == "_known_compressions"

    def visit(stmts):
        nonlocal keys
        for s in stmts:
            if isinstance(s, ast.Assign):
                for t in s.targets:
                    if is_tbl(t):
                        if not isinstance(s.value, ast.Dict) or keys is not None:
                            problems.append(f"line {s.lineno}: table not a single dict literal")
                            continue
                        keys = []
                        for k in s.value.keys:
                            if isinstance(k, ast.Constant) and isinstance(k.value, str):
                                keys.append(k.value)
                            else:
                                problems.append(f"line {s.lineno}: non-constant key")
                    elif isinstance(t, ast.Subscript) and is_tbl(t.value):
                        k = t.slice
                        if isinstance(k, ast.Constant) and isinstance(k.value, str) and keys is not None:
                            if k.value not in keys:
                                keys.append(k.value)
                        else:
                            problems.append(f"line {s.lineno}: non-constant item assignment")
            elif isinstance(s, (ast.AugAssign, ast.Delete)):
                for n in ast.walk(s):
                    if is_tbl(n):
                        problems.append(f"line {s.lineno}: table mutated")
            elif isinstance(s, ast.Expr):
                for n in ast.walk(s):
                    if is_tbl(n):
                        problems.append(f"line {s.lineno}: table used in an expression statement")
            elif isinstance(s, ast.Try):
                visit(s.body)
                visit(s.orelse)
                visit(s.finalbody)
                for h in s.handlers:
                    visit(h.body)
            elif isinstance(s, (ast.If,)):
                visit(s.body)
                visit(s.orelse)
            elif isinstance(s, ast.With):
                visit(s.body)
    visit(tree.body)
    if keys is None:
        problems.append("no dict literal assigned to _known_compressions")
    if problems:
        return None, "; ".join(problems)
    return keys, ""


def write_gen(keys):
    text = ("(* GENERATED by tools/props/c12.py from typhon/files/utils.py of the tree under test. *)\n"
            "From Coq Require Import String List.\nImport ListNotations.\n"
            "Definition known_compressions : list string := "
            + coq_list([qs(k) for k in keys]) + ".\n")
    core.GEN.mkdir(exist_ok=True)
    if not GENFILE.exists() or GENFILE.read_text() != text:
        GENFILE.write_text(text)


# ----------------------------------------------------------------------------- cases

CONTENT = {
    # class: (tokens, {token: (kind, size)})
    "empty": ([], {}),
    "one": ([1], {1: ("rand", 1)}),
    "ascii": ([1, 2, 3], {1: ("ascii", 37), 2: ("ascii", 5), 3: ("ascii", 120)}),
    "binary": ([1, 2, 3], {1: ("allbytes", 70000), 2: ("rand", 3000), 3: ("rand", 66000)}),
    "compressed": ([1, 2], {1: ("gzipped", 5000), 2: ("xzipped", 3000)}),
    "zeros": ([1, 2], {1: ("zeros", 200000), 2: ("rand", 10)}),
    "big": ([1, 2, 3], {1: ("rand", 450000), 2: ("zeros", 450000), 3: ("rand", 450000)}),
}
PRIOR_BLOCKS = {101: ("rand", 50), 102: ("ascii", 20)}


def fmt_of(name):
    return os.path.splitext(name)[1].lstrip(".")


def member_of(name):
    return os.path.basename(os.path.splitext(name)[0])


def mk_case(k, name, content="ascii", prior=None, comp=True, fmtarg=None, cf=None, dec=False, target=None,
            df=None, tmpdir="explicit", seed=0):
    tokens, bl = CONTENT[content]
    blocks = {str(t): {"kind": kd, "size": sz, "seed": seed * 1000 + t} for t, (kd, sz) in bl.items()}
    for t, (kd, sz) in PRIOR_BLOCKS.items():
        blocks[str(t)] = {"kind": kd, "size": sz, "seed": seed * 1000 + t}
    prior = dict(prior or {"kind": "none"})
    if prior["kind"] in ("archive", "truncated", "flipped", "wrongformat", "raw") and "tokens" not in prior:
        prior["tokens"] = [101, 102]
    if prior["kind"] in ("archive", "truncated", "flipped", "wrongformat"):
        prior.setdefault("fmt", fmt_of(name))
        prior.setdefault("member", member_of(name))
    if prior["kind"] not in ("none", "raw"):
        prior.setdefault("read_fmt", fmt_of(name))
    fmt_eff = fmtarg if fmtarg is not None else fmt_of(name)
    return {"id": k, "name": name, "content": content, "b": list(tokens), "blocks": blocks, "prior": prior,
            "comp": bool(comp), "fmtarg": fmtarg, "fmt_eff": fmt_eff, "fmt_name": fmt_of(name),
            "cf": cf or {"kind": "none"}, "dec": bool(dec), "target": target, "df": df or {"kind": "none"},
            "tmpdir": tmpdir}


def compress_faults(fmt, ntok):
    mid = 1 if ntok >= 2 else 0
    fl = [{"kind": "mkdtemp", "variant": "natural"}, {"kind": "mkdtemp", "variant": "patched", "exc": "OSError"}]
    for j in sorted({None, 0, mid, ntok}, key=lambda x: -1 if x is None else x):
        for exc in ("Exception", "KeyboardInterrupt"):
            fl.append({"kind": "body", "j": j, "exc": exc})
    fl.append({"kind": "body", "j": mid, "exc": "BaseException"})
    fl += [{"kind": "open_in", "variant": "natural"}, {"kind": "open_in", "variant": "patched", "exc": "OSError"},
           {"kind": "open_out", "variant": "natural"}, {"kind": "open_out", "variant": "patched", "exc": "OSError"}]
    if fmt == "gz":
        fl.append({"kind": "wrap", "exc": "OSError"})
    for j in sorted({0, mid}):
        fl.append({"kind": "copy", "j": j, "exc": "OSError"})
    fl.append({"kind": "copy", "j": mid, "exc": "KeyboardInterrupt"})
    fl.append({"kind": "close", "exc": "OSError"})
    return fl


def decompress_faults(payload):
    mid = 1 if len(payload) >= 2 else 0
    fl = [{"kind": "mktemp", "variant": "natural"}, {"kind": "mktemp", "variant": "patched", "exc": "OSError"},
          {"kind": "open", "variant": "patched", "exc": "OSError"}]
    for j in sorted({0, mid}):
        fl.append({"kind": "copy", "j": j, "prefix": payload[:j], "exc": "OSError"})
    fl.append({"kind": "copy", "j": mid, "prefix": payload[:mid], "exc": "KeyboardInterrupt"})
    fl.append({"kind": "close", "exc": "OSError"})
    for after in (False, True):
        for exc in ("Exception", "KeyboardInterrupt", "BaseException"):
            fl.append({"kind": "body", "after_read": after, "exc": exc})
    return fl


NAMES_FMT = ["a.{f}", "data.tar.{f}", "a.b.c.{f}", "sub.dir/x.y.{f}", "a..{f}", "my file.v2.{f}", "x.zip.{f}",
             "{f}.{f}", "sub/.hidden.{f}", "UPPER.Case.{f}", "a-b_c.1.2.3.{f}"]
NAMES_PASS = ["plain", "data.txt", "a.gz.bak", ".gz", "..gz", "sub.gz/file", "a.GZ", "a.tgz", "gz", "a.gz.", "a.xzip",
              "sub/.zip", "archive.tar", "a.bz", "a.z", "x.7z", "...xz"]


def gen_cases(ctx):
    cases = []

    def add(*a, **k):
        cases.append(mk_case(len(cases), *a, seed=len(cases) + 1, **k))

    thorough = ctx.thorough
    contents_fault = ["ascii", "empty"] + (["one", "binary", "compressed"] if thorough else [])
    # (1) every injection point of compress x format x prior
    for f in ADVERTISED:
        for content in contents_fault:
            ntok = len(CONTENT[content][0])
            for prior in ({"kind": "none"}, {"kind": "raw"}):
                add(f"d.v1/out.{f}", content=content, prior=prior)                    # no fault
                for cf in compress_faults(f, ntok):
                    nat_out = cf["kind"] == "open_out" and cf.get("variant") == "natural"
                    if nat_out and prior["kind"] != "none":
                        continue
                    name = f"absent/out.{f}" if nat_out else f"d.v1/out.{f}"
                    add(name, content=content, prior=prior, cf=cf,
                        tmpdir="default" if (len(cases) % 5 == 0) else "explicit")
    # (2) every injection point of decompress x format x source of the archive x target
    for f in ADVERTISED:
        for content in (["ascii"] + (["empty", "binary"] if thorough else [])):
            payload = CONTENT[content][0]
            for via_compress in (True, False):
                for target in (None, "copy.bin"):
                    base = dict(content=content, target=target, dec=True)
                    if via_compress:
                        base.update(comp=True)
                        pl = payload
                    else:
                        base.update(comp=False, prior={"kind": "archive"})
                        pl = [101, 102]
                    add(f"arc.x.{f}", **base)
                    for df in decompress_faults(pl):
                        add(f"arc.x.{f}", df=df, tmpdir="default" if (len(cases) % 4 == 0) else "explicit", **base)
    # (3) damaged / missing / foreign archives
    for f in ADVERTISED:
        others = [g for g in ADVERTISED if g != f]
        priors = [{"kind": "none"}, {"kind": "truncated"}, {"kind": "flipped"}, {"kind": "garbage"}, {"kind": "empty"},
                  {"kind": "garbage", "size": 4000},
                  {"kind": "wrongformat", "fmt": others[0]}, {"kind": "wrongformat", "fmt": others[1]},
                  {"kind": "raw"}]
        if f == "zip":
            priors.append({"kind": "archive", "member": "other"})
            priors.append({"kind": "archive", "member": "bad.zip"})
        for pr in priors:
            for target in (None, "copy.bin"):
                add(f"bad.{f}", comp=False, prior=pr, dec=True, target=target)
        add(f"bad.{f}", comp=False, prior={"kind": "archive"}, dec=True, target=f"bad.{f}")      # target = the archive
    # (4) round trips: every content class x format x names with several dots, fmt= matching the suffix
    classes = ["empty", "one", "ascii", "binary", "compressed", "zeros"] + ["big"]
    for f in ADVERTISED:
        for content in classes:
            if content == "big" and not thorough and f != "xz":
                continue
            add(f"rt.{content}.{f}", content=content, dec=True, tmpdir="default" if content == "one" else "explicit")
        for i, pat in enumerate(NAMES_FMT):
            nm = pat.format(f=f)
            add(nm, dec=True, content=("ascii", "one", "compressed")[i % 3])
            add(nm, dec=True, fmtarg=f, prior={"kind": "raw"}, target="t.out" if i % 2 else None)
            add(nm, cf={"kind": "body", "j": 1, "exc": "Exception"}, prior={"kind": "raw"} if i % 2 else None)
        # fmt= on a name without (or with another) suffix: a genuine archive must be stored
        for nm in ("noext", "data.bin", "a.b/c.d"):
            add(nm, fmtarg=f, dec=True)
            add(nm, fmtarg=f, cf={"kind": "body", "j": 1, "exc": "Exception"}, prior={"kind": "raw"})
        other = ADVERTISED[(ADVERTISED.index(f) + 1) % 4]
        add(f"mixed.{other}", fmtarg=f, dec=True)
    # (5) names without a compression suffix are passed through
    for nm in NAMES_PASS:
        add(nm, dec=True, content="ascii")
        add(nm, comp=False, prior={"kind": "raw"}, dec=True, target="copy.bin")
        add(nm, comp=False, dec=True)                                                              # missing file
        add(nm, cf={"kind": "body", "j": 1, "exc": "Exception"})
        add(nm, comp=False, prior={"kind": "raw"}, dec=True, df={"kind": "body", "after_read": True})
    for fa in (".xz", ".gz", "tar", "GZ", ""):
        add("weird.dat", fmtarg=fa, dec=True)
    # (6) random combinations
    rng = ctx.rng
    for _ in range(ctx.n(150, 2500)):
        f = rng.choice(ADVERTISED)
        if rng.random() < 0.15:
            nm = rng.choice(NAMES_PASS)
        else:
            nm = rng.choice(NAMES_FMT).format(f=f)
        content = rng.choice(["empty", "one", "ascii", "ascii", "binary", "compressed", "zeros"])
        ntok = len(CONTENT[content][0])
        comp = rng.random() < 0.8
        prior = rng.choice([{"kind": "none"}, {"kind": "raw"}, {"kind": "archive"}]) if comp else \
            rng.choice([{"kind": "archive"}, {"kind": "archive"}, {"kind": "truncated"}, {"kind": "flipped"},
                        {"kind": "garbage"}, {"kind": "none"}, {"kind": "raw"}])
        if prior["kind"] in ("archive", "truncated", "flipped") and fmt_of(nm) not in ADVERTISED:
            prior = {"kind": "raw"}
        fmtarg = rng.choice([None, None, None, f, rng.choice(ADVERTISED)]) if comp else None
        # the injection points are those of the format compress will really use
        cf = rng.choice([None, None] + compress_faults(fmtarg or fmt_of(nm), ntok)) if comp else None
        if cf and cf.get("variant") == "natural" and cf["kind"] in ("open_out", "open_in") \
                and (cf["kind"] == "open_out" or (fmtarg or fmt_of(nm)) not in ADVERTISED):
            cf = None
        dec = (not comp) or rng.random() < 0.6
        pl = CONTENT[content][0] if comp else [101, 102]
        df = rng.choice([None, None] + decompress_faults(pl)) if dec else None
        target = rng.choice([None, None, "copy.bin", "sub.dir/copy.gz"]) if dec else None
        if target and "/" in target and "sub.dir/" not in nm:
            target = "copy.bin"
        add(nm, content=content, prior=prior, comp=comp, fmtarg=fmtarg, cf=cf, dec=dec, target=target, df=df,
            tmpdir=rng.choice(["explicit", "explicit", "default"]))
    return cases


# ----------------------------------------------------------------------------- Coq literals

def cf_lit(cf, fired, fmt_eff="gz"):
    k = cf["kind"]
    if k == "none" or not fired:
        return "CNone"
    if k == "mkdtemp":
        return "CMkdtemp"
    if k == "body":
        return "(CBody None)" if cf["j"] is None else f"(CBody (Some {int(cf['j'])}%nat))"
    if k == "open_in":
        return "COpenIn"
    if k == "open_out":
        return "COpenOut"
    if k == "wrap":
        return "CWrap" if fmt_eff == "gz" else "COpenOut"   # a constructor that raises before creating the file
    if k == "copy":
        return f"(CCopy {int(cf['j'])}%nat)"
    if k == "close":
        return "CClose"
    raise ValueError(k)


def df_lit(df, fired):
    k = df["kind"]
    if k == "none" or not fired:
        return "DNone"
    if k == "mktemp":
        return "DMktemp"
    if k == "open":
        return "DOpen"
    if k == "copy":
        return f"(DCopy {int(df['j'])}%nat)"
    if k == "close":
        return "DClose"
    if k == "body":
        return f"(DBody {core.coq_bool(df['after_read'])})"
    raise ValueError(k)


def prior_lit(case, res):
    p = case["prior"]
    cls = res.get("prior_class", p["kind"])
    if cls == "none":
        return "NoFile"
    if p["kind"] == "empty":
        return "(RawFile [])"            # a zero-length file (gzip reads it as an empty stream, the others refuse it)
    if cls == "raw":
        return f"(RawFile {zlist(p['tokens'])})"
    if cls == "archive":
        member = res.get("prior_member") or p.get("member") or ""
        return (f"(Archive (s2l {qs(p.get('read_fmt') or p['fmt'])}) (s2l {qs(member)}) "
                f"{zlist(res.get('prior_tokens', p.get('tokens', [])))})")
    if cls == "corrupt":
        return "CorruptOpen"
    return None          # damage that the standard library does not notice: not a usable case


def obs_comp(o):
    v = [int(o["raised"]), o["yielded"], o["during"], o["left"], int(o["t_exists"]), int(o["t_same"])]
    return v, o["decoded"]


def obs_dec(o):
    v = [int(o["raised"]), o["yielded"], o["during"], o["left"], int(o["copy_gone"]), int(o["archive_same"])]
    return v, o["read"]


def obs_lit(pair):
    if pair is None:
        return "([], None)"
    v, d = pair
    return f"({zlist(v)}, {opt_zs(d)})"


def case_expr(case, res):
    pl = prior_lit(case, res)
    if pl is None:
        return None
    cfired = res.get("comp", {}).get("fired", False)
    dfired = res.get("dec", {}).get("fired", False)
    c = (f"(mkCase {pl} {qs(case['name'])} {core.coq_bool(case['comp'])} {opt_s(case['fmtarg'])} "
         f"{zlist(case['b'])} {cf_lit(case['cf'], cfired, case['fmt_eff'])} {core.coq_bool(case['dec'])} {opt_s(case['target'])} "
         f"{df_lit(case['df'], dfired)})")
    ic = obs_lit(obs_comp(res["comp"]) if case["comp"] else None)
    idd = obs_lit(obs_dec(res["dec"]) if case["dec"] else None)
    return f"eval_case known_compressions {c} {ic} {idd}"


def unopt(x):
    return x[1] if isinstance(x, tuple) and x and x[0] == "Some" else None


def canon(tokens):
    """archive bytes / unknown bytes are one class"""
    if tokens is None:
        return None
    return [-9] if any(t < 0 for t in tokens) else list(tokens)


CLAUSES = {
    1: "a temporary file or directory remains after the compress block",
    2: "compress did not pass a name without compression suffix through",
    3: "after an undisturbed compress block the stored file is not a genuine archive of the requested format holding the bytes written (or the block raised)",
    4: "an exception inside the compress block created or changed the target file",
    5: "a temporary file remains after the decompress block",
    6: "the decompressed copy still exists after the decompress block",
    7: "compress followed by decompress did not return the bytes written",
    8: "decompress did not pass a name without compression suffix through",
    9: "a decompress block did not read the bytes of ITS archive while another block was or had been open "
       "(other bytes, or its decompressed copy had vanished)",
    10: "leaving a with-block raised an exception of its own while other blocks were or had been open",
    11: "a temporary file or directory remains after all with-blocks of the history were left",
    12: "a file that is not the target of a compress block (an archive, a bystander in the temporary directory) "
        "was changed or removed by the history",
    13: "the target of a compress block that was open together with other blocks is not an archive of the bytes "
        "written in its own block",
    14: "a with-block that can be entered when it is alone raised on entry while other blocks were or had been open",
}


# ----------------------------------------------------------------------------- running

def run_impl(ctx, cases):
    out = []
    with tempfile.TemporaryDirectory(prefix="verif_c12_cases_") as td:
        chunks = [cases[i::core.NPROC] for i in range(core.NPROC)] if len(cases) > 64 else [cases]
        chunks = [c for c in chunks if c]
        files = []
        for i, ch in enumerate(chunks):
            p = Path(td) / f"cases_{i}.json"
            p.write_text(json.dumps(ch))
            files.append(p)
        from concurrent.futures import ThreadPoolExecutor
        with ThreadPoolExecutor(max_workers=core.NPROC) as ex:
            rs = list(ex.map(lambda p: core.run_py(HARNESS, [p], timeout=800), files))
        table, ufile = None, None
        for r, ch in zip(rs, chunks):
            if r.returncode != 0 or not r.stdout.strip().startswith("{"):
                ctx.fail("correspondence", f"harness child failed rc={r.returncode}: {(r.stderr or r.stdout)[-1500:]}",
                         signature="harness-crash")
                continue
            d = json.loads(r.stdout)
            table, ufile = d["table"], d["file"]
            out.extend(d["results"])
    by_id = {r["id"]: r for r in out}
    return by_id, table, ufile


def check_cases(ctx, cases, table_runtime_check=None):
    by_id, table, ufile = run_impl(ctx, cases)
    exprs, used = [], []
    skipped = 0
    for c in cases:
        r = by_id.get(c["id"])
        if r is None:
            continue
        if "error" in r:
            ctx.fail("correspondence", f"harness error: {r['error']}", case=c, signature="harness-error")
            continue
        e = case_expr(c, r)
        if e is None:
            skipped += 1
            continue
        exprs.append(e)
        used.append((c, r))
    vals, log = core.coq_eval(ctx.work / "cases", "case", PREAMBLE, exprs, shard=120)
    if log:
        ctx.log(log[-2000:])
    nontrivial = set()
    fired_points = set()
    for (c, r), v in zip(used, vals):
        ctx.cov["evaluations"] += 1
        if v is None:
            ctx.fail("correspondence", "Coq evaluation of the model failed", case=c, signature="coq-eval")
            continue
        mcv, mcd, mdv, mdd, viol, mviol = v
        mcd, mdd = unopt(mcd), unopt(mdd)
        fmt = c["fmt_eff"] if c["comp"] else c["fmt_name"]
        descr = (f"name={c['name']!r} fmt={c['fmtarg']!r} content={c['content']} prior={c['prior']['kind']} "
                 f"compress-fault={c['cf'] if c['comp'] else '-'} decompress-fault={c['df'] if c['dec'] else '-'} "
                 f"target={c['target']!r} tmpdir={c['tmpdir']}")
        for n in viol:
            ctx.fail("failing-input", f"{CLAUSES[n]}: {descr}; observed compress={r.get('comp')} decompress={r.get('dec')}",
                     case=c, impl={"comp": r.get("comp"), "dec": r.get("dec")},
                     model={"comp": [mcv, mcd], "dec": [mdv, mdd]},
                     signature=f"clause{n}-{fmt if fmt in ADVERTISED else 'passthrough'}")
        natural_pt = (c["comp"] and c["cf"]["kind"] in ("open_out", "open_in") and c["cf"].get("variant") == "natural"
                      and r["comp"]["yielded"] == 1)
        if mviol and sorted(table or []) == sorted(ADVERTISED):
            ctx.fail("proof", f"the model's own observations are rejected by the clause checker (clauses {mviol}): {descr}",
                     case=c, model={"comp": [mcv, mcd], "dec": [mdv, mdd]}, signature="model-vs-spec")
        if not viol and not natural_pt:
            diffs = []
            if c["comp"]:
                iv, idc = obs_comp(r["comp"])
                if True:
                    if iv != mcv or canon(idc) != canon(mcd):
                        diffs.append(f"compress: implementation {iv, idc} model {mcv, mcd}")
                    if fmt == "zip" and fmt_of(c["name"]) == "zip" and r["comp"]["decoded"] is not None \
                            and r["comp"]["member"] != member_py(c):
                        diffs.append(f"zip member {r['comp']['member']!r}, decompress will look for {member_py(c)!r}")
            # a compress block that failed while the archive was being written leaves a target of unspecified content (what the
            # failing writer had flushed: possibly nothing); what the codec makes of such a file is outside its hypothesis
            # (gzip reads an EMPTY file as an empty stream, bz2 / lzma / zipfile reject it) -- the decompress step after it is
            # judged by the clauses above only, not compared with the model's toy codec
            partial_archive = bool(c["comp"] and r["comp"].get("raised") and r["comp"].get("t_exists") and not r["comp"].get("t_same"))
            if c["dec"] and not partial_archive:
                iv, idc = obs_dec(r["dec"])
                if c["target"] == c["name"] and iv[1] == 1 and mdv[1] == 3:
                    iv[1] = 3                     # target = the archive itself: both readings of the yielded path agree
                if iv != mdv or canon(idc) != canon(mdd):
                    diffs.append(f"decompress: implementation {iv, idc} model {mdv, mdd}")
            if diffs:
                ctx.fail("correspondence", "model and implementation differ: " + "; ".join(diffs) + " -- " + descr +
                         " [order: raised, yielded(0 none/1 name/2 temp/3 target), temp entries during, left, "
                         "exists|copy gone, same bytes]", case=c,
                         impl={"comp": r.get("comp"), "dec": r.get("dec")}, model={"comp": [mcv, mcd], "dec": [mdv, mdd]},
                         signature="model-vs-impl-" + (c["cf"]["kind"] if c["comp"] and c["cf"]["kind"] != "none"
                                                       else c["df"]["kind"] if c["dec"] else "none"))
        cfired = c["comp"] and r["comp"].get("fired") and c["cf"]["kind"] != "none"
        dfired = c["dec"] and r["dec"].get("fired") and c["df"]["kind"] != "none"
        if cfired:
            fired_points.add(("compress", fmt, c["cf"]["kind"], c["cf"].get("variant", ""), str(c["cf"].get("j", ""))))
        if dfired:
            fired_points.add(("decompress", c["fmt_name"], c["df"]["kind"], c["df"].get("variant", ""),
                              str(c["df"].get("j", c["df"].get("after_read", "")))))
        if cfired or dfired or (c["comp"] and c["dec"] and c["b"]) or c["prior"]["kind"] not in ("none", "raw"):
            nontrivial.add(json.dumps({k: c[k] for k in ("name", "content", "prior", "comp", "fmtarg", "cf", "dec",
                                                         "target", "df", "tmpdir")}, sort_keys=True))
        if c["id"] % 97 == 0:
            ctx.sample({"case": {k: c[k] for k in ("name", "content", "fmtarg", "cf", "df", "target")},
                        "observed": {"comp": r.get("comp"), "dec": r.get("dec")}}, limit=6)
    not_fired = [(c["id"], c["cf"]["kind"] if c["comp"] else "", c["df"]["kind"] if c["dec"] else "")
                 for c, r in used
                 if (c["comp"] and c["cf"]["kind"] != "none" and not r["comp"].get("fired")
                     and c["fmt_eff"] in (table or []))
                 or (c["dec"] and c["df"]["kind"] != "none" and not r["dec"].get("fired")
                     and c["fmt_name"] in (table or []) and not (c["comp"] and r["comp"]["raised"]))]
    return len(nontrivial), fired_points, skipped, not_fired, table, ufile


def member_py(c):
    """the member decompress will look for (independent of the code): basename without the last extension"""
    return member_of(c["name"])


# ----------------------------------------------------------------------------- histories of several blocks
# (Model/C12_nested.v; theorems nested_blocks_independent / nested_blocks_no_debris)

TMPHINT = {"explicit": "T", "default": "D"}
WHERE = {"work": "W/", "explicit": "T/", "default": "D/"}


def with_uses(order, skip_write=()):
    """insert a Use of every open block after each Enter / Leave (a compress block in skip_write never writes)"""
    evs, opened = [], []
    for e in order:
        evs.append(list(e))
        if e[0] == "E" and e[1] not in opened:
            opened.append(e[1])
        elif e[0] == "L" and e[1] in opened:
            opened.remove(e[1])
        for i in sorted(opened):
            if i not in skip_write:
                evs.append(["U", i])
    return evs


def archive_file(name, tokens, watch=True, **kw):
    d = {"where": "work", "path": name, "kind": "archive", "fmt": fmt_of(name), "member": member_of(name),
         "tokens": list(tokens), "watch": watch}
    d.update(kw)
    return d


def bystander(where, path, tokens):
    return {"where": where, "path": path, "kind": "raw", "tokens": list(tokens), "watch": True}


class HistBuilder:
    """allocates content tokens that are unique within one history"""

    def __init__(self, rng_seed):
        self.tokblocks = {}
        self.nexttok = 1
        self.seed = rng_seed

    def content(self, *sizes, kind="rand"):
        toks = []
        for sz in sizes:
            t = self.nexttok
            self.nexttok += 1
            self.tokblocks[str(t)] = {"kind": kind, "size": int(sz) + t, "seed": self.seed * 1000 + t}
            toks.append(t)
        return toks


def dec_block(name, tmpdir):
    return {"kind": "dec", "name": name, "tmpdir": tmpdir}


def comp_block(name, b, tmpdir, fmtarg=None):
    return {"kind": "comp", "name": name, "tmpdir": tmpdir, "fmtarg": fmtarg, "b": list(b),
            "fmt_eff": fmtarg if fmtarg is not None else fmt_of(name)}


NEST2 = {
    "nested": lambda e0, e1: [("E", 0), ("E", 1), ("L", 1, e1), ("L", 0, e0)],
    "overlapping": lambda e0, e1: [("E", 0), ("E", 1), ("L", 0, e0), ("L", 1, e1)],
    "sequential": lambda e0, e1: [("E", 0), ("L", 0, e0), ("E", 1), ("L", 1, e1)],
}


def gen_hists(ctx, first_id):
    hists = []

    def add(label, hb, blocks, events, files):
        for b in blocks:
            assert "/tmp" not in "W/" + b["name"]       # hypothesis user_names_ok of the theorem (istmp0)
        hists.append({"id": first_id + len(hists), "hist": True, "label": label, "blocks": blocks,
                      "events": [list(e) for e in events], "files": files, "tokblocks": hb.tokblocks})

    def hb():
        return HistBuilder(first_id + len(hists) + 1)

    EXC = [(False, False), (True, False), (False, True), (True, True)]
    for f in ADVERTISED:
        a, b = f"2020/01/orbit.dat.{f}", f"2020/02/orbit.dat.{f}"
        # (H1) two decompress blocks, the same name in different directories
        for tds in (("explicit", "explicit"), ("default", "default"), ("explicit", "default")):
            for shape in ("nested", "overlapping", "sequential"):
                for (e0, e1) in (EXC if tds[0] == tds[1] and shape != "sequential" else EXC[:1]):
                    h = hb()
                    ca, cb = h.content(300, 70000 if f == "gz" and shape == "nested" else 50), h.content(200)
                    add(f"two decompress blocks, same name in two directories, {shape}, tmpdir {tds}, exceptions {e0, e1}",
                        h, [dec_block(a, tds[0]), dec_block(b, tds[1])], with_uses(NEST2[shape](e0, e1)),
                        [archive_file(a, ca), archive_file(b, cb)])
        # (H3) the same archive twice
        h = hb()
        ca = h.content(120)
        add("the same archive in two nested decompress blocks", h, [dec_block(a, "explicit"), dec_block(a, "explicit")],
            with_uses(NEST2["nested"](False, False)), [archive_file(a, ca)])
        # (H4) three blocks with the same stem
        c = f"2020/03/orbit.dat.{f}"
        for td in ("explicit", "default"):
            for label, order in (("nested", [("E", 0), ("E", 1), ("E", 2), ("L", 2, False), ("L", 1, True), ("L", 0, False)]),
                                 ("first in first out", [("E", 0), ("E", 1), ("E", 2), ("L", 0, False), ("L", 1, False), ("L", 2, True)]),
                                 ("middle first", [("E", 0), ("E", 1), ("E", 2), ("L", 1, False), ("L", 2, False), ("L", 0, False)])):
                h = hb()
                ca, cb, cc = h.content(100), h.content(0) if label == "nested" else h.content(40, 40), h.content(900)
                if label == "nested":
                    cb = []                                     # an archive of nothing
                add(f"three decompress blocks with the same stem, {label}, tmpdir {td}", h,
                    [dec_block(a, td), dec_block(b, td), dec_block(c, td)], with_uses(order),
                    [archive_file(a, ca), archive_file(b, cb), archive_file(c, cc)])
        # (H5) bystanders in the temporary directory: the stem, the archive's name, 'temp', ...
        for td in ("explicit", "default"):
            for nblocks in (1, 2):
                h = hb()
                ca, cb = h.content(64), h.content(65)
                by = [bystander(td, nm, h.content(10)) for nm in ("orbit.dat", f"orbit.dat.{f}", "temp", "orbit", "copy.bin")]
                blocks = [dec_block(a, td), dec_block(b, td)][:nblocks]
                order = [("E", 0), ("L", 0, False)] if nblocks == 1 else NEST2["nested"](False, True)
                add(f"{nblocks} decompress block(s) beside bystanders named like the stem / the archive / 'temp' in tmpdir {td}",
                    h, blocks, with_uses(order), [archive_file(a, ca), archive_file(b, cb)] + by)
            h = hb()
            cw = h.content(80)
            by = [bystander(td, nm, h.content(10)) for nm in ("out.dat", f"out.dat.{f}", "temp")]
            add(f"a compress block beside bystanders in tmpdir {td}", h, [comp_block(f"new/out.dat.{f}", cw, td)],
                with_uses([("E", 0), ("L", 0, False)]), by)
        # (H6) compress blocks on targets with the same base name in different directories
        ta, tb = f"a.d/out.dat.{f}", f"b.d/out.dat.{f}"
        for td in ("explicit", "default"):
            for shape in ("nested", "overlapping"):
                for (e0, e1) in EXC:
                    h = hb()
                    ca, cb, old = h.content(500, 20), h.content(30), h.content(15)
                    add(f"two compress blocks, same base name, {shape}, tmpdir {td}, exceptions {e0, e1}", h,
                        [comp_block(ta, ca, td), comp_block(tb, cb, td)], with_uses(NEST2[shape](e0, e1)),
                        [archive_file(tb, old, watch=False)] if e1 else [])
        # (H7) a compress block inside a decompress block of the same stem (and the other way round)
        for td in ("explicit", "default"):
            for tgt, lab in ((f"new/orbit.dat.{f}", "a new target with the same base name"), (a, "the archive that is being read")):
                for e1 in (False, True):
                    h = hb()
                    ca, cw = h.content(210), h.content(77)
                    add(f"a compress block onto {lab} inside a decompress block, exception in the compress body {e1}, tmpdir {td}",
                        h, [dec_block(a, td), comp_block(tgt, cw, td)], with_uses(NEST2["nested"](False, e1)),
                        [archive_file(a, ca, watch=(tgt != a))])
            h = hb()
            ca, cw = h.content(33), h.content(44)
            add(f"a decompress block inside a compress block of the same stem, tmpdir {td}", h,
                [comp_block(f"new/orbit.dat.{f}", cw, td), dec_block(a, td)], with_uses(NEST2["overlapping"](False, False)),
                [archive_file(a, ca)])
        # (H8) the inner block cannot be entered (missing / damaged archive); a compress block that writes nothing
        for kind in ("missing", "garbage"):
            h = hb()
            ca = h.content(90)
            files = [archive_file(a, ca)]
            if kind == "garbage":
                files.append({"where": "work", "path": b, "kind": "garbage", "read_fmt": f, "watch": True})
            add(f"inner decompress block on a {kind} archive of the same stem", h,
                [dec_block(a, "explicit"), dec_block(b, "explicit")], with_uses(NEST2["nested"](False, False)), files)
        h = hb()
        ca, cw = h.content(12), h.content(13)
        add("inner compress block that writes nothing", h, [dec_block(a, "explicit"), comp_block(f"new/orbit.dat.{f}", cw, "explicit")],
            with_uses(NEST2["nested"](False, False), skip_write=(1,)), [archive_file(a, ca)])
    # (H2) the same stem with different compression suffixes in one directory
    for (x, y) in (("scene.gz", "scene.bz2"), ("d.v1/scene.x.zip", "d.v1/scene.x.xz"), ("s.xz", "s.gz"), ("p/q.bz2", "p/q.zip")):
        for td in ("explicit", "default"):
            for shape in ("nested", "overlapping"):
                h = hb()
                ca, cb = h.content(150), h.content(151)
                add(f"two decompress blocks, same stem / different suffixes, {shape}, tmpdir {td}", h,
                    [dec_block(x, td), dec_block(y, td)], with_uses(NEST2[shape](False, shape == "nested")),
                    [archive_file(x, ca), archive_file(y, cb)])
    # (H9) names that are passed through among the others
    h = hb()
    ca, cr, cw = h.content(20), h.content(21), h.content(22)
    add("passed-through names among compressed ones", h,
        [dec_block("2020/01/orbit.dat.gz", "explicit"), dec_block("2020/02/orbit.dat", "explicit"),
         comp_block("2020/03/orbit.dat", cw, "explicit")],
        with_uses([("E", 0), ("E", 1), ("E", 2), ("L", 1, False), ("L", 2, False), ("L", 0, False)]),
        [archive_file("2020/01/orbit.dat.gz", ca), {"where": "work", "path": "2020/02/orbit.dat", "kind": "raw", "tokens": cr, "watch": True}])
    # (H10) random histories: 2-4 blocks over a small pool of names that share stems, random interleavings, a few events
    # on blocks that are not open
    rng = ctx.rng
    for _ in range(ctx.n(120, 3000)):
        h = hb()
        f = rng.choice(ADVERTISED)
        g = rng.choice(ADVERTISED)
        pool = [f"2020/01/orbit.dat.{f}", f"2020/02/orbit.dat.{f}", f"2020/02/orbit.dat.{g}", f"2020/01/orbit.{f}",
                f"x/scene.{g}", f"y/scene.{f}"]
        nb = rng.choice([2, 2, 3, 3, 4])
        blocks, files, have = [], [], {}
        for i in range(nb):
            td = rng.choice(["explicit", "explicit", "default"])
            if rng.random() < 0.7:
                nm = rng.choice(pool)
                blocks.append(dec_block(nm, td))
                if nm not in have and rng.random() < 0.92:
                    have[nm] = h.content(rng.choice([1, 30, 2000]), *([rng.choice([5, 500])] if rng.random() < 0.3 else []))
            else:
                nm = rng.choice(pool + [f"new/orbit.dat.{f}", f"new2/orbit.dat.{f}"])
                blocks.append(comp_block(nm, h.content(rng.choice([1, 40, 3000])), td))
        targets = {b["name"] for b in blocks if b["kind"] == "comp"}
        files = [archive_file(nm, toks, watch=nm not in targets) for nm, toks in have.items()]
        for td in ("explicit", "default"):
            if rng.random() < 0.35:
                files.append(bystander(td, rng.choice(["orbit.dat", "orbit", "scene", "temp", f"orbit.dat.{f}"]), h.content(9)))
        seenby = set()
        files = [fl for fl in files if not ((fl["where"], fl["path"]) in seenby or seenby.add((fl["where"], fl["path"])))]
        state = {i: 0 for i in range(nb)}          # 0 not entered, 1 open, 2 left
        evs = []
        for _step in range(rng.randint(2 * nb, 5 * nb + 4)):
            i = rng.randrange(nb)
            if rng.random() < 0.08:
                evs.append(rng.choice([["U", i], ["L", i, False], ["E", i]]))       # possibly on a block that is not open
                if evs[-1][0] == "E" and state[i] != 1:
                    state[i] = 1
                elif evs[-1][0] == "L" and state[i] == 1:
                    state[i] = 2
                continue
            if state[i] == 0 or (state[i] == 2 and rng.random() < 0.3):
                evs.append(["E", i])
                state[i] = 1
            elif state[i] == 1:
                if rng.random() < 0.6:
                    evs.append(["U", i])
                else:
                    evs.append(["L", i, rng.random() < 0.3])
                    state[i] = 2
        for i in range(nb):
            if state[i] == 1:
                if rng.random() < 0.8:
                    evs.append(["U", i])
        for i in rng.sample(range(nb), nb):
            evs.append(["L", i, False])
        add("random history", h, blocks, evs, files)
    return hists


def s2l(x):
    return f"(s2l {qs(x)})"


def hist_expr(c):
    bl = []
    for b in c["blocks"]:
        if b["kind"] == "dec":
            bl.append(f"(BDec {s2l('W/' + b['name'])} {s2l(TMPHINT[b['tmpdir']])})")
        else:
            fa = "None" if b["fmtarg"] is None else f"(Some {s2l(b['fmtarg'])})"
            bl.append(f"(BComp {s2l('W/' + b['name'])} {fa} {zlist(b['b'])} {s2l(TMPHINT[b['tmpdir']])})")
    evs = []
    for e in c["events"]:
        if e[0] == "E":
            evs.append(f"(Enter {int(e[1])}%nat)")
        elif e[0] == "U":
            evs.append(f"(Use {int(e[1])}%nat)")
        else:
            evs.append(f"(Leave {int(e[1])}%nat {core.coq_bool(e[2])})")
    fs, watched = [], []
    for fl in c["files"]:
        path = WHERE[fl["where"]] + fl["path"]
        if fl["kind"] == "archive":
            fs.append(f"({s2l(path)}, toy_enc {s2l(fl['fmt'])} {s2l(fl['member'])} {zlist(fl['tokens'])})")
        elif fl["kind"] == "raw":
            fs.append(f"({s2l(path)}, {zlist(fl['tokens'])})")
        else:
            fs.append(f"({s2l(path)}, [(-1)])")
        if fl.get("watch"):
            watched.append(s2l(path))
    return (coq_list(bl), coq_list(evs), coq_list(fs), coq_list(watched))


def check_hists(ctx, hists):
    by_id, table, ufile = run_impl(ctx, hists)
    exprs, used = [], []
    for c in hists:
        r = by_id.get(c["id"])
        if r is None:
            continue
        if "error" in r:
            ctx.fail("correspondence", f"harness error: {r['error']}", case=c, signature="harness-error")
            continue
        bl, evs, fs, watched = hist_expr(c)
        codes = coq_list([zlist(x) for x in r["codes"]])
        watch = coq_list([zlist(x) for x in r["watch"]])
        targets = coq_list([opt_zs(x) for x in r["targets"]])
        exprs.append(f"eval_hist known_compressions {bl} {evs} {fs} {watched} {codes} {watch} {targets}")
        used.append((c, r))
    vals, log = core.coq_eval(ctx.work / "cases", "hist", PREAMBLE, exprs, shard=60)
    if log:
        ctx.log(log[-2000:])
    nontrivial = set()
    shapes = {}
    for (c, r), v in zip(used, vals):
        ctx.cov["evaluations"] += 1
        if v is None:
            ctx.fail("correspondence", "Coq evaluation of the model failed", case=c, signature="coq-eval")
            continue
        mcodes, mwatch, mtargets, viol, mviol = v
        mtargets = [unopt(x) for x in mtargets]
        descr = (f"{c['label']}: blocks={[(b['kind'], b['name'], b['tmpdir']) for b in c['blocks']]} "
                 f"events={c['events']} files={[(f['where'], f['path'], f['kind']) for f in c['files']]}")
        fmts = sorted({(b["fmt_eff"] if b["kind"] == "comp" else fmt_of(b["name"])) for b in c["blocks"]})
        for n in sorted(set(viol)):
            ctx.fail("failing-input", f"{CLAUSES[n]}: {descr}; observed per event [temporary entries, code...]={r['codes']} "
                     f"files [exists, same]={r['watch']} targets={r['targets']}",
                     case=c, impl={"codes": r["codes"], "watch": r["watch"], "targets": r["targets"]},
                     model={"codes": mcodes, "watch": mwatch, "targets": mtargets},
                     signature=f"clause{n}-{'+'.join(f if f in ADVERTISED else 'passthrough' for f in fmts)}"[:60])
        if mviol and sorted(table or []) == sorted(ADVERTISED):
            ctx.fail("proof", f"the model's own observations of a history are rejected by the laws (clauses {mviol}): {descr}",
                     case=c, model={"codes": mcodes, "watch": mwatch, "targets": mtargets}, signature="model-vs-spec-hist")
        if not viol:
            icodes = [[x[0]] + (x[1:3] + canon(x[3:]) if x[1:3] == [2, 1] else x[1:]) for x in r["codes"]]
            mcodes_c = [[x[0]] + (x[1:3] + canon(x[3:]) if x[1:3] == [2, 1] else x[1:]) for x in mcodes]
            diffs = []
            if icodes != mcodes_c:
                k = next((j for j, (x, y) in enumerate(zip(icodes, mcodes_c)) if x != y), None)
                diffs.append(f"event {k} {c['events'][k] if k is not None else ''}: implementation {icodes[k] if k is not None else icodes} "
                             f"model {mcodes_c[k] if k is not None else mcodes_c}")
            if r["watch"] != mwatch:
                diffs.append(f"files [exists, same]: implementation {r['watch']} model {mwatch}")
            if [canon(x) for x in r["targets"]] != [canon(x) for x in mtargets]:
                diffs.append(f"targets: implementation {r['targets']} model {mtargets}")
            if diffs:
                ctx.fail("correspondence", "model and implementation differ on a history of several blocks: " + "; ".join(diffs)
                         + " -- " + descr + " [per event: temporary entries alive, then 0 skipped | 1 raised yielded | 2 0 no file | "
                         "2 1 tokens read | 3 written | 4 raised]", case=c,
                         impl={"codes": r["codes"], "watch": r["watch"], "targets": r["targets"]},
                         model={"codes": mcodes, "watch": mwatch, "targets": mtargets}, signature="model-vs-impl-history")
        peak = max((x[0] for x in r["codes"]), default=0)
        if peak >= 2 or any(f["where"] != "work" for f in c["files"]):
            nontrivial.add(json.dumps({k: c[k] for k in ("blocks", "events", "files")}, sort_keys=True))
        key = c["label"].split(",")[0]
        shapes[key] = shapes.get(key, 0) + 1
        if c["id"] % 53 == 0:
            ctx.sample({"history": {k: c[k] for k in ("label", "blocks", "events")}, "observed": r["codes"]}, limit=9)
    return len(nontrivial), shapes


# ----------------------------------------------------------------------------- names

def check_names(ctx):
    rng = ctx.rng
    names = [p.format(f=f) for p in NAMES_FMT for f in ADVERTISED] + NAMES_PASS + \
            ["", ".", "..", "/", "a/", "a/.", "a/..", "a.b/", "/.gz", "a/b.c/d", "a.b.", "....", ".a.b", "..a", "a/..b.gz"]
    alpha = "ab.g/z. x."
    for _ in range(ctx.n(300, 4000)):
        names.append("".join(rng.choice(alpha) for _ in range(rng.randint(0, 9))))
    fmts = ADVERTISED + ["", ".xz", "z", "ar.gz"]
    exprs = []
    for nm in names:
        f = fmts[len(exprs) % len(fmts)]
        exprs.append(f"(let p := s2l {qs(nm)} in [string_of_list_ascii (fst (splitext p)); string_of_list_ascii (snd (splitext p)); "
                     f"string_of_list_ascii (basename p); string_of_list_ascii (fmt_of_name p); "
                     f"string_of_list_ascii (member_d p); string_of_list_ascii (member_c p (s2l {qs(f)}))])")
    vals, log = core.coq_eval(ctx.work / "cases", "names", PREAMBLE, exprs, shard=400)
    if log:
        ctx.log(log[-1500:])
    for i, (nm, v) in enumerate(zip(names, vals)):
        ctx.cov["evaluations"] += 1
        f = fmts[i % len(fmts)]
        base, ext = os.path.splitext(nm)
        tf = os.path.basename(nm)
        tb, te = os.path.splitext(tf)
        expect = [base, ext, os.path.basename(nm), ext.lstrip("."), os.path.basename(base), tb if te.endswith(f) else tf]
        if v != expect:
            ctx.fail("correspondence", f"string model differs from Python for name {nm!r} fmt {f!r}: Coq {v} Python {expect}",
                     case={"name_only": nm, "fmt": f}, signature="names")
    return len(set(names))


# ----------------------------------------------------------------------------- entry points

def prepare(ctx):
    keys, why = translate_table(ctx)
    if keys is None:
        ctx.fail("translation", f"_known_compressions of {core.REPO}/typhon/files/utils.py could not be translated: {why}",
                 obligation="coq/gen/C12_formats.v", signature="translation")
        keys = []
    write_gen(keys)
    return keys


def cross_device_probe(ctx):
    """Directed: an explicit tmpdir on ANOTHER file system than the target (a RAM disk for the scratch data, the archive on disk):
    the round trip returns the bytes written and nothing remains in either place.  Skipped (and recorded) when the machine offers
    no second writable file system."""
    import subprocess
    cands = [d for d in ("/dev/shm", "/run/shm", "/var/tmp") if os.path.isdir(d) and os.access(d, os.W_OK)]
    here = tempfile.mkdtemp(prefix="verif_c12_xdev_")
    other = next((d for d in cands if os.stat(d).st_dev != os.stat(here).st_dev), None)
    ctx.cov["cross_device_tmpdir"] = other or "no second writable file system"
    if other is None:
        shutil.rmtree(here, ignore_errors=True)
        return
    scratch = tempfile.mkdtemp(prefix="verif_c12_xdev_", dir=other)
    code = (
        "import os, sys, json\n"
        "from typhon.files.utils import compress, decompress\n"
        "here, scratch = sys.argv[1], sys.argv[2]\n"
        "out = {}\n"
        "for fmt in ('gz', 'bz2', 'xz', 'zip'):\n"
        "    name = os.path.join(here, 'orbit.dat.' + fmt)\n"
        "    data = (fmt * 5000).encode()\n"
        "    try:\n"
        "        with compress(name, tmpdir=scratch) as f:\n"
        "            open(f, 'wb').write(data)\n"
        "        with decompress(name, tmpdir=scratch) as f:\n"
        "            back = open(f, 'rb').read()\n"
        "        out[fmt] = 'ok' if back == data else 'other bytes'\n"
        "    except BaseException as e:\n"
        "        out[fmt] = 'ERR %s: %s' % (type(e).__name__, str(e)[:100])\n"
        "out['left_in_tmpdir'] = sorted(os.listdir(scratch))\n"
        "print(json.dumps(out))\n")
    try:
        e = dict(os.environ)
        e.update({"PYTHONPATH": str(core.REPO), "PYTHONWARNINGS": "ignore"})
        pr = subprocess.run([core.PY, "-W", "ignore", "-c", code, here, scratch], capture_output=True, text=True, env=e, timeout=300)
        ctx.cov["evaluations"] += 1
        try:
            got = json.loads(pr.stdout.strip().splitlines()[-1])
        except Exception:  # noqa
            ctx.fail("correspondence", f"cross-device probe gave no result: {pr.stderr[-300:]}", signature="cross-device-run")
            return
        badf = {k_: v_ for k_, v_ in got.items() if k_ != "left_in_tmpdir" and v_ != "ok"}
        if badf or got["left_in_tmpdir"]:
            ctx.fail("failing-input", f"compress / decompress with tmpdir on another file system ({other}) than the target: {badf or ''} "
                     f"{'left in tmpdir: ' + str(got['left_in_tmpdir']) if got['left_in_tmpdir'] else ''}", case={"tmpdir_on": other, "observed": got},
                     signature="cross-device-tmpdir")
    finally:
        shutil.rmtree(here, ignore_errors=True)
        shutil.rmtree(scratch, ignore_errors=True)


def run(ctx):
    cross_device_probe(ctx)
    keys = prepare(ctx)
    ctx.prove("Props/C12.v")
    core.coq_build([GENFILE, core.THEORIES / "Model" / "C12_compress.v"])
    cases = gen_cases(ctx)
    nnames = check_names(ctx)
    hists = gen_hists(ctx, len(cases))
    nt, fired, skipped, not_fired, table, ufile = check_cases(ctx, cases)
    nth, hshapes = check_hists(ctx, hists)
    if table is not None and sorted(keys) != sorted(table):
        ctx.fail("translation", f"translated key set {sorted(keys)} differs from the table of the imported module {table}",
                 obligation="coq/gen/C12_formats.v", signature="translation")
    if ufile and not str(ufile).startswith(str(core.REPO)):
        ctx.fail("correspondence", f"the child imported {ufile}, not the tree under test {core.REPO}", signature="wrong-tree")
    ctx.add_obligation("translation of _known_compressions", bool(keys) and (table is None or sorted(keys) == sorted(table)),
                       f"keys {keys}")
    ctx.cov["distinct_nontrivial"] = nt + nth
    ctx.cov["rule"] = ("a case is one history on a private sandbox: optional prior file, `with compress(name, fmt, tmpdir)` writing "
                       "the content, `with decompress(name, tmpdir, target)` reading it, each with at most one injected fault; "
                       "non-trivial = an injected fault fired, or a compress+decompress round trip of non-empty content, or a "
                       "pre-existing archive (genuine, truncated, corrupted, foreign); distinct by the whole case description.  "
                       "A history is a list of enter / use / leave events over 1-4 compress / decompress blocks on one sandbox "
                       "(context managers entered and left by hand, so that blocks overlap in any order); non-trivial = at least "
                       "two temporary entries were alive at the same time, or bystander files lay in a temporary directory")
    ctx.cov["input_distribution"] = {
        "cases": len(cases), "names_compared_with_os.path": nnames,
        "histories_of_several_blocks": len(hists), "nontrivial_histories": nth, "history_families": hshapes,
        "formats": {f: sum(1 for c in cases if (c["fmt_eff"] if c["comp"] else c["fmt_name"]) == f) for f in ADVERTISED},
        "passthrough_names": sum(1 for c in cases if fmt_of(c["name"]) not in ADVERTISED),
        "contents": {k: sum(1 for c in cases if c["content"] == k) for k in CONTENT},
        "injection_points_fired": len(fired),
        "injection_points": sorted("/".join(p) for p in fired),
        "injections_not_fired": not_fired[:20],
        "skipped_undamaged_archives": skipped,
        "copy_chunk": "contents up to 1.35 MB; the 100 MiB copy chunk is never exceeded (not covered)",
    }
    ctx.assumptions += [
        "codec hypothesis of the round-trip theorems: dec fmt member (enc fmt member b) = b (standard library codecs)",
        "one fault per with-block; cleanup primitives (TemporaryDirectory.__exit__, os.unlink) themselves do not fail",
        "the block writes the yielded path with ordinary file operations and does not remove it itself",
        "property clauses 3, 4, 7 are checked for the four advertised formats (suffix or fmt=), clauses 2 and 8 for all other names",
        "histories of several blocks (nested_blocks_independent): tempfile.NamedTemporaryFile / TemporaryDirectory return names that "
        "do not exist (fresh_file_ok / fresh_dir_ok) and the caller's names are not such names (no generated name contains '/tmp'); "
        "blocks are entered, used and left one event at a time in one thread (no preemption inside a phase)",
    ]
    return ctx.finish(trusted_base=TRUSTED)


def replay(ctx, rec):
    case = rec.get("case")
    keys = prepare(ctx)
    core.coq_build([GENFILE, core.THEORIES / "Model" / "C12_compress.v"])
    if not case:
        print("this record names an obligation, not a case; re-run ./check C12", rec.get("tier", "quick"))
        ctx.prove("Props/C12.v")
    elif "name_only" in case:
        check_names(ctx)
    elif case.get("hist"):
        check_hists(ctx, [case])
    else:
        check_cases(ctx, [case])
    for f in ctx.failures:
        print("still fails:", f.what[:400])
    return 1 if ctx.failures else 0
