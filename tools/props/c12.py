"""C12 -- compress / decompress round-trip any content and never leave debris.

Theorems: coq/theories/Props/C12.v, about the executable model coq/theories/Model/C12_compress.v
(control structure of compress / compress_as / decompress as a function of the primitive step that
raises; codecs are Section variables) and about the TRANSLATED key set of `_known_compressions`
(coq/gen/C12_formats.v, regenerated from the tree under test on every run).

Tie: tools/harness/c12_run.py runs the real code in a child process on every injection point x format
(exhaustively in both tiers) and on generated names / contents / priors; the model AND the property's
clause checker (spec_case, proved to accept the model: theorem model_meets_spec) are evaluated inside
Coq on the same cases.  A case on which the clause checker rejects the implementation's observations
is a failing input of the property; a case where only model and implementation differ is a
correspondence break.
"""
import ast
import json
import os
import os.path
import tempfile
from pathlib import Path

from lib import core
from lib.core import coq_list, zlist

HARNESS = core.VERIF / "tools" / "harness" / "c12_run.py"
GENFILE = core.GEN / "C12_formats.v"
PREAMBLE = ("From Typhon Require Import Model.C12_compress.\n"
            "From TyphonGen Require Import C12_formats.\n")
ADVERTISED = ["gz", "bz2", "zip", "xz"]
TRUSTED = [
    "correspondence harness tools/props/c12.py + tools/harness/c12_run.py (generators, fault injection by wrapping "
    "utils.open / utils.tempfile / the compressor table / shutil.copyfileobj, directory listings, token mapping of contents)",
    "the extractor of the `_known_compressions` key set (Python ast, fail-closed, cross-checked with the table of the imported module)",
    "gzip / bz2 / lzma / zipfile of the standard library: dec(enc b) = b is a hypothesis of the round-trip theorem, "
    "exercised on every case by opening the stored file with the standard library",
    "os.path.splitext / basename, str.lstrip / endswith: modelled on character lists, compared with Python on generated names",
    "tempfile.TemporaryDirectory removes its directory on every exit of the with-statement; os.unlink removes the file (modelled, exercised)",
]


def qs(s):
    return core.coq_string(s) + "%string"


def opt_s(s):
    return "None" if s is None else f"(Some {qs(s)})"


def opt_zs(x):
    return "None" if x is None else f"(Some {zlist(x)})"


# ----------------------------------------------------------------------------- translation of the table

def translate_table(ctx):
    """Key set of `_known_compressions` from the source text (dict literal + constant-key item
    assignments anywhere at module level); None if the shape is not understood."""
    src = core.REPO / "typhon" / "files" / "utils.py"
    try:
        tree = ast.parse(src.read_text())
    except Exception as e:  # noqa
        return None, f"cannot parse {src}: {e}"
    keys, problems = None, []

    def is_tbl(n):
        return isinstance(n, ast.Name) and n.id == "_known_compressions"

    def visit(stmts):
        nonlocal keys
        for s in stmts:
            if isinstance(s, ast.Assign):
                for t in s.targets:
                    if is_tbl(t):
                        if not isinstance(s.value, ast.Dict) or keys is not None:
                            problems.append(f"line {s.lineno}: table not a single dict literal")
                            continue
                        keys = []
                        for k in s.value.keys:
                            if isinstance(k, ast.Constant) and isinstance(k.value, str):
                                keys.append(k.value)
                            else:
                                problems.append(f"line {s.lineno}: non-constant key")
                    elif isinstance(t, ast.Subscript) and is_tbl(t.value):
                        k = t.slice
                        if isinstance(k, ast.Constant) and isinstance(k.value, str) and keys is not None:
                            if k.value not in keys:
                                keys.append(k.value)
                        else:
                            problems.append(f"line {s.lineno}: non-constant item assignment")
            elif isinstance(s, (ast.AugAssign, ast.Delete)):
                for n in ast.walk(s):
                    if is_tbl(n):
                        problems.append(f"line {s.lineno}: table mutated")
            elif isinstance(s, ast.Expr):
                for n in ast.walk(s):
                    if is_tbl(n):
                        problems.append(f"line {s.lineno}: table used in an expression statement")
            elif isinstance(s, ast.Try):
                visit(s.body)
                visit(s.orelse)
                visit(s.finalbody)
                for h in s.handlers:
                    visit(h.body)
            elif isinstance(s, (ast.If,)):
                visit(s.body)
                visit(s.orelse)
            elif isinstance(s, ast.With):
                visit(s.body)
    visit(tree.body)
    if keys is None:
        problems.append("no dict literal assigned to _known_compressions")
    if problems:
        return None, "; ".join(problems)
    return keys, ""


def write_gen(keys):
    text = ("(* GENERATED by tools/props/c12.py from typhon/files/utils.py of the tree under test. *)\n"
            "From Coq Require Import String List.\nImport ListNotations.\n"
            "Definition known_compressions : list string := "
            + coq_list([qs(k) for k in keys]) + ".\n")
    core.GEN.mkdir(exist_ok=True)
    if not GENFILE.exists() or GENFILE.read_text() != text:
        GENFILE.write_text(text)


# ----------------------------------------------------------------------------- cases

CONTENT = {
    # class: (tokens, {token: (kind, size)})
    "empty": ([], {}),
    "one": ([1], {1: ("rand", 1)}),
    "ascii": ([1, 2, 3], {1: ("ascii", 37), 2: ("ascii", 5), 3: ("ascii", 120)}),
    "binary": ([1, 2, 3], {1: ("allbytes", 70000), 2: ("rand", 3000), 3: ("rand", 66000)}),
    "compressed": ([1, 2], {1: ("gzipped", 5000), 2: ("xzipped", 3000)}),
    "zeros": ([1, 2], {1: ("zeros", 200000), 2: ("rand", 10)}),
    "big": ([1, 2, 3], {1: ("rand", 450000), 2: ("zeros", 450000), 3: ("rand", 450000)}),
}
PRIOR_BLOCKS = {101: ("rand", 50), 102: ("ascii", 20)}


def fmt_of(name):
    return os.path.splitext(name)[1].lstrip(".")


def member_of(name):
    return os.path.basename(os.path.splitext(name)[0])


def mk_case(k, name, content="ascii", prior=None, comp=True, fmtarg=None, cf=None, dec=False, target=None,
            df=None, tmpdir="explicit", seed=0):
    tokens, bl = CONTENT[content]
    blocks = {str(t): {"kind": kd, "size": sz, "seed": seed * 1000 + t} for t, (kd, sz) in bl.items()}
    for t, (kd, sz) in PRIOR_BLOCKS.items():
        blocks[str(t)] = {"kind": kd, "size": sz, "seed": seed * 1000 + t}
    prior = dict(prior or {"kind": "none"})
    if prior["kind"] in ("archive", "truncated", "flipped", "wrongformat", "raw") and "tokens" not in prior:
        prior["tokens"] = [101, 102]
    if prior["kind"] in ("archive", "truncated", "flipped", "wrongformat"):
        prior.setdefault("fmt", fmt_of(name))
        prior.setdefault("member", member_of(name))
    if prior["kind"] not in ("none", "raw"):
        prior.setdefault("read_fmt", fmt_of(name))
    fmt_eff = fmtarg if fmtarg is not None else fmt_of(name)
    return {"id": k, "name": name, "content": content, "b": list(tokens), "blocks": blocks, "prior": prior,
            "comp": bool(comp), "fmtarg": fmtarg, "fmt_eff": fmt_eff, "fmt_name": fmt_of(name),
            "cf": cf or {"kind": "none"}, "dec": bool(dec), "target": target, "df": df or {"kind": "none"},
            "tmpdir": tmpdir}


def compress_faults(fmt, ntok):
    mid = 1 if ntok >= 2 else 0
    fl = [{"kind": "mkdtemp", "variant": "natural"}, {"kind": "mkdtemp", "variant": "patched", "exc": "OSError"}]
    for j in sorted({None, 0, mid, ntok}, key=lambda x: -1 if x is None else x):
        for exc in ("Exception", "KeyboardInterrupt"):
            fl.append({"kind": "body", "j": j, "exc": exc})
    fl.append({"kind": "body", "j": mid, "exc": "BaseException"})
    fl += [{"kind": "open_in", "variant": "natural"}, {"kind": "open_in", "variant": "patched", "exc": "OSError"},
           {"kind": "open_out", "variant": "natural"}, {"kind": "open_out", "variant": "patched", "exc": "OSError"}]
    if fmt == "gz":
        fl.append({"kind": "wrap", "exc": "OSError"})
    for j in sorted({0, mid}):
        fl.append({"kind": "copy", "j": j, "exc": "OSError"})
    fl.append({"kind": "copy", "j": mid, "exc": "KeyboardInterrupt"})
    fl.append({"kind": "close", "exc": "OSError"})
    return fl


def decompress_faults(payload):
    mid = 1 if len(payload) >= 2 else 0
    fl = [{"kind": "mktemp", "variant": "natural"}, {"kind": "mktemp", "variant": "patched", "exc": "OSError"},
          {"kind": "open", "variant": "patched", "exc": "OSError"}]
    for j in sorted({0, mid}):
        fl.append({"kind": "copy", "j": j, "prefix": payload[:j], "exc": "OSError"})
    fl.append({"kind": "copy", "j": mid, "prefix": payload[:mid], "exc": "KeyboardInterrupt"})
    fl.append({"kind": "close", "exc": "OSError"})
    for after in (False, True):
        for exc in ("Exception", "KeyboardInterrupt", "BaseException"):
            fl.append({"kind": "body", "after_read": after, "exc": exc})
    return fl


NAMES_FMT = ["a.{f}", "data.tar.{f}", "a.b.c.{f}", "sub.dir/x.y.{f}", "a..{f}", "my file.v2.{f}", "x.zip.{f}",
             "{f}.{f}", "sub/.hidden.{f}", "UPPER.Case.{f}", "a-b_c.1.2.3.{f}"]
NAMES_PASS = ["plain", "data.txt", "a.gz.bak", ".gz", "..gz", "sub.gz/file", "a.GZ", "a.tgz", "gz", "a.gz.", "a.xzip",
              "sub/.zip", "archive.tar", "a.bz", "a.z", "x.7z", "...xz"]


def gen_cases(ctx):
    cases = []

    def add(*a, **k):
        cases.append(mk_case(len(cases), *a, seed=len(cases) + 1, **k))

    thorough = ctx.thorough
    contents_fault = ["ascii", "empty"] + (["one", "binary", "compressed"] if thorough else [])
    # (1) every injection point of compress x format x prior
    for f in ADVERTISED:
        for content in contents_fault:
            ntok = len(CONTENT[content][0])
            for prior in ({"kind": "none"}, {"kind": "raw"}):
                add(f"d.v1/out.{f}", content=content, prior=prior)                    # no fault
                for cf in compress_faults(f, ntok):
                    nat_out = cf["kind"] == "open_out" and cf.get("variant") == "natural"
                    if nat_out and prior["kind"] != "none":
                        continue
                    name = f"absent/out.{f}" if nat_out else f"d.v1/out.{f}"
                    add(name, content=content, prior=prior, cf=cf,
                        tmpdir="default" if (len(cases) % 5 == 0) else "explicit")
    # (2) every injection point of decompress x format x source of the archive x target
    for f in ADVERTISED:
        for content in (["ascii"] + (["empty", "binary"] if thorough else [])):
            payload = CONTENT[content][0]
            for via_compress in (True, False):
                for target in (None, "copy.bin"):
                    base = dict(content=content, target=target, dec=True)
                    if via_compress:
                        base.update(comp=True)
                        pl = payload
                    else:
                        base.update(comp=False, prior={"kind": "archive"})
                        pl = [101, 102]
                    add(f"arc.x.{f}", **base)
                    for df in decompress_faults(pl):
                        add(f"arc.x.{f}", df=df, tmpdir="default" if (len(cases) % 4 == 0) else "explicit", **base)
    # (3) damaged / missing / foreign archives
    for f in ADVERTISED:
        others = [g for g in ADVERTISED if g != f]
        priors = [{"kind": "none"}, {"kind": "truncated"}, {"kind": "flipped"}, {"kind": "garbage"}, {"kind": "empty"},
                  {"kind": "garbage", "size": 4000},
                  {"kind": "wrongformat", "fmt": others[0]}, {"kind": "wrongformat", "fmt": others[1]},
                  {"kind": "raw"}]
        if f == "zip":
            priors.append({"kind": "archive", "member": "other"})
            priors.append({"kind": "archive", "member": "bad.zip"})
        for pr in priors:
            for target in (None, "copy.bin"):
                add(f"bad.{f}", comp=False, prior=pr, dec=True, target=target)
        add(f"bad.{f}", comp=False, prior={"kind": "archive"}, dec=True, target=f"bad.{f}")      # target = the archive
    # (4) round trips: every content class x format x names with several dots, fmt= matching the suffix
    classes = ["empty", "one", "ascii", "binary", "compressed", "zeros"] + ["big"]
    for f in ADVERTISED:
        for content in classes:
            if content == "big" and not thorough and f != "xz":
                continue
            add(f"rt.{content}.{f}", content=content, dec=True, tmpdir="default" if content == "one" else "explicit")
        for i, pat in enumerate(NAMES_FMT):
            nm = pat.format(f=f)
            add(nm, dec=True, content=("ascii", "one", "compressed")[i % 3])
            add(nm, dec=True, fmtarg=f, prior={"kind": "raw"}, target="t.out" if i % 2 else None)
            add(nm, cf={"kind": "body", "j": 1, "exc": "Exception"}, prior={"kind": "raw"} if i % 2 else None)
        # fmt= on a name without (or with another) suffix: a genuine archive must be stored
        for nm in ("noext", "data.bin", "a.b/c.d"):
            add(nm, fmtarg=f, dec=True)
            add(nm, fmtarg=f, cf={"kind": "body", "j": 1, "exc": "Exception"}, prior={"kind": "raw"})
        other = ADVERTISED[(ADVERTISED.index(f) + 1) % 4]
        add(f"mixed.{other}", fmtarg=f, dec=True)
    # (5) names without a compression suffix are passed through
    for nm in NAMES_PASS:
        add(nm, dec=True, content="ascii")
        add(nm, comp=False, prior={"kind": "raw"}, dec=True, target="copy.bin")
        add(nm, comp=False, dec=True)                                                              # missing file
        add(nm, cf={"kind": "body", "j": 1, "exc": "Exception"})
        add(nm, comp=False, prior={"kind": "raw"}, dec=True, df={"kind": "body", "after_read": True})
    for fa in (".xz", ".gz", "tar", "GZ", ""):
        add("weird.dat", fmtarg=fa, dec=True)
    # (6) random combinations
    rng = ctx.rng
    for _ in range(ctx.n(150, 2500)):
        f = rng.choice(ADVERTISED)
        if rng.random() < 0.15:
            nm = rng.choice(NAMES_PASS)
        else:
            nm = rng.choice(NAMES_FMT).format(f=f)
        content = rng.choice(["empty", "one", "ascii", "ascii", "binary", "compressed", "zeros"])
        ntok = len(CONTENT[content][0])
        comp = rng.random() < 0.8
        prior = rng.choice([{"kind": "none"}, {"kind": "raw"}, {"kind": "archive"}]) if comp else \
            rng.choice([{"kind": "archive"}, {"kind": "archive"}, {"kind": "truncated"}, {"kind": "flipped"},
                        {"kind": "garbage"}, {"kind": "none"}, {"kind": "raw"}])
        if prior["kind"] in ("archive", "truncated", "flipped") and fmt_of(nm) not in ADVERTISED:
            prior = {"kind": "raw"}
        fmtarg = rng.choice([None, None, None, f, rng.choice(ADVERTISED)]) if comp else None
        # the injection points are those of the format compress will really use
        cf = rng.choice([None, None] + compress_faults(fmtarg or fmt_of(nm), ntok)) if comp else None
        if cf and cf.get("variant") == "natural" and cf["kind"] in ("open_out", "open_in") \
                and (cf["kind"] == "open_out" or (fmtarg or fmt_of(nm)) not in ADVERTISED):
            cf = None
        dec = (not comp) or rng.random() < 0.6
        pl = CONTENT[content][0] if comp else [101, 102]
        df = rng.choice([None, None] + decompress_faults(pl)) if dec else None
        target = rng.choice([None, None, "copy.bin", "sub.dir/copy.gz"]) if dec else None
        if target and "/" in target and "sub.dir/" not in nm:
            target = "copy.bin"
        add(nm, content=content, prior=prior, comp=comp, fmtarg=fmtarg, cf=cf, dec=dec, target=target, df=df,
            tmpdir=rng.choice(["explicit", "explicit", "default"]))
    return cases


# ----------------------------------------------------------------------------- Coq literals

def cf_lit(cf, fired, fmt_eff="gz"):
    k = cf["kind"]
    if k == "none" or not fired:
        return "CNone"
    if k == "mkdtemp":
        return "CMkdtemp"
    if k == "body":
        return "(CBody None)" if cf["j"] is None else f"(CBody (Some {int(cf['j'])}%nat))"
    if k == "open_in":
        return "COpenIn"
    if k == "open_out":
        return "COpenOut"
    if k == "wrap":
        return "CWrap" if fmt_eff == "gz" else "COpenOut"   # a constructor that raises before creating the file
    if k == "copy":
        return f"(CCopy {int(cf['j'])}%nat)"
    if k == "close":
        return "CClose"
    raise ValueError(k)


def df_lit(df, fired):
    k = df["kind"]
    if k == "none" or not fired:
        return "DNone"
    if k == "mktemp":
        return "DMktemp"
    if k == "open":
        return "DOpen"
    if k == "copy":
        return f"(DCopy {int(df['j'])}%nat)"
    if k == "close":
        return "DClose"
    if k == "body":
        return f"(DBody {core.coq_bool(df['after_read'])})"
    raise ValueError(k)


def prior_lit(case, res):
    p = case["prior"]
    cls = res.get("prior_class", p["kind"])
    if cls == "none":
        return "NoFile"
    if p["kind"] == "empty":
        return "(RawFile [])"            # a zero-length file (gzip reads it as an empty stream, the others refuse it)
    if cls == "raw":
        return f"(RawFile {zlist(p['tokens'])})"
    if cls == "archive":
        member = res.get("prior_member") or p.get("member") or ""
        return (f"(Archive (s2l {qs(p.get('read_fmt') or p['fmt'])}) (s2l {qs(member)}) "
                f"{zlist(res.get('prior_tokens', p.get('tokens', [])))})")
    if cls == "corrupt":
        return "CorruptOpen"
    return None          # damage that the standard library does not notice: not a usable case


def obs_comp(o):
    v = [int(o["raised"]), o["yielded"], o["during"], o["left"], int(o["t_exists"]), int(o["t_same"])]
    return v, o["decoded"]


def obs_dec(o):
    v = [int(o["raised"]), o["yielded"], o["during"], o["left"], int(o["copy_gone"]), int(o["archive_same"])]
    return v, o["read"]


def obs_lit(pair):
    if pair is None:
        return "([], None)"
    v, d = pair
    return f"({zlist(v)}, {opt_zs(d)})"


def case_expr(case, res):
    pl = prior_lit(case, res)
    if pl is None:
        return None
    cfired = res.get("comp", {}).get("fired", False)
    dfired = res.get("dec", {}).get("fired", False)
    c = (f"(mkCase {pl} {qs(case['name'])} {core.coq_bool(case['comp'])} {opt_s(case['fmtarg'])} "
         f"{zlist(case['b'])} {cf_lit(case['cf'], cfired, case['fmt_eff'])} {core.coq_bool(case['dec'])} {opt_s(case['target'])} "
         f"{df_lit(case['df'], dfired)})")
    ic = obs_lit(obs_comp(res["comp"]) if case["comp"] else None)
    idd = obs_lit(obs_dec(res["dec"]) if case["dec"] else None)
    return f"eval_case known_compressions {c} {ic} {idd}"


def unopt(x):
    return x[1] if isinstance(x, tuple) and x and x[0] == "Some" else None


def canon(tokens):
    """archive bytes / unknown bytes are one class"""
    if tokens is None:
        return None
    return [-9] if any(t < 0 for t in tokens) else list(tokens)


CLAUSES = {
    1: "a temporary file or directory remains after the compress block",
    2: "compress did not pass a name without compression suffix through",
    3: "after an undisturbed compress block the stored file is not a genuine archive of the requested format holding the bytes written (or the block raised)",
    4: "an exception inside the compress block created or changed the target file",
    5: "a temporary file remains after the decompress block",
    6: "the decompressed copy still exists after the decompress block",
    7: "compress followed by decompress did not return the bytes written",
    8: "decompress did not pass a name without compression suffix through",
}


# ----------------------------------------------------------------------------- running

def run_impl(ctx, cases):
    out = []
    with tempfile.TemporaryDirectory(prefix="verif_c12_cases_") as td:
        chunks = [cases[i::core.NPROC] for i in range(core.NPROC)] if len(cases) > 64 else [cases]
        chunks = [c for c in chunks if c]
        files = []
        for i, ch in enumerate(chunks):
            p = Path(td) / f"cases_{i}.json"
            p.write_text(json.dumps(ch))
            files.append(p)
        from concurrent.futures import ThreadPoolExecutor
        with ThreadPoolExecutor(max_workers=core.NPROC) as ex:
            rs = list(ex.map(lambda p: core.run_py(HARNESS, [p], timeout=800), files))
        table, ufile = None, None
        for r, ch in zip(rs, chunks):
            if r.returncode != 0 or not r.stdout.strip().startswith("{"):
                ctx.fail("correspondence", f"harness child failed rc={r.returncode}: {(r.stderr or r.stdout)[-1500:]}",
                         signature="harness-crash")
                continue
            d = json.loads(r.stdout)
            table, ufile = d["table"], d["file"]
            out.extend(d["results"])
    by_id = {r["id"]: r for r in out}
    return by_id, table, ufile


def check_cases(ctx, cases, table_runtime_check=None):
    by_id, table, ufile = run_impl(ctx, cases)
    exprs, used = [], []
    skipped = 0
    for c in cases:
        r = by_id.get(c["id"])
        if r is None:
            continue
        if "error" in r:
            ctx.fail("correspondence", f"harness error: {r['error']}", case=c, signature="harness-error")
            continue
        e = case_expr(c, r)
        if e is None:
            skipped += 1
            continue
        exprs.append(e)
        used.append((c, r))
    vals, log = core.coq_eval(ctx.work / "cases", "case", PREAMBLE, exprs, shard=120)
    if log:
        ctx.log(log[-2000:])
    nontrivial = set()
    fired_points = set()
    for (c, r), v in zip(used, vals):
        ctx.cov["evaluations"] += 1
        if v is None:
            ctx.fail("correspondence", "Coq evaluation of the model failed", case=c, signature="coq-eval")
            continue
        mcv, mcd, mdv, mdd, viol, mviol = v
        mcd, mdd = unopt(mcd), unopt(mdd)
        fmt = c["fmt_eff"] if c["comp"] else c["fmt_name"]
        descr = (f"name={c['name']!r} fmt={c['fmtarg']!r} content={c['content']} prior={c['prior']['kind']} "
                 f"compress-fault={c['cf'] if c['comp'] else '-'} decompress-fault={c['df'] if c['dec'] else '-'} "
                 f"target={c['target']!r} tmpdir={c['tmpdir']}")
        for n in viol:
            ctx.fail("failing-input", f"{CLAUSES[n]}: {descr}; observed compress={r.get('comp')} decompress={r.get('dec')}",
                     case=c, impl={"comp": r.get("comp"), "dec": r.get("dec")},
                     model={"comp": [mcv, mcd], "dec": [mdv, mdd]},
                     signature=f"clause{n}-{fmt if fmt in ADVERTISED else 'passthrough'}")
        natural_pt = (c["comp"] and c["cf"]["kind"] in ("open_out", "open_in") and c["cf"].get("variant") == "natural"
                      and r["comp"]["yielded"] == 1)
        if mviol and sorted(table or []) == sorted(ADVERTISED):
            ctx.fail("proof", f"the model's own observations are rejected by the clause checker (clauses {mviol}): {descr}",
                     case=c, model={"comp": [mcv, mcd], "dec": [mdv, mdd]}, signature="model-vs-spec")
        if not viol and not natural_pt:
            diffs = []
            if c["comp"]:
                iv, idc = obs_comp(r["comp"])
                if True:
                    if iv != mcv or canon(idc) != canon(mcd):
                        diffs.append(f"compress: implementation {iv, idc} model {mcv, mcd}")
                    if fmt == "zip" and fmt_of(c["name"]) == "zip" and r["comp"]["decoded"] is not None \
                            and r["comp"]["member"] != member_py(c):
                        diffs.append(f"zip member {r['comp']['member']!r}, decompress will look for {member_py(c)!r}")
            if c["dec"]:
                iv, idc = obs_dec(r["dec"])
                if c["target"] == c["name"] and iv[1] == 1 and mdv[1] == 3:
                    iv[1] = 3                     # target = the archive itself: both readings of the yielded path agree
                if iv != mdv or canon(idc) != canon(mdd):
                    diffs.append(f"decompress: implementation {iv, idc} model {mdv, mdd}")
            if diffs:
                ctx.fail("correspondence", "model and implementation differ: " + "; ".join(diffs) + " -- " + descr +
                         " [order: raised, yielded(0 none/1 name/2 temp/3 target), temp entries during, left, "
                         "exists|copy gone, same bytes]", case=c,
                         impl={"comp": r.get("comp"), "dec": r.get("dec")}, model={"comp": [mcv, mcd], "dec": [mdv, mdd]},
                         signature="model-vs-impl-" + (c["cf"]["kind"] if c["comp"] and c["cf"]["kind"] != "none"
                                                       else c["df"]["kind"] if c["dec"] else "none"))
        cfired = c["comp"] and r["comp"].get("fired") and c["cf"]["kind"] != "none"
        dfired = c["dec"] and r["dec"].get("fired") and c["df"]["kind"] != "none"
        if cfired:
            fired_points.add(("compress", fmt, c["cf"]["kind"], c["cf"].get("variant", ""), str(c["cf"].get("j", ""))))
        if dfired:
            fired_points.add(("decompress", c["fmt_name"], c["df"]["kind"], c["df"].get("variant", ""),
                              str(c["df"].get("j", c["df"].get("after_read", "")))))
        if cfired or dfired or (c["comp"] and c["dec"] and c["b"]) or c["prior"]["kind"] not in ("none", "raw"):
            nontrivial.add(json.dumps({k: c[k] for k in ("name", "content", "prior", "comp", "fmtarg", "cf", "dec",
                                                         "target", "df", "tmpdir")}, sort_keys=True))
        if c["id"] % 97 == 0:
            ctx.sample({"case": {k: c[k] for k in ("name", "content", "fmtarg", "cf", "df", "target")},
                        "observed": {"comp": r.get("comp"), "dec": r.get("dec")}}, limit=6)
    not_fired = [(c["id"], c["cf"]["kind"] if c["comp"] else "", c["df"]["kind"] if c["dec"] else "")
                 for c, r in used
                 if (c["comp"] and c["cf"]["kind"] != "none" and not r["comp"].get("fired")
                     and c["fmt_eff"] in (table or []))
                 or (c["dec"] and c["df"]["kind"] != "none" and not r["dec"].get("fired")
                     and c["fmt_name"] in (table or []) and not (c["comp"] and r["comp"]["raised"]))]
    return len(nontrivial), fired_points, skipped, not_fired, table, ufile


def member_py(c):
    """the member decompress will look for (independent of the code): basename without the last extension"""
    return member_of(c["name"])


# ----------------------------------------------------------------------------- names

def check_names(ctx):
    rng = ctx.rng
    names = [p.format(f=f) for p in NAMES_FMT for f in ADVERTISED] + NAMES_PASS + \
            ["", ".", "..", "/", "a/", "a/.", "a/..", "a.b/", "/.gz", "a/b.c/d", "a.b.", "....", ".a.b", "..a", "a/..b.gz"]
    alpha = "ab.g/z. x."
    for _ in range(ctx.n(300, 4000)):
        names.append("".join(rng.choice(alpha) for _ in range(rng.randint(0, 9))))
    fmts = ADVERTISED + ["", ".xz", "z", "ar.gz"]
    exprs = []
    for nm in names:
        f = fmts[len(exprs) % len(fmts)]
        exprs.append(f"(let p := s2l {qs(nm)} in [string_of_list_ascii (fst (splitext p)); string_of_list_ascii (snd (splitext p)); "
                     f"string_of_list_ascii (basename p); string_of_list_ascii (fmt_of_name p); "
                     f"string_of_list_ascii (member_d p); string_of_list_ascii (member_c p (s2l {qs(f)}))])")
    vals, log = core.coq_eval(ctx.work / "cases", "names", PREAMBLE, exprs, shard=400)
    if log:
        ctx.log(log[-1500:])
    for i, (nm, v) in enumerate(zip(names, vals)):
        ctx.cov["evaluations"] += 1
        f = fmts[i % len(fmts)]
        base, ext = os.path.splitext(nm)
        tf = os.path.basename(nm)
        tb, te = os.path.splitext(tf)
        expect = [base, ext, os.path.basename(nm), ext.lstrip("."), os.path.basename(base), tb if te.endswith(f) else tf]
        if v != expect:
            ctx.fail("correspondence", f"string model differs from Python for name {nm!r} fmt {f!r}: Coq {v} Python {expect}",
                     case={"name_only": nm, "fmt": f}, signature="names")
    return len(set(names))


# ----------------------------------------------------------------------------- entry points

def prepare(ctx):
    keys, why = translate_table(ctx)
    if keys is None:
        ctx.fail("translation", f"_known_compressions of {core.REPO}/typhon/files/utils.py could not be translated: {why}",
                 obligation="coq/gen/C12_formats.v", signature="translation")
        keys = []
    write_gen(keys)
    return keys


def run(ctx):
    keys = prepare(ctx)
    ctx.prove("Props/C12.v")
    core.coq_build([GENFILE, core.THEORIES / "Model" / "C12_compress.v"])
    cases = gen_cases(ctx)
    nnames = check_names(ctx)
    nt, fired, skipped, not_fired, table, ufile = check_cases(ctx, cases)
    if table is not None and sorted(keys) != sorted(table):
        ctx.fail("translation", f"translated key set {sorted(keys)} differs from the table of the imported module {table}",
                 obligation="coq/gen/C12_formats.v", signature="translation")
    if ufile and not str(ufile).startswith(str(core.REPO)):
        ctx.fail("correspondence", f"the child imported {ufile}, not the tree under test {core.REPO}", signature="wrong-tree")
    ctx.add_obligation("translation of _known_compressions", bool(keys) and (table is None or sorted(keys) == sorted(table)),
                       f"keys {keys}")
    ctx.cov["distinct_nontrivial"] = nt
    ctx.cov["rule"] = ("a case is one history on a private sandbox: optional prior file, `with compress(name, fmt, tmpdir)` writing "
                       "the content, `with decompress(name, tmpdir, target)` reading it, each with at most one injected fault; "
                       "non-trivial = an injected fault fired, or a compress+decompress round trip of non-empty content, or a "
                       "pre-existing archive (genuine, truncated, corrupted, foreign); distinct by the whole case description")
    ctx.cov["input_distribution"] = {
        "cases": len(cases), "names_compared_with_os.path": nnames,
        "formats": {f: sum(1 for c in cases if (c["fmt_eff"] if c["comp"] else c["fmt_name"]) == f) for f in ADVERTISED},
        "passthrough_names": sum(1 for c in cases if fmt_of(c["name"]) not in ADVERTISED),
        "contents": {k: sum(1 for c in cases if c["content"] == k) for k in CONTENT},
        "injection_points_fired": len(fired),
        "injection_points": sorted("/".join(p) for p in fired),
        "injections_not_fired": not_fired[:20],
        "skipped_undamaged_archives": skipped,
        "copy_chunk": "contents up to 1.35 MB; the 100 MiB copy chunk is never exceeded (not covered)",
    }
    ctx.assumptions += [
        "codec hypothesis of the round-trip theorems: dec fmt member (enc fmt member b) = b (standard library codecs)",
        "one fault per with-block; cleanup primitives (TemporaryDirectory.__exit__, os.unlink) themselves do not fail",
        "the block writes the yielded path with ordinary file operations and does not remove it itself",
        "property clauses 3, 4, 7 are checked for the four advertised formats (suffix or fmt=), clauses 2 and 8 for all other names",
    ]
    return ctx.finish(trusted_base=TRUSTED)


def replay(ctx, rec):
    case = rec.get("case")
    keys = prepare(ctx)
    core.coq_build([GENFILE, core.THEORIES / "Model" / "C12_compress.v"])
    if not case:
        print("this record names an obligation, not a case; re-run ./check C12", rec.get("tier", "quick"))
        ctx.prove("Props/C12.v")
    elif "name_only" in case:
        check_names(ctx)
    else:
        check_cases(ctx, [case])
    for f in ctx.failures:
        print("still fails:", f.what[:400])
    return 1 if ctx.failures else 0
