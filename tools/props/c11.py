"""C11 -- files written, moved, copied or deleted through a FileSet are conserved.

Theorems: coq/theories/Props/C11.v about Model/C11_fsops.v (a disk = finite map path -> content; write / read /
collect / find / move / copy / convert / delete / dry run; names from the C02 renderer, compression decided as in
files/utils.py; handlers and codecs are Section variables).

Tie: random operation histories run on REAL FileSet objects in temporary trees inside child processes
(tools/harness/c11_run.py; the NetCDF4 handler only there: random NetCDF histories in the thorough tier, three directed
histories with grouped data sets in both tiers).  After every operation
the whole tree is listed and every file reduced -- independently of typhon, by magic bytes and the standard
library -- to [compression code, handler code, payload].  The model's `step` is evaluated inside Coq on the listing
before the operation and must predict the listing after it, the value returned, or the class of the exception.
Because the state handed to the model at step k is the OBSERVED state after step k-1, agreement on every step is
agreement on the whole history.  A disagreement on an operation that meets the hypotheses of the theorems (target
names pairwise distinct and fresh) is a failing input of the property: the model provably keeps every content,
removes exactly the originals and touches nothing else there.

Laws evaluated on the implementation's own output (theorems of Props/C11.v with their hypotheses computed in Coq):
  * written_is_found_law: after every F[s:e, fill] = x (or write()) the child asks find() for the file; it must be
    reported exactly once, under the period (s, wif_period F s e) -- (s, e) for a complete end and in the exact
    class of the sub-day end kind, the rolled period otherwise, (s, s + time_coverage) without end fields -- and with
    the placeholder values it was written with, whenever wif_hyp holds;
  * read_with_args / write_with_args / calls_keep_object: read, collect and write calls carry keyword arguments of
    their own (model: run_call on a FileSet OBJECT); the value returned / the file written must be that of the
    merged dictionary, and the object's default dictionaries, observed after EVERY operation, must be unchanged;
  * empty_selection_noop: explicit selections that are empty (files=[]) are generated for move / copy / delete.
  * move_failure_conserves / move_given_sound: moves whose conversion FAILS for one payload (a convert function that
    raises for it, a target handler that cannot store it; random decoration of convert-moves + directed histories).
    The tree observed after the move that raised must be the one the model's move of exactly the files that ARRIVED
    under their target names produces (run_movep): the failing file untouched at its source, nothing under its target
    name, every other selected file either moved or untouched, no other path changed.  Which of the convertible
    files were moved before move() raised is not determined (parallel workers) and not compared.
  * copy_is_independent: histories in which files are copied (move(copy=True), with and without conversion) and then
    one of the two names is WRITTEN AGAIN in place -- fileset[s:e] = data under the period the file is found under, and
    write(data, path); the harness' writers and typhon's handlers open the path for writing (same inode), nothing is
    renamed -- and the other name is read (8 directed histories: pickle / JSON / CSV, plain and .gz / .bz2 / .xz, target as
    fileset and as path, thread and process workers, original first / copy first; appended to 80 % of the random histories
    that copy).  The model's disk is a map path -> content, so the step semantics prescribe that the other name keeps
    its content.  In addition every per-step listing reports paths of the tree that are one and the same inode
    (st_nlink > 1): signature paths-share-inode (an additional law; the overwrite histories do not depend on it).
  * read_applies_post_reader_to_own_entry (+ get_ / collect_ / convert_ forms): half of the post_readers LOOK AT the
    FileInfo they are handed (harness PostLabel, model t_label: payload + k + 1000 * checksum of file_info.path relative to
    the tree, file_info.times, file_info.attr).  The model applies post_reader to the entry of the file itself -- for
    read(FileInfo) the entry find() reports, for read("path") FileInfo(path) without times -- so a post_reader that is
    handed anything else (the temporary decompressed file) returns another number: read-value / get-value /
    collect-value / move-tree.  8 directed histories store the same payloads in plain and in .gz / .bz2 / .xz / .zip
    filesets and read them through read(info), read("path"), fileset[t], fileset[s:e], collect, icollect, collect(files=)
    and move(convert=..) into a second labelled fileset.
  * reading_keeps_disk / collect_reads_each_file_alone: 4 directed, seed-independent histories `shared-base-name` on COMPRESSED
    filesets (.gz / .bz2 / .xz; pickle, JSON, typhon CSV) whose template gives the SAME base name to files in several sub
    directories ({year}/{month}/{day}/data.pkl.gz, {year}{month}/{day}/{hour}{minute}.json.bz2, ...), 6-10 files, worker pools
    as FileSet chooses them, temp_dir = a directory INSIDE the tree of the case that also holds bystander files named like the
    decompressed base names (tmp/data.pkl), and a user reader that waits, opens its file and holds it open for a moment so that
    the reads of the worker threads / processes overlap.  Read through collect(), fileset[s:e], icollect, collect(files=),
    fileset[t] and move(convert=..) in two halves.  The model's step prescribes every payload and the whole tree (temp_dir
    included: nothing left behind, bystanders there); in addition the SHA-1 of every file is taken after each step and every
    read-only step must leave all of them as they were (signature read-changes-bytes).
  * overwrite_forgets / overwrite_reads_last: NetCDF data sets with PSEUDO GROUPS (kind ncg, harness mk_grouped: root variables
    first / a group first / groups only / flat, two sets of group names; grouped variables on dimensions of their own group) --
    3 directed histories `netcdf-groups` in the quick tier too (one child process; .nc, .nc.gz, .h5): four files of the four
    layouts, read back, then six overwrites in place (fileset[s:e] = data and write(data, path)) by data sets of another layout
    and other group names, each read back at once, a converted copy into a second fileset and overwrites there.  val() rebuilds
    the object from the payload and compares the variable SET (nothing lost, nothing of an earlier content left), values,
    dtypes and dimensions; half of the random NetCDF histories of the thorough tier use grouped data sets.
User handlers come in flavours the model does not distinguish (cfg rflav / wflav): two plain functions, or bound methods
of a user object with the signatures (.., **kwargs), (.., offset=0), (.., offset=0, **kwargs); default, per-call and
collect arguments must reach all of them alike.
"""
import datetime as dt
import json
import os
import shutil
from concurrent.futures import ThreadPoolExecutor
from pathlib import Path

from lib import core
from lib.core import zlit, coq_list, coq_string, coq_bool

PREAMBLE = ("From Typhon Require Import Base.Calendar Model.C02_template Model.C11_fsops.\n"
            "Open Scope string_scope.\n")
HARNESS = core.VERIF / "tools" / "harness" / "c11_run.py"
TRUSTED = [
    "correspondence harness tools/props/c11.py + tools/harness/c11_run.py (generators, reduction of real files to "
    "[compression, handler, payload] by magic bytes and the standard library, exception classes mapped to an enum)",
    "handlers (pickle / JSON user handlers through FileHandler(reader=, writer=) from plain functions or bound methods, typhon CSV, typhon NetCDF4 with "
    "xarray/netCDF4/pandas) and codecs (gzip, bz2, lzma, zipfile) are Section variables with the hypotheses "
    "dec (enc x) = x, unpack (pack b) = b: their fidelity is exercised on every read-back, not proved",
    "FileSet.find (property C01) is modelled as the brute-force filter; tied on flat, one- and multi-level templates "
    "with files at most a few hours long",
    "thread / process pools of FileSet.map (property C10): operations on distinct files are assumed to commute",
    "Model/C02_template.v render/info (property C02) for the file names; Model/C12_compress.v fmt_of_name",
    "kcode (what a keyword dictionary means to a handler) is a Section variable; on the harness instance it reads the "
    "keyword `offset` of the test handlers",
    "post_reader is a component of the fileset record (entry -> Data -> Data, arbitrary in the theorems); the harness instance "
    "t_label / PostLabel computes one checksum twice (Coq hstr / t_lab, Python hstr / info_label)",
]
DT_MAX = 315537897600000000
EPOCH = dt.datetime.min


def us(t):
    return (t - EPOCH) // dt.timedelta(microseconds=1)


# ----------------------------------------------------------------------------- generators

SATS = ["noaa", "metop", "gpm"]
ANCHORS = [dt.datetime(2017, 12, 31), dt.datetime(2018, 1, 1), dt.datetime(2020, 2, 29), dt.datetime(2020, 12, 31),
           dt.datetime(2019, 3, 1), dt.datetime(2018, 6, 15), dt.datetime(2064, 12, 30), dt.datetime(1999, 12, 31)]
STARTS = ["{year}{month}{day}T{hour}{minute}{second}", "{year}{doy}_{hour}{minute}{second}",
          "{year2}{month}{day}{hour}{minute}{second}", "{year}{month}{day}{hour}{minute}{second}{millisecond}",
          "{year}-{month}-{day}_{hour}-{minute}-{second}"]
ENDS = ["", "", "-{end_year}{end_month}{end_day}T{end_hour}{end_minute}{end_second}",
        "-{end_year}{end_doy}{end_hour}{end_minute}{end_second}", "-{end_hour}{end_minute}{end_second}",
        "-{end_minute}{end_second}", "_{end_hour}{end_minute}"]     # the last three: only sub-day end fields (C02 partial)
DIRS = ["", "", "{year}{month}{day}/", "{year}/{doy}/", "{year}/{month}/{day}/", "{year}/", "{year2}{month}/"]
SUFFIX = {"pkl": [".pkl"], "json": [".json"], "csv": [".csv", ".txt", ".asc"], "nc": [".nc", ".h5"], "ncg": [".nc", ".h5"]}
COMP = ["", "", "", ".gz", ".bz2", ".xz", ".zip"]


def gen_path(rng, base, kind, sat, allow_zip=True):
    d = rng.choice(DIRS)
    name = rng.choice(STARTS) + rng.choice(ENDS)
    if sat:
        where = rng.choice(["dir", "name", "both"])
        if where in ("dir", "both"):
            d = "{sat}/" + d      # a user placeholder directory BELOW temporal ones trips a pruning defect of find() (C01)
        if where in ("name", "both"):
            name = "{sat}_" + name
    comp = rng.choice(COMP if allow_zip else COMP[:-1])
    return base + "/" + d + name + rng.choice(SUFFIX[kind]) + comp


def gen_fileset(rng, i, kinds, base=None, allow_zip=True):
    kind = rng.choice(kinds)
    sat = rng.random() < 0.45
    cfg = {"name": "fs%d" % i, "hkind": kind, "sat": sat,
           "path": gen_path(rng, base or "d%d" % i, kind, sat, allow_zip),
           "cov": rng.choice([None, None, 3600, 5400]), "rargs": 0, "wargs": 0, "post": None,
           "compress": True, "decompress": True, "worker": "thread" if rng.random() < 0.9 else "process",
           "csv_args": rng.randrange(4)}
    if kind in ("pkl", "json"):
        r = rng.random()
        if r < 0.25:
            cfg["rargs"] = cfg["wargs"] = rng.choice([3, 10, -4])
        elif r < 0.32:
            cfg["rargs"], cfg["wargs"] = rng.choice([(0, 5), (2, 0), (1, 7)])
    if rng.random() < 0.3:
        cfg["post"] = rng.choice([1, 100, -2])
    r = rng.random()
    if r > 0.85 and kind in ("pkl", "json"):   # pandas' to_csv compresses by itself when the name says so
        cfg["compress"], cfg["decompress"] = rng.choice([(False, False), (False, True), (True, False)])
    return cfg


def gen_time(rng, anchor):
    day = anchor + dt.timedelta(days=rng.choice([-1, 0, 0, 0, 1]))
    return day + dt.timedelta(seconds=rng.choice([0, 1, 59, 3600, 3 * 3600 + 7, 12 * 3600, 18 * 3600 + 30 * 60,
                                                 23 * 3600 + 59 * 60 + 59, rng.randrange(86400)]))


def gen_sel(rng, anchor, cfg, files_ok=True):
    op = {"start": None, "end": None, "white": None, "black": None}
    r = rng.random()
    if r < 0.35:
        pass                                                   # everything
    elif r < 0.75:
        a = anchor + dt.timedelta(days=rng.choice([-1, 0, 0, 1]), hours=rng.choice([0, 0, 6, 12]))
        b = a + dt.timedelta(hours=rng.choice([1, 6, 12, 24, 24, 48]))
        op["start"], op["end"] = us(a), us(b)
        if rng.random() < 0.2:
            op["start"] = None
        elif rng.random() < 0.2:
            op["end"] = None
    elif files_ok:
        op["use_files"] = rng.randrange(1, 1 << 16)
        if rng.random() < 0.3:
            op["empty_files"] = True           # an explicit selection that is empty (files=[]): nothing is selected
    if cfg.get("sat") and "use_files" not in op and rng.random() < 0.45:
        vs = rng.sample(SATS, rng.choice([1, 1, 2]))
        op["white" if rng.random() < 0.6 else "black"] = {"sat": vs}
    return op


def gen_case(rng, k, tier, force_nc=False):
    kinds = ["pkl", "pkl", "json", "csv"]
    if force_nc:
        kinds = ["nc", "nc", "pkl", "csv"]
    allow_zip = rng.random() < 0.25            # with a zip fileset every move converts (see run(): zip member names)
    anchor = rng.choice(ANCHORS)
    nfs = rng.choice([2, 2, 3])
    filesets = [gen_fileset(rng, i, kinds, allow_zip=allow_zip) for i in range(nfs)]
    if force_nc:
        filesets[0] = gen_fileset(rng, 0, ["nc"], allow_zip=allow_zip)
    if rng.random() < 0.2:                     # two filesets share a directory tree
        filesets[1] = gen_fileset(rng, 1, kinds, base="d0", allow_zip=allow_zip)
    has_zip = any(f["path"].endswith(".zip") for f in filesets)
    ops = []
    nops = rng.randint(3, 12)
    nwrites = rng.randint(2, 5)
    value = rng.randrange(1, 50) * 10
    moves = 0
    for j in range(nops):
        fsi = rng.randrange(nfs) if j >= nwrites else rng.choice([0, 0, 1])
        cfg = filesets[fsi % nfs]
        r = rng.random()
        if j < nwrites or r < 0.2:
            s = gen_time(rng, anchor)
            e = s + dt.timedelta(seconds=rng.choice([0, 60, 3599, 3600, 2 * 3600, 5 * 3600 + 1]))
            if "{end_" in cfg["path"] and "{end_year" not in cfg["path"] and rng.random() < 0.15:
                # a sub-day end says less than the period: longer than the unit above its coarsest field, the file is
                # found under the rolled period (C02 roundtrip_end_partial), never under a longer one
                e = s + dt.timedelta(seconds=rng.choice([26 * 3600, 47 * 3600 + 15 * 60, 86400]))
            value += 1
            op = {"op": "write", "fs": fsi, "s": us(s), "e": us(e), "v": value, "slice": rng.random() < 0.8,
                  "fill": {"sat": rng.choice(SATS)} if (cfg["sat"] or rng.random() < 0.05) else None,
                  "call_args": rng.choice([None, None, None, None, 4, -5])}
            if ops and rng.random() < 0.15:    # overwrite an earlier period
                prev = [o for o in ops if o["op"] == "write" and o["fs"] == fsi]
                if prev:
                    p = rng.choice(prev)
                    op.update({"s": p["s"], "e": p["e"], "fill": p["fill"], "slice": p["slice"]})
        elif r < 0.30:
            op = {"op": "read", "fs": rng.randrange(nfs + moves), "pick": rng.randrange(64),
                  "pre_args": rng.choice([0, 0, 1001, 2002]), "call_args": rng.choice([None, None, 7, -3, 12])}
        elif r < 0.36:
            op = {"op": "get", "fs": rng.randrange(nfs + moves), "pick": rng.randrange(64),
                  "pre_args": rng.choice([0, 0, 3003, 4004])}
        elif r < 0.50:
            f = rng.randrange(nfs + moves)
            op = {"op": "collect", "fs": f, "slice": rng.random() < 0.4, **gen_sel(rng, anchor, filesets[f % nfs]),
                  "call_args": rng.choice([None, None, None, 6, -2])}
        elif r < 0.58:
            f = rng.randrange(nfs + moves)
            op = {"op": "find", "fs": f, **gen_sel(rng, anchor, filesets[f % nfs], files_ok=False)}
        elif r < 0.85:
            f = rng.randrange(nfs + moves)
            src = filesets[f % nfs] if f < nfs else None
            op = {"op": "move", "fs": f, "copy": rng.random() < 0.5, **gen_sel(rng, anchor, filesets[f % nfs])}
            skind = (src or cfg)["hkind"]
            if rng.random() < 0.5:
                g = rng.randrange(nfs)
                op["target"] = {"kind": "fs", "fs": g}
                dkind = filesets[g]["hkind"]
            else:
                moves += 1
                sat = (src or cfg)["sat"] if rng.random() < 0.9 else not (src or cfg)["sat"]
                op["target"] = {"kind": "path", "path": gen_path(rng, "m%d" % moves, skind, sat, allow_zip)}
                dkind = skind
            c = rng.random()
            family = {"pkl": "d", "json": "d", "csv": "c", "nc": "n", "ncg": "n"}
            if c < 0.45 and not has_zip and not op["target"].get("path", "").endswith(".zip"):
                op["convert"] = None
                op["conv_none"] = rng.random() < 0.5
            elif c < 0.7 and family[skind] == family[dkind] and f < nfs:
                op["convert"] = "true"
            else:
                op["convert"] = rng.choice([0, 0, 5, -1])
            if f >= nfs and op["convert"] == "true":
                op["convert"] = 0
        else:
            f = rng.randrange(nfs + moves)
            op = {"op": "delete", "fs": f, "dry": rng.random() < 0.3, **gen_sel(rng, anchor, filesets[f % nfs])}
        ops.append(op)
    return {"id": k, "filesets": filesets, "ops": ops}


def directed_cases(rng, k0):
    """Year-end crossings for every way of spelling the end (none, complete with month/day, complete with doy, the three
    sub-day suffixes), with doy and month/day starts: the combination the random histories hit most rarely.  Each
    history writes a file across New Year and one before it, finds them, moves all to a doy template with a complete
    end and finds them there."""
    cases = []
    base = {"sat": False, "cov": None, "rargs": 0, "wargs": 0, "post": None, "compress": True, "decompress": True,
            "worker": "thread", "csv_args": 0}
    sel_all = {"start": None, "end": None, "white": None, "black": None}
    for end in sorted(set(ENDS)):
        for start_tpl, d in (("{year}{doy}_{hour}{minute}{second}", "{year}/{doy}/"),
                             ("{year}{month}{day}T{hour}{minute}{second}", "")):
            kind = rng.choice(["pkl", "json"])
            sfx = SUFFIX[kind][0]
            f0 = dict(base, name="fs0", hkind=kind, path="d0/" + d + start_tpl + end + sfx)
            f1 = dict(base, name="fs1", hkind=kind, path="d1/{year}{doy}_{hour}{minute}{second}-{end_year}{end_doy}"
                                                         "{end_hour}{end_minute}{end_second}" + sfx + rng.choice(["", ".gz"]))
            day = rng.choice([dt.datetime(2017, 12, 31), dt.datetime(2020, 12, 31), dt.datetime(1999, 12, 31)])
            s1, s2 = day + dt.timedelta(hours=23, minutes=30), day + dt.timedelta(hours=22)
            v = rng.randrange(1, 50) * 10
            ops = [{"op": "write", "fs": 0, "s": us(s1), "e": us(s1 + dt.timedelta(hours=1)), "v": v + 1, "slice": True,
                    "fill": None, "call_args": None},
                   {"op": "write", "fs": 0, "s": us(s2), "e": us(s2 + dt.timedelta(minutes=30)), "v": v + 2, "slice": True,
                    "fill": None, "call_args": None},
                   {"op": "find", "fs": 0, **sel_all},
                   {"op": "move", "fs": 0, "copy": rng.random() < 0.5, **sel_all, "target": {"kind": "fs", "fs": 1},
                    "convert": None, "conv_none": True},
                   {"op": "find", "fs": 1, **sel_all}]
            cases.append({"id": k0 + len(cases), "filesets": [f0, f1], "ops": ops, "directed": "year-end"})
    # a file removed by the object's own delete() / move() and then asked for by its time (pick 0 = the first removed
    # file); with another file left near by, and with nothing left
    for v_, (how, leave) in enumerate([("delete", True), ("delete", False), ("move", True), ("move", False)]):
        kind = rng.choice(["pkl", "json"])
        sfx = SUFFIX[kind][0]
        f0 = dict(base, name="fs0", hkind=kind, path="d0/{year}/{month}/{year}{month}{day}T{hour}{minute}{second}" + sfx)
        f1 = dict(base, name="fs1", hkind=kind, path="d1/{year}{doy}_{hour}{minute}{second}" + sfx)
        day = rng.choice([dt.datetime(2018, 3, 4), dt.datetime(2020, 2, 29)])
        s1, s2 = day + dt.timedelta(hours=6), day + dt.timedelta(hours=9)
        v = rng.randrange(1, 50) * 10
        sel = dict(sel_all, start=us(s1 - dt.timedelta(minutes=5)), end=us(s1 + dt.timedelta(minutes=5))) if leave else sel_all
        ops = [{"op": "write", "fs": 0, "s": us(s1), "e": us(s1), "v": v + 1, "slice": False, "fill": None, "call_args": None},
               {"op": "write", "fs": 0, "s": us(s2), "e": us(s2), "v": v + 2, "slice": False, "fill": None, "call_args": None},
               {"op": "find", "fs": 0, **sel_all},
               ({"op": "delete", "fs": 0, "dry": False, **sel} if how == "delete" else
                {"op": "move", "fs": 0, "copy": False, **sel, "target": {"kind": "fs", "fs": 1}, "convert": None, "conv_none": True}),
               {"op": "get", "fs": 0, "pick": 0, "pre_args": 0},
               {"op": "find", "fs": 0, **sel_all}]
        cases.append({"id": k0 + len(cases), "filesets": [f0, f1], "ops": ops, "directed": "removed-then-asked"})
    # filesets of ONE file (no placeholder in the path): move / copy / convert of the single file
    for v_, (copy, conv) in enumerate([(True, None), (False, None), (False, "true"), (True, "true"), (True, 5), (False, -1)]):
        kind = rng.choice(["pkl", "json"])
        sfx = SUFFIX[kind][0]
        f0 = dict(base, name="fs0", hkind=kind, path="d0/single" + sfx)
        f1 = dict(base, name="fs1", hkind=kind, path="d1/target" + sfx + (".gz" if v_ % 2 else ""))
        s1 = dt.datetime(2019, 7, 1, 12)
        v = rng.randrange(1, 50) * 10
        ops = [{"op": "write", "fs": 0, "s": us(s1), "e": us(s1 + dt.timedelta(hours=1)), "v": v + 1, "slice": True, "fill": None,
                "call_args": None},
               {"op": "find", "fs": 0, **sel_all},
               {"op": "move", "fs": 0, "copy": copy, **sel_all, "target": {"kind": "fs", "fs": 1}, "convert": conv,
                "conv_none": v_ % 2 == 0},
               {"op": "find", "fs": 1, **sel_all},
               {"op": "collect", "fs": 1, "slice": False, **sel_all, "call_args": None}]
        cases.append({"id": k0 + len(cases), "filesets": [f0, f1], "ops": ops, "directed": "single-file"})
    return cases


def directed_cases2(rng, k0):
    """(a) moves with conversion that fails for exactly one of four selected files over a year end (convert function /
    target handler; move and copy; thread, process and single workers; a selection by filter that leaves files out);
    (b) user handlers built from bound methods, every signature flavour, with default and per-call arguments."""
    cases = []
    base = {"sat": False, "cov": None, "rargs": 0, "wargs": 0, "post": None, "compress": True, "decompress": True,
            "worker": "thread", "csv_args": 0}
    sel_all = {"start": None, "end": None, "white": None, "black": None}
    variants = [("convert", False, "thread", None, 1, 5, False), ("handler", False, "thread", None, 0, "true", False),
                ("convert", False, "process", None, 2, -1, False), ("convert", True, "thread", None, 1, 0, False),
                ("handler", False, "thread", 1, 3, 5, False), ("convert", False, "thread", None, 0, "true", True)]
    for how, copy, worker, maxw, pick, conv, filt in variants:
        k1, k2 = rng.choice(["pkl", "json"]), rng.choice(["pkl", "json"])
        sat = "{sat}_" if filt else ""
        f0 = dict(base, name="fs0", hkind=k1, worker=worker, max_workers=maxw, sat=filt,
                  path="d0/{year}/{month}/" + sat + "{day}{hour}" + SUFFIX[k1][0],
                  rargs=rng.choice([0, 3]), post=rng.choice([None, 100]))
        f0["wargs"] = f0["rargs"]
        f1 = dict(base, name="fs1", hkind=k2, sat=filt, path="d1/" + ("{sat}/" if filt else "") + "{year}-{doy}T{hour}"
                  + SUFFIX[k2][0] + rng.choice(["", ".gz"]))
        day = rng.choice([dt.datetime(2019, 12, 30), dt.datetime(2020, 12, 30), dt.datetime(1999, 12, 30)])
        v = rng.randrange(1, 50) * 10
        ops = []
        for j in range(4):
            s_ = day + dt.timedelta(days=j, hours=6)
            ops.append({"op": "write", "fs": 0, "s": us(s_), "e": us(s_), "v": v + j + 1, "slice": False,
                        "fill": {"sat": SATS[j % 2]} if filt else None, "call_args": None})
        sel = dict(sel_all, white={"sat": [SATS[0]]}) if filt else sel_all
        ops += [{"op": "find", "fs": 0, **sel_all},
                {"op": "move", "fs": 0, "copy": copy, **sel, "target": {"kind": "fs", "fs": 1}, "convert": conv,
                 "conv_none": False, "fail": {"how": how, "pick": pick}},
                {"op": "find", "fs": 0, **sel_all},
                {"op": "collect", "fs": 0, "slice": False, **sel_all, "call_args": None},
                {"op": "find", "fs": 1, **sel_all}]
        cases.append({"id": k0 + len(cases), "filesets": [f0, f1], "ops": ops, "directed": "failing-move"})
    for rfl, wfl, rfl2, wfl2 in [(1, 1, 3, 2), (2, 2, 0, 1), (3, 3, 1, 0), (0, 1, 2, 3), (1, 0, 2, 2), (2, 3, 1, 1)]:
        k1, k2 = rng.choice(["pkl", "json"]), rng.choice(["pkl", "json"])
        f0 = dict(base, name="fs0", hkind=k1, rflav=rfl, wflav=wfl, rargs=3, wargs=3,
                  path="d0/{year}/{month}/{year}{month}{day}T{hour}{minute}{second}" + SUFFIX[k1][0])
        f1 = dict(base, name="fs1", hkind=k2, rflav=rfl2, wflav=wfl2, rargs=10, wargs=10,
                  path="d1/{year}{doy}_{hour}{minute}{second}" + SUFFIX[k2][0] + ".gz")
        day = rng.choice([dt.datetime(2018, 6, 1), dt.datetime(2020, 2, 28)])
        v = rng.randrange(1, 50) * 10
        s1, s2 = day + dt.timedelta(hours=3), day + dt.timedelta(days=1, hours=4)
        ops = [{"op": "write", "fs": 0, "s": us(s1), "e": us(s1), "v": v + 1, "slice": False, "fill": None, "call_args": None},
               {"op": "write", "fs": 0, "s": us(s2), "e": us(s2), "v": v + 2, "slice": False, "fill": None, "call_args": 4},
               {"op": "read", "fs": 0, "pick": 0, "pre_args": 0, "call_args": None},
               {"op": "read", "fs": 0, "pick": 1, "pre_args": 0, "call_args": 7},
               {"op": "get", "fs": 0, "pick": 1, "pre_args": 0},
               {"op": "collect", "fs": 0, "slice": False, **sel_all, "call_args": 6},
               {"op": "move", "fs": 0, "copy": True, **sel_all, "target": {"kind": "fs", "fs": 1}, "convert": "true",
                "conv_none": False},
               {"op": "collect", "fs": 1, "slice": False, **sel_all, "call_args": None},
               {"op": "read", "fs": 1, "pick": 0, "pre_args": 0, "call_args": -3}]
        cases.append({"id": k0 + len(cases), "filesets": [f0, f1], "ops": ops, "directed": "bound-method-handler"})
    return cases


def decorate(rng, cases):
    """Drawn AFTER every history has been generated, so that the histories of a seed stay what they were: the flavour of the
    user handlers (plain functions / bound methods, by signature) and, for moves with conversion, a payload for which
    the conversion fails (resolved by the child among the files the selection takes)."""
    for c in cases:
        for f in c["filesets"]:
            if f["hkind"] in ("pkl", "json") and rng.random() < 0.6:
                f["rflav"], f["wflav"] = rng.randrange(4), rng.randrange(4)
        for op in c["ops"]:
            if op["op"] == "move" and op.get("convert") is not None and rng.random() < 0.4:
                op["fail"] = {"how": rng.choice(["convert", "convert", "handler"]), "pick": rng.randrange(64)}


def directed_cases3(rng, k0):
    """(a) a copy is an independent file: files are copied WITHOUT conversion (move(copy=True)), then the original is
    written again under its own name -- fileset[s:e] = data and write(data, path): the handlers open the path for
    writing, the same inode is truncated -- and the copy is read; and the mirror image (the copy is overwritten, the
    original read).  The model's disk is a map path -> content: the other name keeps its content (copy_is_independent).
    (b) post_reader looks at the FileInfo it is handed (PostLabel): the same payloads in a plain and in compressed
    filesets, read through read(info), read("path"), fileset[t], fileset[s:e], collect, icollect and move(convert=..)."""
    cases = []
    base = {"sat": False, "cov": None, "rargs": 0, "wargs": 0, "post": None, "compress": True, "decompress": True,
            "worker": "thread", "csv_args": 0}
    sel_all = {"start": None, "end": None, "white": None, "black": None}
    # ---- (a): kind, compression suffix, target as fileset / as path, worker, which side is overwritten first, how
    variants = [("pkl", "", "fs", "thread", "orig", "setitem"), ("json", ".gz", "path", "thread", "copy", "write"),
                ("csv", "", "path", "thread", "orig", "write"), ("pkl", ".bz2", "fs", "process", "copy", "setitem"),
                ("csv", ".gz", "fs", "thread", "orig", "setitem"), ("json", "", "path", "thread", "orig", "write"),
                ("pkl", ".xz", "path", "thread", "copy", "write"), ("csv", "", "fs", "thread", "copy", "setitem")]
    for kind, comp, tkind, worker, first, how in variants:
        sfx = rng.choice(SUFFIX[kind]) + comp
        sat = rng.random() < 0.4
        f0 = dict(base, name="fs0", hkind=kind, worker=worker, sat=sat,
                  path="d0/{year}/{month}/" + ("{sat}_" if sat else "") + "{day}T{hour}" + sfx)
        tpath = "d1/" + ("{sat}/" if sat else "") + "{year}-{doy}_{hour}" + sfx
        f1 = dict(base, name="fs1", hkind=kind, sat=sat, path=tpath)
        day = rng.choice([dt.datetime(2017, 12, 31), dt.datetime(2020, 2, 28), dt.datetime(2019, 6, 30)])
        v = rng.randrange(1, 50) * 10
        ops = []
        for j in range(3):
            s_ = day + dt.timedelta(days=j, hours=6)
            ops.append({"op": "write", "fs": 0, "s": us(s_), "e": us(s_), "v": v + j + 1, "slice": False,
                        "fill": {"sat": SATS[j % 2]} if sat else None, "call_args": None})
        if tkind == "fs":
            filesets, tgt, ti = [f0, f1], {"kind": "fs", "fs": 1}, 1
        else:
            filesets, tgt, ti = [f0], {"kind": "path", "path": tpath}, 1     # the fileset move() returns joins the pool as 1
        a, b = (0, ti) if first == "orig" else (ti, 0)
        other = "write" if how == "setitem" else "setitem"
        ops += [{"op": "move", "fs": 0, "copy": True, **sel_all, "target": tgt, "convert": None, "conv_none": rng.random() < 0.5},
                {"op": "collect", "fs": ti, "slice": False, **sel_all, "call_args": None},
                # one side is written again, in place; the other side is read
                {"op": "overwrite", "fs": a, "pick": rng.randrange(3), "how": how, "v": v + 900, "after_copy": first},
                {"op": "collect", "fs": b, "slice": False, **sel_all, "call_args": None},
                {"op": "read", "fs": b, "pick": rng.randrange(6), "pre_args": 0, "call_args": None},
                # and the mirror image
                {"op": "overwrite", "fs": b, "pick": rng.randrange(3), "how": other, "v": v + 700,
                 "after_copy": "copy" if first == "orig" else "orig"},
                {"op": "collect", "fs": a, "slice": False, **sel_all, "call_args": None},
                {"op": "find", "fs": 0, **sel_all},
                {"op": "delete", "fs": a, "dry": False, **sel_all},
                {"op": "collect", "fs": b, "slice": False, **sel_all, "call_args": None}]
        cases.append({"id": k0 + len(cases), "filesets": filesets, "ops": ops, "directed": "copy-then-overwrite"})
    # ---- (b): kind, compression suffix of the fileset read from, of the fileset converted into, the conversion
    variants = [("pkl", "", ".gz", "true"), ("pkl", ".gz", "", 5), ("json", ".bz2", ".xz", "true"), ("csv", ".gz", "", "true"),
                ("csv", "", ".bz2", 0), ("json", ".xz", ".gz", -1), ("pkl", ".zip", ".gz", 0), ("csv", ".xz", ".xz", "true")]
    for kind, comp, comp2, conv in variants:
        sat = rng.random() < 0.5
        k2 = kind if conv == "true" or kind == "csv" else rng.choice(["pkl", "json"])
        f0 = dict(base, name="fs0", hkind=kind, sat=sat, post=rng.choice([0, 1, 100]), plabel=True,
                  cov=rng.choice([None, 3600]),
                  path="d0/{year}/{month}/" + ("{sat}_" if sat else "") + "{year}{month}{day}T{hour}{minute}" + SUFFIX[kind][0] + comp)
        f1 = dict(base, name="fs1", hkind=k2, sat=sat, post=rng.choice([0, -2]), plabel=True,
                  path="d1/" + ("{sat}/" if sat else "") + "{year}{doy}_{hour}{minute}" + SUFFIX[k2][0] + comp2)
        if kind in ("pkl", "json"):
            f0["rargs"] = f0["wargs"] = rng.choice([0, 3])
        day = rng.choice([dt.datetime(2018, 1, 1), dt.datetime(2020, 2, 29), dt.datetime(2019, 12, 31)])
        v = rng.randrange(1, 50) * 10
        times = [day + dt.timedelta(hours=3), day + dt.timedelta(hours=15, minutes=30), day + dt.timedelta(days=1, hours=1)]
        ops = [{"op": "write", "fs": 0, "s": us(t_), "e": us(t_), "v": v + j + 1, "slice": False,
                "fill": {"sat": SATS[j % 3]} if sat else None, "call_args": None} for j, t_ in enumerate(times)]
        sel = dict(sel_all, start=us(day), end=us(day + dt.timedelta(days=1)))
        ops += [{"op": "find", "fs": 0, **sel_all},
                {"op": "read", "fs": 0, "pick": 0, "pre_args": 0, "call_args": None},        # read(FileInfo)
                {"op": "read", "fs": 0, "pick": 2, "pre_args": 0, "call_args": None},
                {"op": "read", "fs": 0, "pick": 1, "pre_args": 0, "call_args": None},        # read("path")
                {"op": "get", "fs": 0, "pick": 1, "pre_args": 0},                            # fileset[t]
                {"op": "get", "fs": 0, "pick": 2, "pre_args": 0},
                {"op": "collect", "fs": 0, "slice": True, **sel, "call_args": None},         # fileset[s:e]
                {"op": "collect", "fs": 0, "slice": False, **sel_all, "call_args": None},    # collect
                {"op": "collect", "fs": 0, "slice": False, **sel_all, "call_args": None, "icollect": True},
                {"op": "collect", "fs": 0, "slice": False, **sel_all, "call_args": None, "use_files": 5},
                {"op": "move", "fs": 0, "copy": rng.random() < 0.5, **sel, "target": {"kind": "fs", "fs": 1}, "convert": conv,
                 "conv_none": False},
                {"op": "find", "fs": 1, **sel_all},
                {"op": "collect", "fs": 1, "slice": False, **sel_all, "call_args": None, "icollect": rng.random() < 0.5},
                {"op": "read", "fs": 1, "pick": 0, "pre_args": 0, "call_args": None},
                {"op": "get", "fs": 1, "pick": 1, "pre_args": 0}]
        cases.append({"id": k0 + len(cases), "filesets": [f0, f1], "ops": ops, "directed": "post-reader-sees-file-info"})
    return cases


def decorate2(rng, cases):
    """Drawn after everything else (the histories of a seed stay what they were up to here): post_readers that look at the
    FileInfo they are handed, the generator form of collect, and -- APPENDED to histories that copy files -- overwrites
    of an existing file of the source and of the target in place, each followed by a read of the other side."""
    sel_all = {"start": None, "end": None, "white": None, "black": None}
    for c in cases:
        for f in c["filesets"]:
            if f["post"] is not None:
                if rng.random() < 0.5:
                    f["plabel"] = True
            elif rng.random() < 0.15:
                f["post"], f["plabel"] = rng.choice([0, 1]), True
        nfs, paths_before, tail = len(c["filesets"]), 0, []
        for op in c["ops"]:
            if op["op"] == "collect" and not op.get("slice") and rng.random() < 0.3:
                op["icollect"] = True
            if op["op"] == "move" and op["target"]["kind"] == "path":
                paths_before += 1
            if op["op"] == "move" and op["copy"] and not tail and rng.random() < 0.8:
                ti = op["target"]["fs"] if op["target"]["kind"] == "fs" else nfs + paths_before - 1
                a, b = (op["fs"], ti) if rng.random() < 0.5 else (ti, op["fs"])
                v = rng.randrange(600, 700)
                tail = [{"op": "overwrite", "fs": a, "pick": rng.randrange(64), "how": rng.choice(["setitem", "write"]), "v": v,
                         "after_copy": "random"},
                        {"op": "collect", "fs": b, "slice": False, **sel_all, "call_args": None},
                        {"op": "overwrite", "fs": b, "pick": rng.randrange(64), "how": rng.choice(["setitem", "write"]),
                         "v": v + 1, "after_copy": "random"},
                        {"op": "collect", "fs": a, "slice": False, **sel_all, "call_args": None}]
        if tail:
            # the pool of the child has its final size here only if every path-move before succeeded; an index beyond the
            # pool wraps around (op["fs"] % len(pool)): still an overwrite of an existing file, compared like any other
            c["ops"] = c["ops"] + tail


def gv(b, names, shape):
    """payload of a grouped NetCDF data set (harness mk_grouped): v % 4 = layout (0 root variables first, 1 a group first,
    2 groups only, 3 flat), (v // 4) % 2 = which pair of group names"""
    return 8 * b + 4 * names + shape


def directed_cases4(k0):
    """Seed-independent (no random draw at all).
    (l) shared-base-name: a COMPRESSED fileset whose template gives the same base name to files in several sub directories
    (.../{day}/data.pkl.gz), 6-10 files, the fileset's temp_dir a directory inside the tree that also holds BYSTANDER files
    named like the decompressed base names (tmp/data.pkl), worker pools as FileSet chooses them, a user reader that holds its
    file open for a moment so that the reads of the worker threads / processes overlap.  Everything is read through collect(),
    fileset[s:e], icollect, collect(files=), fileset[t] and move(convert=..) in two halves.  The model prescribes: every file
    reads back its own payload, nothing raises, the bystanders and every unselected file stay (tree listing + SHA-1 of every
    file after each step), nothing remains in temp_dir.
    (k) netcdf-groups: data sets with pseudo groups through the NetCDF4 handler (root variables first / a group first / groups
    only / flat), overwritten in place by data sets of another layout and other group names, read back after every step: what
    is read is what was written last -- same variable set, values, dtypes, dimensions."""
    cases = []
    base = {"sat": False, "cov": None, "rargs": 0, "wargs": 0, "post": None, "compress": True, "decompress": True,
            "worker": "thread", "csv_args": 0}
    sel_all = {"start": None, "end": None, "white": None, "black": None}
    H = dt.timedelta(hours=1)
    D = dt.timedelta(days=1)
    d0 = dt.datetime(2018, 2, 26)          # runs over the end of February
    d1 = dt.datetime(2019, 12, 29)         # runs over New Year
    variants = [
        # kind, compression, template below d0/, file times, names of the bystanders, reader delay ms, workers, target
        ("pkl", ".gz", "{year}/{month}/{day}/data.pkl", [d0 + j * D for j in range(8)], ["data.pkl"], 120,
         "default", "d9/{year}{month}{day}T{hour}.pkl"),
        ("json", ".bz2", "{year}{month}/{day}/{hour}{minute}.json",
         [d0 + j * D + h for j in range(3) for h in (6 * H + H / 2, 12 * H)], ["0630.json", "1200.json"], 100,
         "default", "d9/{year}-{doy}_{hour}{minute}.json.gz"),
        ("pkl", ".xz", "{year}/{doy}/obs_{hour}.pkl", [d1 + j * D + h for j in range(5) for h in (3 * H, 15 * H)],
         ["obs_03.pkl", "obs_15.pkl"], 80, "thread", "d9/{year}/{month}/{year}{month}{day}{hour}.pkl.xz"),
        ("csv", ".gz", "{year}/{month}/{day}/table.csv", [d1 + j * D for j in range(6)], ["table.csv"], None,
         "default", "d9/{year}{doy}{hour}.txt"),
    ]
    for vi, (kind, comp, tpl, times, bys, slow, worker, tgt) in enumerate(variants):
        f0 = dict(base, name="fs0", hkind=kind, worker=worker, path="d0/" + tpl + comp, temp_dir="tmp", slow=slow)
        fb = [dict(base, name=f"by{j}", hkind=kind, path="tmp/" + b_) for j, b_ in enumerate(bys)]
        ft = dict(base, name="fst", hkind=kind, worker=worker, path=tgt, temp_dir="tmp")
        ti = 1 + len(fb)
        v = 100 * (vi + 1)
        ops = [{"op": "write", "fs": 1 + j, "s": us(times[0]), "e": us(times[0] + H), "v": v + 50 + j, "slice": True,
                "fill": None, "call_args": None} for j in range(len(fb))]
        ops += [{"op": "write", "fs": 0, "s": us(t_), "e": us(t_), "v": v + j + 1, "slice": False, "fill": None,
                 "call_args": None} for j, t_ in enumerate(times)]
        days = sorted({dt.datetime(t_.year, t_.month, t_.day) for t_ in times})
        mid = days[len(days) // 2]
        first = dict(sel_all, start=us(days[0]), end=us(mid))
        second = dict(sel_all, start=us(mid), end=us(days[-1] + D))
        ops += [{"op": "find", "fs": 0, **sel_all},
                {"op": "collect", "fs": 0, "slice": False, **sel_all, "call_args": None},                    # collect()
                {"op": "collect", "fs": 0, "slice": True, **dict(sel_all, start=us(days[1]), end=us(days[-1])),
                 "call_args": None},                                                                          # fileset[s:e]
                {"op": "collect", "fs": 0, "slice": False, **sel_all, "call_args": None, "icollect": True},  # icollect()
                {"op": "collect", "fs": 0, "slice": False, **sel_all, "call_args": None, "use_files": 0b101101},
                {"op": "read", "fs": 1, "pick": 0, "pre_args": 0, "call_args": None},                        # a bystander
                {"op": "get", "fs": 0, "pick": 1, "pre_args": 0},                                            # fileset[t]
                {"op": "move", "fs": 0, "copy": True, **first, "target": {"kind": "fs", "fs": ti}, "convert": "true",
                 "conv_none": False},
                {"op": "move", "fs": 0, "copy": False, **second, "target": {"kind": "fs", "fs": ti}, "convert": 5,
                 "conv_none": False},
                {"op": "find", "fs": ti, **sel_all},
                {"op": "collect", "fs": ti, "slice": False, **sel_all, "call_args": None},
                {"op": "find", "fs": 0, **sel_all},
                {"op": "collect", "fs": 0, "slice": True, **sel_all, "call_args": None},
                {"op": "read", "fs": len(fb), "pick": 0, "pre_args": 0, "call_args": None}]
        cases.append({"id": k0 + len(cases), "filesets": [f0] + fb + [ft], "ops": ops, "directed": "shared-base-name",
                      "digest": True})
    # ---- (k): suffix, compression, how the overwrites are done, compression of the fileset converted into
    for vi, (sfx, comp, how, comp2) in enumerate([(".nc", "", "setitem", ".gz"), (".nc", ".gz", "write", ""),
                                                  (".h5", "", "write", "")]):
        f0 = dict(base, name="fs0", hkind="ncg", path="d0/{year}/{month}/{year}{month}{day}" + sfx + comp)
        f1 = dict(base, name="fs1", hkind="ncg", path="d1/{year}{doy}" + sfx + comp2)
        day = [dt.datetime(2018, 1, 1), dt.datetime(2020, 2, 27), dt.datetime(2019, 12, 30)][vi]
        b = 5 + 10 * vi
        other = "write" if how == "setitem" else "setitem"
        # four files: root variables first, a group first, groups only, flat
        ops = [{"op": "write", "fs": 0, "s": us(day + j * D), "e": us(day + j * D), "v": gv(b, 0, j), "slice": False,
                "fill": None, "call_args": None} for j in range(4)]
        ops += [{"op": "collect", "fs": 0, "slice": False, **sel_all, "call_args": None},
                {"op": "read", "fs": 0, "pick": 1, "pre_args": 0, "call_args": None},
                {"op": "get", "fs": 0, "pick": 2, "pre_args": 0}]
        # overwrites in place: flat -> groups only; groups only -> groups only under other names; root first -> a group
        # first under other names; a group first -> flat; groups only -> root first; each read back at once
        for pick, v_, hw in [(3, gv(b + 1, 1, 2), how), (2, gv(b + 2, 1, 2), other), (0, gv(b + 3, 1, 1), how),
                             (1, gv(b + 4, 0, 3), other), (3, gv(b + 5, 0, 0), how), (1, gv(b + 6, 0, 2), how)]:
            ops += [{"op": "overwrite", "fs": 0, "pick": pick, "how": hw, "v": v_, "after_copy": "netcdf-groups"},
                    {"op": "read", "fs": 0, "pick": pick, "pre_args": 0, "call_args": None}]
        ops += [{"op": "collect", "fs": 0, "slice": True, **sel_all, "call_args": None},
                {"op": "move", "fs": 0, "copy": True, **sel_all, "target": {"kind": "fs", "fs": 1}, "convert": "true",
                 "conv_none": False},
                {"op": "collect", "fs": 1, "slice": False, **sel_all, "call_args": None},
                # a converted copy onto files that exist is outside move_conserves; overwrite them through the fileset
                {"op": "overwrite", "fs": 1, "pick": 2, "how": other, "v": gv(b + 7, 1, 2), "after_copy": "netcdf-groups"},
                {"op": "overwrite", "fs": 1, "pick": 0, "how": how, "v": gv(b + 8, 1, 1), "after_copy": "netcdf-groups"},
                {"op": "collect", "fs": 1, "slice": False, **sel_all, "call_args": None}]
        cases.append({"id": k0 + len(cases), "filesets": [f0, f1], "ops": ops, "directed": "netcdf-groups"})
    return cases


def decorate3(rng, cases):
    """Drawn after everything else: half of the histories with NetCDF filesets (thorough tier) store data sets with pseudo
    groups (kind ncg; every NetCDF fileset of the history, so that a move with convert=True stays within one layout)."""
    for c in cases:
        if any(f["hkind"] == "nc" for f in c["filesets"]) and rng.random() < 0.5:
            for f in c["filesets"]:
                if f["hkind"] == "nc":
                    f["hkind"] = "ncg"


# ----------------------------------------------------------------------------- Coq terms

import re
_PH = re.compile(r"\{(\w+)\}")
FIELD = {"year": "FYear", "year2": "FYear2", "month": "FMonth", "day": "FDay", "doy": "FDoy", "hour": "FHour",
         "minute": "FMinute", "second": "FSecond", "millisecond": "FMilli"}


def tokens(path):
    out, pos = [], 0
    path = "R/" + path
    for m in _PH.finditer(path):
        if m.start() > pos:
            out.append(f"Lit (s2l {coq_string(path[pos:m.start()])})")
        n = m.group(1)
        base = n[4:] if n.startswith("end_") else n
        if base in FIELD:
            out.append(f"T {coq_bool(n.startswith('end_'))} {FIELD[base]}")
        else:
            out.append(f"U (s2l {coq_string(n)}) (Some UAny)")
        pos = m.end()
    if pos < len(path):
        out.append(f"Lit (s2l {coq_string(path[pos:])})")
    return coq_list(out)


HCODE = {"pkl": 1, "json": 2, "csv": 3, "nc": 4, "ncg": 4}      # ncg: NetCDF data sets with pseudo groups (same handler)


def post_term(cfg):
    """post_reader of the model: entry -> payload -> payload (t_label looks at the entry, t_add does not)"""
    if cfg["post"] is None:
        return "(fun _ x => x)"
    return f"({'t_label' if cfg.get('plabel') else 't_add'} {zlit(cfg['post'])})"


def fset_term(cfg):
    cov = "None" if cfg["cov"] is None else f"(Some {zlit(cfg['cov'] * 1000000)})"
    post = post_term(cfg)
    return (f"(FSet {tokens(cfg['path'])} {cov} {HCODE[cfg['hkind']]} {zlit(cfg['rargs'])} {zlit(cfg['wargs'])} "
            f"{post} {coq_bool(cfg['compress'])} {coq_bool(cfg['decompress'])})")


def kw_term(k):
    return "(kw_in [])" if not k else f"(kw_in [({coq_string('offset')}, {zlit(k)})])"


def fobj_term(cfg):
    """the FileSet OBJECT of the model: default dictionaries instead of the codes the handler reads from them"""
    cov = "None" if cfg["cov"] is None else f"(Some {zlit(cfg['cov'] * 1000000)})"
    post = post_term(cfg)
    return (f"(FObj {tokens(cfg['path'])} {cov} {HCODE[cfg['hkind']]} {kw_term(cfg['rargs'])} {kw_term(cfg['wargs'])} "
            f"{post} {coq_bool(cfg['compress'])} {coq_bool(cfg['decompress'])})")


def info_term(op):
    """the FileInfo handed to read(): FileInfo(path) for a string (no times, no attributes), else get_info(path) --
    the entry find() reports for that file (computed by the model from the name)"""
    p = f"(s2l {coq_string(op['path'])})"
    return f"(bare {p})" if op.get("bare") else f"(t_info {fset_term(op['cfg'])} {p})"


def call_term(op):
    """read / collect / write with keyword arguments of the call itself (None: the call has none)"""
    if op.get("call") is None or op["cfg"]["hkind"] not in ("pkl", "json"):
        return None
    a, n = kw_term(op["call"]) if op["call"] else f"(kw_in [({coq_string('offset')}, 0)])", op["op"]
    if n == "read" and "path" in op:
        return f"(CRead {a} {info_term(op)})"
    if n == "collect":
        return f"(CCollect {a} {sel_term(op)})"
    if n == "write" and "path" in op:
        return f"(CWrite {a} {zlit(op['v'])} (s2l {coq_string(op['path'])}))"
    return None


def filt_term(f):
    if not f:
        return "(filt_in [])"
    return "(filt_in " + coq_list([f"({coq_string(k)}, {coq_list([coq_string(v) for v in vs])})"
                                   for k, vs in sorted(f.items())]) + ")"


def sel_term(op):
    start = 0 if op.get("start") is None else op["start"]
    stop = DT_MAX - 1 if op.get("end") is None else op["end"]
    files = "None"
    if op.get("files") is not None:
        files = "(Some " + coq_list([f"s2l {coq_string(p)}" for p in op["files"]]) + ")"
        return f"(Sel 0 {zlit(DT_MAX - 1)} (filt_in []) (filt_in []) {files})"
    return f"(Sel {zlit(start)} {zlit(stop)} {filt_term(op.get('white'))} {filt_term(op.get('black'))} None)"


def attrs_term(fill):
    return "(attrs_in " + coq_list([f"({coq_string(k)}, {coq_string(v)})" for k, v in sorted((fill or {}).items())]) + ")"


def op_term(op):
    F = fset_term(op["cfg"])
    n = op["op"]
    if n == "write":
        e = op["e"] if op["slice"] else op["s"]
        return f"(OWrite {F} {zlit(op['s'])} {zlit(e)} {attrs_term(op.get('fill'))} {zlit(op['v'])})"
    if n == "overwrite":
        if op.get("how") == "setitem":
            return f"(OWrite {F} {zlit(op['s'])} {zlit(op['e'])} {attrs_term(op.get('fill'))} {zlit(op['v'])})"
        return f"(OWriteAt {F} (s2l {coq_string(op['path'])}) {zlit(op['v'])})"
    if n == "read":
        return f"(ORead {F} {info_term(op)})"
    if n == "get":
        return f"(OGet {F} {zlit(op['t'])})"
    if n == "collect":
        return f"(OCollect {F} {sel_term(op)})"
    if n == "find":
        return f"(OFind {F} {sel_term(op)})"
    if n == "move":
        c = op.get("convert")
        conv = "None" if c is None else ("(Some (fun x : Z => x))" if c == "true" else f"(Some (Z.add {zlit(c)}))")
        return f"(OMove {F} {fset_term(op['target_cfg'])} {coq_bool(op['copy'])} {conv} {sel_term(op)})"
    if n == "delete":
        return f"(ODelete {F} {coq_bool(op['dry'])} {sel_term(op)})"
    raise ValueError(n)


def injected(op):
    """a move for which the child resolved a payload whose conversion fails"""
    return op["op"] == "move" and isinstance(op.get("fail"), dict) and "store" in op["fail"]


def movep_term(op, before, after):
    f, c = op["fail"], op["convert"]
    wbad = "None" if f["store"] is None else f"(Some {zlit(f['store'])})"
    cbad = "None" if f["convert"] is None else f"(Some {zlit(f['convert'])})"
    k = 0 if c == "true" else int(c)
    return (f"run_movep {wbad} {fset_term(op['cfg'])} {fset_term(op['target_cfg'])} {coq_bool(op['copy'])} "
            f"(Some (t_convp {zlit(k)} {cbad})) {sel_term(op)} {disk_term(before)} {disk_term(after)}")


def disk_term(listing):
    return coq_list([f"({coq_string(p)}, {core.zlist(t)})" for p, t in sorted(listing.items())])


# ----------------------------------------------------------------------------- running the implementation

def run_children(ctx, cases, label, chunk=12, jobs=8, timeout=900):
    work = ctx.work / "run"
    work.mkdir(parents=True, exist_ok=True)
    for old in work.glob(f"{label}_*.json"):
        old.unlink()
    chunks = [cases[i:i + chunk] for i in range(0, len(cases), chunk)]

    def one(ic):
        i, cs = ic
        fin, fout = work / f"{label}_{i:04d}_in.json", work / f"{label}_{i:04d}_out.json"
        fin.write_text(json.dumps(cs))
        r = core.run_py(HARNESS, [fin, fout], timeout=timeout)
        if r.returncode != 0 or not fout.exists():
            return [{"id": c["id"], "crash": f"child rc={r.returncode}: {(r.stderr or r.stdout)[-800:]}"} for c in cs]
        res = json.loads(fout.read_text())
        fin.unlink()
        fout.unlink()
        return res
    out = []
    with ThreadPoolExecutor(max_workers=jobs) as ex:
        for res in ex.map(one, enumerate(chunks)):
            out.extend(res)
    return {r["id"]: r for r in out}


# ----------------------------------------------------------------------------- comparison

def norm(v):
    """core.parse_term leaves a bare constructor in argument position as ('#', name)"""
    if isinstance(v, tuple):
        if len(v) == 2 and v[0] == "#":
            return v[1]
        return tuple(norm(x) for x in v)
    if isinstance(v, list):
        return [norm(x) for x in v]
    return v


def model_err(e):
    if isinstance(e, tuple):
        return "EName"
    return {"ENoFiles": "ENoFiles", "ENoFile": "ENoFile", "ESame": "ESame", "EPeriod": "EPeriod"}.get(e, "Other")


def label_hint(op, got, want):
    """for a fileset whose post_reader labels the payload with the FileInfo it is handed: say what a wrong label means"""
    try:
        if op["cfg"].get("plabel") and got != want and (int(got) - int(want)) % 1000 == 0:
            return (" -- this fileset's post_reader adds 1000 * checksum(file_info.path, .times, .attr) to the payload: the two "
                    f"numbers differ by {int(got) - int(want)}, a multiple of 1000 (same payload and offset, another checksum): "
                    "post_reader was NOT handed the FileInfo of the file that was read (path relative to the tree, times and "
                    "attributes as find() reports them; e.g. that of the temporary decompressed file instead)")
    except Exception:  # noqa
        pass
    return ""


def describe(op):
    keep = {k: v for k, v in op.items() if k not in ("cfg", "target_cfg")}
    return f"{keep} on fileset {op['cfg']['path']}" + (f" -> {op['target_cfg']['path']}" if "target_cfg" in op else "")


def check_cases(ctx, cases, results):
    exprs, index = [], []
    for c in cases:
        r = results.get(c["id"])
        if r is None or "crash" in r:
            ctx.fail("correspondence", f"the harness child crashed on history {c['id']}: {(r or {}).get('crash')} "
                     f"{(r or {}).get('tb', '')[-400:]}", case=c, signature="harness-crash")
            continue
        before = {}
        prev_links = []
        prev_sha = None
        for k, rec in enumerate(r["records"]):
            rec["prev_links"], prev_links = prev_links, rec.get("links") or []
            rec["prev_sha"], prev_sha = prev_sha, rec.get("sha")
            if rec["out"]["status"] != "skipped":
                op = rec["op"]
                ct = call_term(op)
                if injected(op):        # (all files convertible: tree | first error, tree given what arrived, failing files, hyp)
                    res = movep_term(op, before, rec["after"])
                elif ct is not None:    # (outcome, read defaults after, write defaults after) of the call on the object
                    res = f"run_call {fobj_term(op['cfg'])} {ct} {disk_term(before)}, true"
                else:
                    res = (f"run_step {op_term(op)} {disk_term(before)}, @nil (string * Z), @nil (string * Z), "
                           f"op_hyp {op_term(op)} (in_disk {disk_term(before)})")
                if op["op"] == "write":
                    e = op["e"] if op["slice"] else op["s"]
                    wif = f"run_wif {fset_term(op['cfg'])} {zlit(op['s'])} {zlit(e)} {attrs_term(op.get('fill'))}"
                else:
                    wif = "(false, false, @None Z, EmptyString)"
                exprs.append(f"({res}, {wif})")
                index.append((c, k, rec, dict(before)))
            before = rec["after"]
    vals, log = core.coq_eval(ctx.work / "cases", f"hist{os.getpid()}", PREAMBLE, exprs, shard=120)
    if log:
        ctx.log(log[-2000:])
    nontrivial = set()
    kinds = {}
    skipped_hyp = [0]
    calls = [0]
    wstats = {}
    fstats = {}
    ostats = {}
    for (c, k, rec, before), v in zip(index, vals):
        ctx.cov["evaluations"] += 1
        op, out, after = rec["op"], rec["out"], rec["after"]
        kinds[op["op"]] = kinds.get(op["op"], 0) + 1
        # ---- an additional law (the overwrite histories catch shared files on their own): no two paths of the tree are one
        # and the same file.  move(copy=True) promises an independent copy; a copy that is a hard link keeps its content
        # only until either name is written again
        lk = rec.get("links") or []
        if lk and lk != rec.get("prev_links"):
            ctx.fail("failing-input", f"after {op['op']} (copy={op.get('copy')}) the paths {lk} of the tree are one and the same file "
                     f"(same inode, st_nlink > 1): a copy must be an independent file -- it keeps its content when the "
                     f"original is written again, and a write to the copy touches no unselected file; history {c['id']} step "
                     f"{k}: {describe(op)}", case=c, impl=lk, model=[], signature="paths-share-inode")
        if op["op"] == "overwrite":
            ostats[op.get("after_copy", "other")] = ostats.get(op.get("after_copy", "other"), 0) + 1
        # ---- an operation that only reads leaves every file of the tree byte for byte as it was (and leaves nothing behind)
        if (op["op"] in ("read", "get", "collect", "find") and rec.get("sha") is not None and rec.get("prev_sha") is not None):
            kinds["read_only_steps_with_digests_compared"] = kinds.get("read_only_steps_with_digests_compared", 0) + 1
            if rec["sha"] != rec["prev_sha"]:
                a_, b_ = rec["prev_sha"], rec["sha"]
                ctx.fail("failing-input", f"{op['op']} only reads, but the files of the tree are not byte for byte what they were: "
                         f"gone {sorted(set(a_) - set(b_))}, new {sorted(set(b_) - set(a_))}, bytes changed "
                         f"{sorted(p for p in set(a_) & set(b_) if a_[p] != b_[p])} (temp_dir of the fileset is "
                         f"{op['cfg'].get('temp_dir')}/ inside the tree: reading a compressed file must not touch a file that is "
                         f"already there, and must leave nothing behind); history {c['id']} step {k}: {describe(op)}", case=c,
                         impl=sorted(b_.items()), model=sorted(a_.items()), signature="read-changes-bytes")
        if v is None:
            ctx.fail("correspondence", f"Coq evaluation of the model failed on {describe(op)}", case=c, signature="coq-eval")
            continue
        mres, mrd, mwd, hyp, wif = norm(v[0]), v[1], v[2], v[3], v[4]
        kind = "failing-input" if hyp else "correspondence"
        name = op["op"]
        where = f"history {c['id']} step {k}: {describe(op)}; tree before: {sorted(before)}"
        if injected(op):
            # v = (sequential model, tree prescribed given what arrived, failing files, hypotheses, -)
            mres, mrd, mwd = check_failed_move(ctx, c, op, out, before, after, norm(v[0]), norm(v[1]), v[2], hyp, where,
                                               fstats, nontrivial)
            if mres is None:
                obj, obj_init = out.get("obj"), out.get("obj_init")
                if obj is not None and obj != obj_init:
                    ctx.fail("failing-input", f"after a failed move the FileSet object carries other default arguments than "
                             f"before: {obj} instead of {obj_init}; {where}", case=c, impl=obj, model=obj_init,
                             signature="object-state-changed")
                continue
        is_call = call_term(op) is not None
        if is_call:
            calls[0] += 1
        if op.get("files") == [] and name in ("move", "delete"):
            kinds["empty_explicit_selections"] = kinds.get("empty_explicit_selections", 0) + 1
        # ---- calls_keep_object: the default dictionaries of the object after the operation
        obj, obj_init = out.get("obj"), out.get("obj_init")
        if obj is not None and obj != obj_init:
            ctx.fail("failing-input", f"after {name} the FileSet object carries other default arguments than before: "
                     f"{obj} instead of {obj_init} (the arguments of a call must not stick to the object); {where}",
                     case=c, impl=obj, model=obj_init, signature="object-state-changed")
        elif is_call and isinstance(obj, dict):
            want = {"read_args": {a: b for a, b in mrd}, "write_args": {a: b for a, b in mwd}}
            if obj != want:
                ctx.fail("failing-input", f"after {name} with arguments of its own the object's defaults are {obj}, the "
                         f"model's object keeps {want}; {where}", case=c, impl=obj, model=want,
                         signature="object-state-changed")
        if mres[0] == "TBad":
            want = model_err(mres[1])
            if out["status"] != "err":
                ctx.fail("correspondence", f"{name} succeeded but the model expects the error {mres[1]}; {where}", case=c,
                         impl=out, model=str(mres), signature=f"{name}-no-error")
            elif out["err"] != want:
                ctx.fail("correspondence", f"{name} raised {out['exc']} but the model expects {mres[1]}; {where}", case=c,
                         impl=out, model=str(mres), signature=f"{name}-error-class")
            continue
        _, mdisk, mobs = mres
        mdisk = {p: list(t) for p, t in mdisk}
        if name == "move" and not hyp:
            # target names collide or exist already: which content survives depends on the order in which the
            # worker threads treat the files -- outside the theorem's hypotheses, nothing is compared
            skipped_hyp[0] += 1
            continue
        if mobs == "TUnspecified":
            if op.get("ghost"):
                kinds["get_at_the_time_of_a_removed_file"] = kinds.get("get_at_the_time_of_a_removed_file", 0) + 1
                if out["status"] == "err" and out.get("exc", "").startswith("FileNotFoundError"):
                    ctx.fail("failing-input", f"fileset[t] at the time of a file that this object's own delete() / move() removed "
                             f"hands the removed file to the handler ({out['exc']}): the file is gone from the tree but not from "
                             f"the fileset; {where}", case=c, impl=out, signature="removed-file-handed-out")
            if after != before:
                ctx.fail("failing-input", f"{name} changed the tree; {where}", case=c, impl=sorted(after.items()),
                         model=sorted(before.items()), signature=f"{name}-tree")
            continue
        if out["status"] == "err":
            ctx.fail(kind, f"{name} raised {out['exc']} where the property prescribes a result (tree after: "
                     f"{sorted(mdisk)}); {where}", case=c, impl=out, model=sorted(mdisk.items()), signature=f"{name}-raises")
            continue
        if mdisk != after:
            lost = sorted(set(mdisk) - set(after))
            extra = sorted(set(after) - set(mdisk))
            diff = sorted(p for p in set(mdisk) & set(after) if mdisk[p] != after[p])
            ctx.fail(kind, f"after {name} the tree differs from what the property prescribes: missing {lost}, unexpected "
                     f"{extra}, content [compression, handler, payload] differs at "
                     f"{[(p, after[p], mdisk[p]) for p in diff]}; {where}", case=c, impl=sorted(after.items()),
                     model=sorted(mdisk.items()), signature=f"{name}-tree")
            continue
        if out.get("faithful", True) is not True:
            ctx.fail("failing-input", f"{name}: the object read back is not equal to the object written "
                     f"({out['faithful']}); {where}", case=c, impl=out,
                     signature=f"{op['cfg']['hkind']}-read-back-differs")
        if name == "write":
            check_written_found(ctx, c, op, out, wif, where, wstats)
        val = out.get("value")
        if name in ("read", "get") and mobs != "TUnspecified":
            if mobs != ("TData", val):
                ctx.fail(kind, f"{name} returned payload {val}, the property prescribes {mobs}"
                         f"{label_hint(op, val, mobs[1] if isinstance(mobs, tuple) else None)}; {where}", case=c, impl=out,
                         model=str(mobs), signature=f"{name}-value")
        elif name == "collect":
            want = sorted([p, x] for p, x in mobs[1]) if isinstance(mobs, tuple) else []
            got = sorted(val)
            if got and got[0][0] is None:
                want, got = sorted(x for _, x in want), sorted(x for _, x in got)
            if want != got:
                hint = next((label_hint(op, g if not isinstance(g, list) else g[1], w if not isinstance(w, list) else w[1])
                             for g, w in zip(got, want) if g != w), "") if len(got) == len(want) else ""
                ctx.fail(kind, f"collect returned {got}, the property prescribes {want}{hint}; {where}", case=c, impl=out,
                         model=str(mobs), signature="collect-value")
        elif name == "find":
            want = sorted([p, s, e, sorted([a, b] for a, b in at)] for p, s, e, at in (mobs[1] if isinstance(mobs, tuple) else []))
            if want != sorted(val):
                ctx.fail("correspondence", f"find returned {sorted(val)}, the brute-force filter gives {want}; {where}",
                         case=c, impl=out, model=str(mobs), signature="find-value")
        changed = mdisk != before
        if changed or (name in ("read", "get", "collect") and val not in (None, [])):
            nontrivial.add(repr((json.dumps({k_: v_ for k_, v_ in op.items()}, sort_keys=True, default=str),
                                 sorted(before.items()))))
        if name in ("move", "delete") and changed:
            ctx.sample({"op": {k_: v_ for k_, v_ in op.items() if k_ not in ("cfg", "target_cfg")},
                        "source": op["cfg"]["path"], "target": op.get("target_cfg", {}).get("path"),
                        "before": sorted(before.items())[:6], "after": sorted(after.items())[:6]})
    kinds["moves_outside_hypotheses_not_compared"] = skipped_hyp[0]
    kinds["calls_with_arguments_of_their_own"] = calls[0]
    kinds["written_is_found_law"] = wstats
    kinds["moves_with_a_conversion_that_may_fail"] = fstats
    kinds["overwrites_of_an_existing_file_in_place"] = ostats
    return len(nontrivial), kinds


def check_failed_move(ctx, c, op, out, before, after, full, given, fails, hyp, where, stats, nontrivial):
    """move_given_sound on the implementation's output.  Returns (None, ..) when the case is settled here, or the
    triple (mres, [], []) with which the ordinary comparison of a move goes on (no selected file has the payload)."""
    def count(k):
        stats[k] = stats.get(k, 0) + 1
    count("resolved")
    err = model_err(full[1]) if full[0] == "TBad" else None
    if not fails or (err is not None and err != "Other"):
        # the conversion fails for no selected file, or the selection / a target name raises: a move like any other
        count("no_selected_file_has_the_payload")
        return full, [], []
    count("conversion_fails_for_a_selected_file")
    if not hyp:
        count("outside_hypotheses_not_compared")
        return None, None, None
    how = "the convert function raises" if op["fail"]["convert"] is not None else "the handler of the target cannot store it"
    if out["status"] != "err":
        ctx.fail("correspondence", f"move returned normally although the conversion cannot succeed for {fails} ({how}); {where}",
                 case=c, impl=out, model=str(full), signature="move-no-error")
    if given[0] == "TBad":
        ctx.fail("failing-input", f"after a move that failed for {fails} ({how}) a file whose conversion cannot succeed is "
                 f"present under its target name, or a file that arrived cannot be accounted for ({given[1]}); tree after: "
                 f"{sorted(after.items())}; {where}", case=c, impl=sorted(after.items()), model=str(given),
                 signature="failed-move-tree")
        return None, None, None
    mdisk = {p: list(t) for p, t in given[1]}
    if mdisk != after:
        lost = sorted(set(mdisk) - set(after))
        extra = sorted(set(after) - set(mdisk))
        diff = sorted(p for p in set(mdisk) & set(after) if mdisk[p] != after[p])
        ctx.fail("failing-input", f"after a move whose conversion failed for {fails} ({how}; {out.get('exc')}) the tree is not "
                 f"what the property prescribes -- a file that did not arrive at its target is still at its source with its "
                 f"content, a file that arrived is converted and (unless copy) removed, nothing else changes: LOST {lost}, "
                 f"unexpected {extra}, content differs at {[(p, after[p], mdisk[p]) for p in diff]}; {where}", case=c,
                 impl=sorted(after.items()), model=sorted(mdisk.items()), signature="failed-move-tree")
        return None, None, None
    count("compared_equal")
    if after != before:
        count("of_which_other_files_were_moved_before_the_move_raised")
    nontrivial.add(repr((json.dumps({k_: v_ for k_, v_ in op.items()}, sort_keys=True, default=str), sorted(before.items()))))
    return None, None, None


def end_kind(path):
    ends = [m for m in _PH.findall(path) if m.startswith("end_")]
    if not ends:
        return "no_end_fields"
    return "complete_end" if any(m in ("end_year", "end_year2") for m in ends) else "sub_day_end"


def check_written_found(ctx, c, op, out, wif, where, stats):
    """written_is_found_law on the implementation's output: wif = (hypotheses, exact class, Some end | None)"""
    def count(k):
        stats[k] = stats.get(k, 0) + 1
    hyp, exact, period, name = wif
    if out.get("written") is not None and name != out["written"]:
        ctx.fail("failing-input", f"the file was written under the name {out['written']}, the template generates {name}; "
                 f"{where}", case=c, impl=out["written"], model=name, signature="write-name")
    if not hyp:
        count("outside_hypotheses_not_checked")
        return
    if period is None:
        count("overflow_not_checked")
        return
    e_want = period[1]
    s, e = op["s"], (op["e"] if op["slice"] else op["s"])
    ek = end_kind(op["cfg"]["path"])
    count(ek + ("_exact_class" if exact else "_outside_exact_class" if ek == "sub_day_end" else ""))
    if ek == "sub_day_end" and e_want != e:
        count("sub_day_end_found_under_another_end_than_written")
    if exact and e_want != e:
        ctx.fail("correspondence", f"model inconsistency: exact class but promised end {e_want} != {e}; {where}", case=c,
                 signature="coq-eval")
    if "found_error" in out:
        ctx.fail("failing-input", f"after the write find() raised {out['found_error']} instead of reporting the file; {where}",
                 case=c, impl=out, signature="written-not-found")
        return
    found = out.get("found")
    if not found:
        ctx.fail("failing-input", f"the file just written ({out.get('written')}) is not found by find({s}, {s} + 1us), the "
                 f"property prescribes the period ({s}, {e_want}); {where}", case=c, impl=out, signature="written-not-found")
        return
    placeholders = [m for m in _PH.findall(op["cfg"]["path"]) if m not in FIELD and not m.startswith("end_")]
    fill = op.get("fill") or {}
    want_attr = sorted([n, fill[n]] for n in set(placeholders) if n in fill)
    want = [[out["written"], s, e_want, want_attr]]
    if found != want:
        ctx.fail("failing-input", f"the file written with fileset[{s}:{e}] is reported by find() as {found}, the property "
                 f"prescribes {want} ({'the period it was written with' if e_want == e else 'the rolled period'}); {where}",
                 case=c, impl=found, model=want, signature="written-period")


def run(ctx):
    ctx.prove("Props/C11.v")
    n = ctx.n(60, 600)
    cases = [gen_case(ctx.rng, k, ctx.tier) for k in range(n)]
    nnc = 0
    if ctx.thorough:
        nnc = 40
        cases += [gen_case(ctx.rng, n + k, ctx.tier, force_nc=True) for k in range(nnc)]
    ndir = directed_cases(ctx.rng, len(cases))
    ndir += directed_cases2(ctx.rng, len(cases) + len(ndir))
    decorate(ctx.rng, cases)        # after every generator draw: the random histories of a seed stay what they were
    ndir += directed_cases3(ctx.rng, len(cases) + len(ndir))
    decorate2(ctx.rng, cases)       # after the draws of every earlier generator, for the same reason
    ndir += directed_cases4(len(cases) + len(ndir))      # no random draw
    decorate3(ctx.rng, cases)       # the last draws
    cases += ndir
    ctx.log(f"{len(cases)} histories ({len(ndir)} directed), {sum(len(c['ops']) for c in cases)} operations")
    results = run_children(ctx, cases, f"h{os.getpid()}", chunk=6 if not ctx.thorough else 16, jobs=12)
    ctx.log("implementation runs finished")
    nt, kinds = check_cases(ctx, cases, results)
    ctx.cov["distinct_nontrivial"] = nt
    ctx.cov["rule"] = ("one evaluation = one operation of a history (write / overwrite / read / exact-time read / collect / "
                       "find / move / copy / convert / delete / dry run) compared with the model's step on the observed tree; "
                       "non-trivial = the operation succeeded and changed the tree, or returned at least one payload that "
                       "was compared; distinct by (operation, tree before)")
    ctx.cov["input_distribution"] = {"histories": len(cases), "netcdf_histories_in_child_process": nnc,
                                     "directed_histories": {d_: sum(1 for c in ndir if c.get("directed") == d_) for d_ in ("year-end", "removed-then-asked", "single-file", "failing-move", "bound-method-handler", "copy-then-overwrite", "post-reader-sees-file-info", "shared-base-name", "netcdf-groups")},
                                     "operations_by_kind": kinds,
                                     "handlers": {k: sum(1 for c in cases for f in c["filesets"] if f["hkind"] == k)
                                                  for k in ("pkl", "json", "csv", "nc", "ncg")},
                                     "user_handler_flavours_reader_writer": {
                                         f"{a}{b}": sum(1 for c in cases for f in c["filesets"] if f["hkind"] in ("pkl", "json")
                                                        and (f.get("rflav", 0), f.get("wflav", 0)) == (a, b))
                                         for a in range(4) for b in range(4)},
                                     "compressed_templates": sum(1 for c in cases for f in c["filesets"]
                                                                 if f["path"].rsplit(".", 1)[-1] in ("gz", "bz2", "xz", "zip"))}
    ctx.assumptions += [
        "hypothesis of move_conserves, checked per operation inside Coq (op_hyp): the target names of the selected files "
        "are pairwise distinct and do not exist yet; other operations are compared with the algorithmic model only",
        "files are created through the filesets themselves (names consistent with their directories), last at most a few hours "
        "(up to 47 h only on templates with a sub-day end, whose parsed period stays below one day)",
        "hypotheses of written_is_found_law, evaluated per write inside Coq (wif_hyp = those of C02 no_end_fields / "
        "roundtrip_end_full / roundtrip_end_partial; wif_exact = those of end_partial_exact): outside them the period find() "
        "reports is only compared with the model on find operations",
        "per-call keyword arguments are exercised with the one keyword the pickle / JSON test handlers take (offset); the "
        "default dictionaries of every FileSet object are observed after every operation for all handlers",
        "a fileset whose name ends in .zip is only moved with convert (a renamed zip archive keeps its member name: C12)",
        "moves whose conversion fails: compared under the hypotheses of move_failure_conserves (movep_hyp, evaluated in Coq); "
        "DETERMINED and compared: the failing file is untouched at its source, nothing is under its target name, every other "
        "selected file is either moved (converted, original removed unless copy) or untouched, no other path changed, move() "
        "raises; NOT determined and not compared: which of the convertible files were moved before move() raised (the "
        "model takes the set of files that arrived from the observed tree), and the class of the exception",
        "user handlers built from bound methods (three signatures) are not distinguished by the model: same expected payloads",
        "post_reader law: compared for post_readers of the form payload + k + 1000 * checksum(path relative to the tree, times in "
        "microseconds, attributes) (PostLabel / t_label) and payload + k (PostAdd / t_add); read(\"path\") hands post_reader "
        "FileInfo(path) with times None, modelled as the entry (path, 0, 0, no attributes); fileset[t] is compared when a file "
        "with exactly the generated name exists (the entry its name parses to), otherwise the choice of the file is C16's",
        "shared-base-name histories: the overlap of the reads is produced by a reader that sleeps 40-60 ms before and after opening "
        "its file under the default pools (collect: 3 threads; move: 4 processes or 3 threads); the laws do not depend on the "
        "overlap actually happening (the bystander files in temp_dir make a shared temporary name visible to a single read)",
        "grouped NetCDF data sets: one level of pseudo groups, grouped variables on dimensions of their own group only (a grouped "
        "variable on a ROOT dimension cannot be read back on the unchanged tree: KeyError in NetCDF4._load_group; reported, "
        "not generated); global attributes are not compared for grouped data sets (a data set without root variables has no "
        "root group to carry them)",
        "copy_is_independent: overwrites after a copy go through FileSet.__setitem__ / write with the toy writers (open(path, 'w'|'wb')), "
        "pandas to_csv and typhon's compress wrapper (open(target, 'wb')): all write in place; a writer that replaces the file by "
        "rename would hide a shared inode from the overwrite histories (not from the paths-share-inode law)",
    ]
    return ctx.finish(trusted_base=TRUSTED)


def replay(ctx, rec):
    case = rec["case"]
    results = run_children(ctx, [case], f"replay{os.getpid()}", chunk=1, jobs=1)
    check_cases(ctx, [case], results)
    for f in ctx.failures:
        print("still fails:", f.what[:400])
    return 1 if ctx.failures else 0
