"""C03 -- IntervalTree queries and FileSet.match report exactly the overlapping intervals.

Theorems: coq/theories/Props/C03.v (model = brute-force specification for every input).
Tie: the real typhon.trees.IntervalTree and FileSet.match are run on generated inputs; the model and
the specification are evaluated on the same inputs inside Coq (vm_compute); canonical form = sorted
index lists.  Because the model provably equals the specification whenever the stored intervals are
well formed, every disagreement on such an input is a failing input of the property.
"""
import datetime as dt
import shutil
import tempfile
from pathlib import Path

from lib import core
from lib.core import zlit, coq_list

PREAMBLE = "From Typhon Require Import Model.C03_tree Model.C03_match.\n"
TRUSTED = [
    "correspondence harness tools/props/c03.py (generators, rank transform of float/datetime end points, canonical sorting)",
    "numpy array semantics and Python comparison operators (exercised, not modelled)",
    "FileSet.find for flat templates (its own property C01): the model of match() takes the two listings of find() (checked per "
    "case to be the generated files sorted by (start, end)) and models the selection of the period itself",
    "max_interval below 2**53 microseconds (285 years), where int(timedelta.total_seconds()) is exact",
]


# ----------------------------------------------------------------------------- generators

def gen_tree_case(rng, k):
    kind = rng.choice(["int", "int", "float", "datetime", "smallint"])
    n = rng.choice([1, 1, 2, 2, 3, 3, 4, 5, 6, 8, 10, 15, 25, 40, 60])
    span = rng.choice([3, 6, 10, 30, 100, 1000])
    lo0 = rng.choice([0, 0, -span // 2, -span, 5])
    ivs = []
    for _ in range(n):
        style = rng.random()
        a = rng.randint(lo0, lo0 + span)
        if style < 0.2:
            b = a                                   # degenerate [a, a]
        elif style < 0.3 and ivs:
            a, b = rng.choice(ivs)                  # duplicate
        elif style < 0.4:
            a, b = lo0 + rng.randint(0, 2), lo0 + span - rng.randint(0, 2)   # nesting everything
        elif style < 0.5:
            a, b = 0, rng.choice([0, 0, 1, span])   # zeros
        else:
            b = a + rng.randint(0, max(1, span // 3))
        ivs.append((min(a, b), max(a, b)))
    if rng.random() < 0.3:
        ivs.sort()
    if rng.random() < 0.1:
        ivs.sort(reverse=True)
    ends = sorted({x for iv in ivs for x in iv})
    qs = []
    for _ in range(6):
        style = rng.random()
        if style < 0.25:                              # touching an end point, +-1
            e = rng.choice(ends)
            d = rng.choice([-1, 0, 1])
            a = e + d
            b = a + rng.randint(0, 2)
            if rng.random() < 0.5:
                b = e + d
                a = b - rng.randint(0, 2)
        elif style < 0.4:                             # covering the whole tree
            a, b = ends[0] - rng.randint(0, 2), ends[-1] + rng.randint(0, 2)
        elif style < 0.5:                             # outside
            a = ends[-1] + rng.randint(1, 5)
            b = a + rng.randint(0, 3)
            if rng.random() < 0.5:
                b = ends[0] - rng.randint(1, 5)
                a = b - rng.randint(0, 3)
        else:
            a = rng.randint(lo0 - 2, lo0 + span + 2)
            b = a + rng.randint(0, max(1, span // 4))
        qs.append((a, b))
    ps = [rng.choice(ends) + rng.choice([-1, 0, 0, 1]) for _ in range(3)] + \
         [rng.randint(lo0 - 3, lo0 + span + 3) for _ in range(2)] + [ends[0] - 2, ends[-1] + 2]
    return {"id": k, "kind": kind, "ivs": ivs, "qs": qs, "ps": ps}


NARROW = {"int8": (200, -100, 100, 20), "uint8": (300, 0, 230, 20), "float16": (2100, 0, 2000, 40)}


def gen_narrow_cases(seed, k0):
    """Directed (seeded change C03-m): interval arrays of a narrow numpy dtype with MORE rows than that dtype can count
    (int8 > 127, uint8 > 255, float16 > 2048; all end points exactly representable).  The answers are row numbers, not
    values of the intervals' type.  Own random stream, appended after the random cases."""
    import random
    rng = random.Random(f"C03-narrow:{seed}")
    cases = []
    for j, (kind, (n, lo, hi, w)) in enumerate(sorted(NARROW.items())):
        ivs = []
        for _ in range(n):
            a = rng.randint(lo, hi)
            ivs.append((a, a + rng.randint(0, w)))
        ends = sorted({x for iv in ivs for x in iv})
        qs = [(a, a + rng.randint(0, 3)) for a in (rng.randint(lo, hi) for _ in range(5))] + [(ends[-1], ends[-1] + 1)]
        ps = [rng.randint(lo, hi) for _ in range(5)] + [ends[0], ends[-1]]
        cases.append({"id": k0 + j, "kind": kind, "ivs": ivs, "qs": qs, "ps": ps, "directed": "narrow-dtype"})
    return cases


def convert(kind, v):
    if kind in ("int", "smallint") or kind in NARROW:
        return int(v)
    if kind == "float":
        return v * 0.1 + (0.03 if v % 3 else 0.0)           # strictly monotone in v, not exactly representable
    if kind == "datetime":
        return dt.datetime(2018, 1, 1) + dt.timedelta(hours=6 * v, microseconds=v)
    raise ValueError(kind)


def run_tree_impl(case):
    """Run the real IntervalTree; returns canonical observations or an error string per call."""
    import numpy as np
    from typhon.trees import IntervalTree
    kind = case["kind"]
    ivs = [[convert(kind, a), convert(kind, b)] for a, b in case["ivs"]]
    qs = [(convert(kind, a), convert(kind, b)) for a, b in case["qs"]]
    ps = [convert(kind, p) for p in case["ps"]]
    obs = {}

    def guard(name, f):
        try:
            obs[name] = f()
        except RecursionError:
            obs[name] = "ERR:RecursionError"
        except Exception as e:  # noqa
            obs[name] = f"ERR:{type(e).__name__}: {str(e)[:80]}"
    arr = ivs if kind == "smallint" else np.asarray(ivs, dtype=kind) if kind in NARROW else np.asarray(ivs)
    try:
        tree = IntervalTree(arr)
    except Exception as e:  # noqa
        return {"build": f"ERR:{type(e).__name__}: {str(e)[:80]}"}
    def consume(results):
        """What a caller may do with the answers it was given: read them, then alter them in place (drop the self hit,
        pop while consuming).  The answers are the caller's; the tree must not be affected."""
        out = [sorted(int(i) for i in r) for r in results]
        for r in results:
            try:
                if hasattr(r, "clear"):
                    r.clear()
                elif hasattr(r, "fill"):
                    r.fill(-1)
            except Exception:  # noqa  (an immutable answer is fine)
                pass
        return out
    # every call twice: the second round comes after the caller has altered the answers of the first in place
    for rnd in ("", "_again"):
        guard("query" + rnd, lambda: consume(tree.query(qs)))
        guard("points" + rnd, lambda: consume(tree.query_points(ps)))
        guard("in_ivl" + rnd, lambda: [bool(tuple(q) in tree) for q in qs])
        guard("in_pt" + rnd, lambda: [bool(p in tree) for p in ps])
    return obs


def tree_expr(case):
    ivs = coq_list([f"({zlit(a)}, {zlit(b)})" for a, b in case["ivs"]])
    qs = coq_list([f"({zlit(a)}, {zlit(b)})" for a, b in case["qs"]])
    ps = coq_list([zlit(p) for p in case["ps"]])
    return f"(run_tree {ivs} {qs} {ps}, run_tree_spec {ivs} {qs} {ps})"


# ----------------------------------------------------------------------------- FileSet.match

T0 = dt.datetime(2018, 3, 1)
TEMPLATE = ("{year}{month}{day}T{hour}{minute}{second}-"
            "{end_year}{end_month}{end_day}T{end_hour}{end_minute}{end_second}.dat")


def gen_match_case(rng, k):
    unit = rng.choice([1, 60, 600, 3600, 21600])          # up to 6-hour units: spans of several days
    horizon = rng.choice([20, 60, 200])

    def fileset(nmax, allow_cover):
        n = rng.randint(1, nmax)
        files = set()
        for _ in range(n):
            a = rng.randint(0, horizon)
            style = rng.random()
            if style < 0.2:
                b = a
            elif style < 0.3 and allow_cover:
                a, b = 0, horizon + rng.randint(0, 5)     # covers the other fileset's whole span
            else:
                b = a + rng.randint(0, max(1, horizon // 5))
            files.add((a * unit, b * unit))
        return sorted(files)
    prim = fileset(8, rng.random() < 0.3)
    sec = fileset(8, rng.random() < 0.5)
    mi = rng.choice([None, 0, 0, 1, unit, 3 * unit, 10 * unit])
    if unit >= 3600 and rng.random() < 0.6:
        # a day and more (timedelta.seconds != total_seconds there), whole and fractional days
        mi = rng.choice([86400, 2 * 86400, 86400 + 6 * 3600, 3 * 86400 + 1, 86399, 86401])
    form = rng.choice(["int", "timedelta", "str"]) if mi else "int"
    if rng.random() < 0.6:
        start, end = 0, (horizon + 10) * unit
    else:
        start = rng.randint(0, horizon) * unit
        end = start + rng.randint(1, horizon) * unit
    # file names: plain time stamps, or a user placeholder in front of them / as a sub directory, valued so that the order of
    # the paths is NOT the order of the times (the partners of a primary must still come in time order)
    naming = rng.choice(["plain", "plain", "prefix", "subdir"])
    # the period open on one side (start=None / end=None: datetime.min / datetime.max) together with a max_interval:
    # widening overflows on that side only and must leave the other limit alone
    open_side = rng.choice([None, None, None, "start", "end"]) if mi else None
    if open_side == "start":
        start = None
    elif open_side == "end":
        end = None
    return {"id": k, "prim": prim, "sec": sec, "mi": mi, "mi_form": form, "start": start, "end": end, "naming": naming}


US = 10 ** 6
DMIN_US = (dt.datetime.min - T0) // dt.timedelta(microseconds=1)      # the range of datetime on the axis
DMAX_US = (dt.datetime.max - T0) // dt.timedelta(microseconds=1)      # "microseconds since T0"


def to_dt(v):
    """A period limit of a case: None (argument not given), "min" / "max" (datetime.min / datetime.max given
    explicitly) or whole seconds after T0."""
    if v is None:
        return None
    if v == "min":
        return dt.datetime.min
    if v == "max":
        return dt.datetime.max
    return T0 + dt.timedelta(seconds=v)


def to_us(v):
    if v is None:
        return None
    if v == "min":
        return DMIN_US
    if v == "max":
        return DMAX_US
    return v * US


def gen_period_cases(rng, k0, n):
    """The period clause of match(), directed: every open/closed combination, limits given explicitly as datetime.min /
    datetime.max or within max_interval of them (the widening is clamped), an empty period (ValueError), a period without
    files (NoFilesError), files of equal start time and files of equal coverage (the order of the listing decides).
    Drawn after all other cases: the random streams of the cases above do not depend on them."""
    dmin_s, dmax_s = DMIN_US // US, DMAX_US // US          # whole seconds after T0 (dmax_s: .999999 cut off)
    cases = []
    for k in range(n):
        unit = rng.choice([1, 60, 3600])
        horizon = rng.choice([20, 60])

        def fileset(nmax, ties):
            files = []
            for _ in range(rng.randint(1, nmax)):
                a = rng.randint(0, horizon)
                files.append((a * unit, (a + rng.randint(0, max(1, horizon // 5))) * unit))
                if ties and rng.random() < 0.5:
                    a0, b0 = rng.choice(files)
                    files.append((a0, b0 + rng.choice([0, 0, 1, 3]) * unit))    # equal start; equal coverage
            files.sort()
            # at most two files of the same coverage (their paths differ by the {sat} placeholder, three values in turn)
            return [f for i, f in enumerate(files) if i < 2 or files[i - 2] != f]
        ties = (k // 12) % 2 == 0
        prim, sec = fileset(6, ties), fileset(6, ties)
        if not ties:
            prim, sec = sorted(set(prim)), sorted(set(sec))
        mi = rng.choice([None, 0, 1, unit, 5 * unit, 86400 + unit])
        lo_, hi_ = rng.randint(0, horizon) * unit, None
        hi_ = lo_ + rng.randint(1, horizon) * unit
        kind = ["closed", "open-start", "open-end", "open-both", "min-explicit", "max-explicit", "near-min", "near-max",
                "near-both", "empty", "nofiles", "end-min"][k % 12]
        start, end = lo_, hi_
        if kind == "open-start":
            start = None
        elif kind == "open-end":
            end = None
        elif kind == "open-both":
            start = end = None
        elif kind == "min-explicit":
            start = "min"
        elif kind == "max-explicit":
            end = "max"
        elif kind == "near-min":
            start = dmin_s + rng.choice([0, 1, 3, 86400])
        elif kind == "near-max":
            end = dmax_s - rng.choice([0, 1, 3, 86400])
        elif kind == "near-both":
            start, end = dmin_s + rng.choice([0, 2]), dmax_s - rng.choice([0, 2])
        elif kind == "empty":
            end = start                                      # [start, start) is empty unless max_interval widens it
        elif kind == "nofiles":
            start = (horizon * 2 + 100 + rng.randint(0, 5)) * unit + 2 * 86400
            end = start + unit
        elif kind == "end-min":
            start, end = rng.choice([None, "min"]), "min"
        # equal coverages need distinguishable paths
        naming = rng.choice(["prefix", "subdir"]) if ties else rng.choice(["plain", "prefix", "subdir"])
        if kind in ("near-min", "near-both") and naming == "subdir":
            # find() itself looks one sub-directory resolution before `start` (start - 1 year here) and overflows when start is
            # that close to, but not equal to, datetime.min: not match()'s period clause, kept out of this check
            naming = "prefix"
        form = rng.choice(["int", "timedelta", "str"]) if mi else "int"
        cases.append({"id": k0 + k, "prim": prim, "sec": sec, "mi": mi, "mi_form": form, "start": start, "end": end,
                      "naming": naming, "directed": kind})
    return cases


def run_match_impl(case):
    """Run the real FileSet.match.  Returns {"listing": [keys of a, keys of b] (the order of find()), "res": what was
    yielded as positions in these listings [[i, [j, ...]], ...] or "ERR:...", "keys": the same as (start, end) keys}."""
    from typhon.files import FileSet
    root = Path(tempfile.mkdtemp(prefix="verif_c03_"))
    try:
        sets = []
        naming = case.get("naming", "plain")
        sats = ["zulu", "mike", "alfa"]           # descending in path order while the times ascend
        for name, files in (("a", case["prim"]), ("b", case["sec"])):
            d = root / name
            d.mkdir()
            for k, (a, b) in enumerate(sorted(files)):
                s, e = T0 + dt.timedelta(seconds=a), T0 + dt.timedelta(seconds=b)
                base = f"{s:%Y%m%dT%H%M%S}-{e:%Y%m%dT%H%M%S}.dat"
                if naming == "prefix":
                    (d / f"{sats[k % 3]}_{base}").touch()
                elif naming == "subdir":
                    (d / sats[k % 3]).mkdir(exist_ok=True)
                    (d / sats[k % 3] / base).touch()
                else:
                    (d / base).touch()
            tmpl = {"plain": TEMPLATE, "prefix": "{sat}_" + TEMPLATE, "subdir": "{sat}/" + TEMPLATE}[naming]
            sets.append(FileSet(str(d / tmpl), name=name))

        def key(fi):
            return [int((fi.times[0] - T0).total_seconds()), int((fi.times[1] - T0).total_seconds())]
        out = {}
        try:
            listings = [list(fs.find(no_files_error=False)) for fs in sets]
        except Exception as e:  # noqa
            return {"listing": f"ERR:{type(e).__name__}: {str(e)[:100]}", "res": None, "keys": None}
        out["listing"] = [[key(fi) for fi in li] for li in listings]
        pos = [{fi.path: k for k, fi in enumerate(li)} for li in listings]
        try:
            mi = case["mi"]
            if mi and case.get("mi_form") == "timedelta":
                mi = dt.timedelta(seconds=mi)
            elif mi and case.get("mi_form") == "str":
                mi = f"{mi} seconds" if mi % 3600 else f"{mi // 3600} hours"
            res = list(sets[0].match(sets[1], to_dt(case["start"]), to_dt(case["end"]), max_interval=mi))
        except Exception as e:  # noqa
            out["res"] = out["keys"] = f"ERR:{type(e).__name__}: {str(e)[:100]}"
            return out
        out["keys"] = [[key(p), [key(s) for s in ss]] for p, ss in res]
        out["res"] = [[pos[0].get(p.path, -1), [pos[1].get(s.path, -1) for s in ss]] for p, ss in res]
        # history on the same two objects: the answer of the first call must not have changed anything -- the files are
        # listed with the coverages they had, the files yielded carry their own coverages, and the same question gets
        # the same answer (a third time without max_interval: the answer for max_interval = 0 is not checked here, only
        # that the filesets still list their files as before)
        hist = []
        for p_, ss in res:
            for s_ in ss:
                j = pos[1].get(s_.path, -1)
                if j >= 0 and key(s_) != out["listing"][1][j]:
                    hist.append(f"the secondary file {Path(s_.path).name} is yielded with the coverage {key(s_)}, find() listed it "
                                f"with {out['listing'][1][j]}")
                    break
        try:
            res2 = list(sets[0].match(sets[1], to_dt(case["start"]), to_dt(case["end"]), max_interval=mi))
            again = [[pos[0].get(p.path, -1), [pos[1].get(s.path, -1) for s in ss]] for p, ss in res2]
            if again != out["res"]:
                hist.append(f"the same match() asked again on the same two FileSet objects yields "
                            f"{[[key(p), [key(s) for s in ss]] for p, ss in res2]}, the first time {out['keys']}")
            after = [[key(fi) for fi in fs.find(no_files_error=False)] for fs in sets]
            if after != out["listing"]:
                hist.append(f"after match() the filesets list their files as {after}, before as {out['listing']}")
        except Exception as e:  # noqa
            hist.append(f"the same match() asked again raised {type(e).__name__}: {str(e)[:100]}")
        out["history"] = hist
        return out
    finally:
        shutil.rmtree(root, ignore_errors=True)


def coq_optz(v):
    return "None" if v is None else f"(Some {zlit(v)})"


def match_expr(case):
    """The whole of match() in Coq (Model/C03_match.v) on the two listings (generated files sorted by (start, end), as find()
    lists them), microseconds since T0, open sides as None: the model's outcome, the widened period, the positions found in it
    and the brute-force specification."""
    prim, sec = sorted(case["prim"]), sorted(case["sec"])
    mi = None if case["mi"] is None else case["mi"] * US
    args = (f"{zlit(DMIN_US)} {zlit(DMAX_US)} {coq_optz(mi)} {coq_optz(to_us(case['start']))} "
            f"{coq_optz(to_us(case['end']))}")
    p = coq_list([f"({zlit(a * US)}, {zlit(b * US)})" for a, b in prim])
    s = coq_list([f"({zlit(a * US)}, {zlit(b * US)})" for a, b in sec])
    w = f"(wperiod {args})"
    return prim, sec, (f"(match_full {args} {p} {s}, {w}, map idx (find_sel {w} {p}), map idx (find_sel {w} {s}), "
                       f"match_full_spec {args} {p} {s})")


def spec_outcome(w, sel_p, sel_s, spec):
    """The right-hand side of theorem match_full_outcome."""
    if w[1] < w[0]:
        return ("Raised", "OverflowError" if w[1] < DMIN_US else "ValueError")
    if not sel_p or not sel_s:
        return ("Raised", "NoFilesError")
    return ("Yields", spec)


def period_ok(case):
    """Hypothesis period_ok of the match_full theorems (start and end are datetimes by construction)."""
    return (case["mi"] or 0) >= 0


# ----------------------------------------------------------------------------- check

def classify(case, impl, model):
    return "tree-query"


def check_tree_cases(ctx, cases):
    obs = [run_tree_impl(c) for c in cases]
    vals, log = core.coq_eval(ctx.work / "cases", "tree", PREAMBLE, [tree_expr(c) for c in cases])
    if log:
        ctx.log(log[-2000:])
    nontrivial = set()
    for c, o, v in zip(cases, obs, vals):
        ctx.cov["evaluations"] += 1
        if v is None:
            ctx.fail("correspondence", "Coq evaluation of the model failed", case=c, signature="coq-eval")
            continue
        mq, mp, mci, mcp, (sq, sp) = v   # Coq prints left-nested pairs flat
        wf = all(a <= b for a, b in c["ivs"])
        if wf and (mq, mp) != (sq, sp):
            ctx.fail("proof", "model and specification disagree inside Coq (cannot happen while the theorems stand)",
                     case=c, model=[mq, sq], signature="model-vs-spec")
        expect = {"query": sq, "points": sp, "in_ivl": [bool(x) for x in sq], "in_pt": [bool(x) for x in sp]}
        names = {"query": "IntervalTree.query", "points": "IntervalTree.query_points",
                 "in_ivl": "interval in tree", "in_pt": "point in tree"}
        if "build" in o:
            ctx.fail("failing-input", f"IntervalTree(...) raised {o['build']}", case=c, impl=o,
                     signature="tree-build-error")
            continue
        for key in ("query", "points", "in_ivl", "in_pt", "query_again", "points_again", "in_ivl_again", "in_pt_again"):
            base = key.replace("_again", "")
            if key.endswith("_again"):
                expect[key] = expect[base]
                names[key] = names[base] + " (asked again after the caller altered the first answers in place)"
            if o[key] != expect[key]:
                kind = "failing-input" if wf else "correspondence"
                ctx.fail(kind, f"{names[key]} returned {o[key]} but exactly {expect[key]} overlap "
                         f"(stored {c['ivs']}, kind {c['kind']})", case=c, impl=o[key], model=expect[key],
                         signature=f"tree-{key}")
        hit = sum(1 for r in sq if r)
        if 0 < hit and any(len(r) < len(c["ivs"]) for r in sq):
            nontrivial.add(repr((c["ivs"], c["qs"], c["kind"])))
        ctx.sample({"kind": c["kind"], "intervals": c["ivs"][:8], "queries": c["qs"][:3], "expected": sq[:3]})
    return len(nontrivial)


OUTCOMES = {}            # outcome of the model per kind of period, for the coverage record


def increasing(l):
    return all(a < b for a, b in zip(l, l[1:]))


def check_match_cases(ctx, cases):
    exprs, inputs = [], []
    for c in cases:
        prim, sec, e = match_expr(c)
        inputs.append((prim, sec))
        exprs.append(e)
    vals, log = core.coq_eval(ctx.work / "cases", "match", PREAMBLE, exprs)
    if log:
        ctx.log(log[-2000:])
    nontrivial = set()
    for c, (prim, sec), v in zip(cases, inputs, vals):
        ctx.cov["evaluations"] += 1
        o = run_match_impl(c)
        if v is None:
            ctx.fail("correspondence", "Coq evaluation of match_full failed", case=c, signature="coq-eval")
            continue
        model, (w0, w1), sel_p, sel_s, spec = v          # Coq prints left-nested pairs flat
        want = spec_outcome((w0, w1), sel_p, sel_s, spec)
        if model[0] == "Raised" and isinstance(model[1], tuple):
            model = ("Raised", model[1][-1])          # a constant constructor as argument is parsed as ("#", name)
        if period_ok(c) and model != want:
            ctx.fail("proof", f"match_full {model} and its specification {want} disagree inside Coq "
                     "(cannot happen while theorem match_full_outcome stands)", case=c, signature="model-vs-spec")
        if isinstance(o["listing"], str):
            ctx.fail("correspondence", f"FileSet.find (whole listing) raised {o['listing']}", case=c, signature="match-listing")
            continue
        if o["listing"] != [[list(x) for x in prim], [list(x) for x in sec]]:
            # hypothesis of the time-order theorem and of the tie: find() lists the files by (start, end)  (C01's business)
            ctx.fail("correspondence", f"find() lists {o['listing']}, the generated files sorted by (start, end) are "
                     f"{[prim, sec]}", case=c, impl=o["listing"], signature="match-listing")
            continue
        res = o["res"]
        tag = f"{c.get('directed', 'random')}:{want[1] if want[0] == 'Raised' else ('pairs' if spec else 'no pair')}"
        OUTCOMES[tag] = OUTCOMES.get(tag, 0) + 1
        if want[0] == "Raised":
            if isinstance(res, str):
                if want[1] not in res:
                    ctx.fail("correspondence", f"FileSet.match raised {res}, the model raises {want[1]}", case=c, impl=res,
                             model=want, signature="match-error-kind")
            elif res:
                ctx.fail("failing-input", f"FileSet.match yielded {o['keys']} although the widened period {[w0, w1]} (us after T0) "
                         f"{'is empty' if w1 < w0 else 'holds no file of one of the filesets'}", case=c, impl=o["keys"],
                         model=want, signature="match-result")
            else:
                ctx.fail("correspondence", f"FileSet.match yielded nothing, the model raises {want[1]}", case=c, impl=res,
                         model=want, signature="match-error-kind")
            continue
        expect_keys = [[list(prim[i]), [list(sec[j]) for j in js]] for i, js in spec]
        expect = [[i, list(js)] for i, js in spec]
        if isinstance(res, str):
            ctx.fail("failing-input", f"FileSet.match raised {res}", case=c, impl=res, model=expect_keys, signature="match-error")
            continue
        # "in time order": strictly increasing positions in the listings of find() (theorem match_full_listing_order)
        canon = sorted([i, sorted(js)] for i, js in res)
        if canon == expect and res != expect:
            ctx.fail("failing-input", f"FileSet.match yielded the right pairs in another order than find() lists the files: "
                     f"{o['keys']}, expected {expect_keys}", case=c, impl=o["keys"], model=expect_keys, signature="match-order")
        elif res != expect:
            ctx.fail("failing-input", f"FileSet.match returned {o['keys']}, expected {expect_keys}", case=c, impl=o["keys"],
                     model=expect_keys, signature="match-result")
        elif not (increasing([i for i, _ in res]) and all(increasing(js) for _, js in res)):
            ctx.fail("proof", "the specification itself is not in listing order (cannot happen while theorem "
                     "match_full_listing_order stands)", case=c, signature="model-vs-spec")
        for h in o.get("history") or []:
            ctx.fail("failing-input", f"FileSet.match changes what later calls see: {h}", case=c, impl=h, signature="match-history")
        if expect and any(len(js) < len(sel_s) for _, js in spec):
            nontrivial.add(repr(c))
        if c["id"] % 7 == 0:
            ctx.sample({"match": {k: c[k] for k in ("prim", "sec", "mi", "start", "end")}, "expected": expect_keys[:2]}, limit=8)
    return len(nontrivial)


def run(ctx):
    ctx.prove("Props/C03.v")
    nt = ctx.n(400, 12000)
    nm = ctx.n(60, 1500)
    tree_cases = [gen_tree_case(ctx.rng, k) for k in range(nt)]
    match_cases = [gen_match_case(ctx.rng, k) for k in range(nm)]
    tree_cases += gen_narrow_cases(ctx.seed, nt)       # after every draw from ctx.rng: older cases keep their inputs
    match_cases += gen_period_cases(ctx.rng, nm, ctx.n(36, 600))
    a = check_tree_cases(ctx, tree_cases)
    b = check_match_cases(ctx, match_cases)
    ctx.cov["distinct_nontrivial"] = a + b
    ctx.cov["rule"] = ("interval sets of 1-60 intervals (int, float, datetime end points; unsorted, nested, duplicated, "
                       "degenerate, zeros, negatives) x 6 query intervals x 7 points, and pairs of harness-built filesets "
                       "for FileSet.match; a case is non-trivial when at least one query has a non-empty answer and at "
                       "least one answer is not the whole set; distinct by input")
    ctx.cov["input_distribution"] = {
        "tree_cases": len(tree_cases), "tree_narrow_dtype_cases": len(NARROW), "match_cases": len(match_cases),
        "match_period_kinds": {k: sum(1 for c in match_cases if c.get("directed", "random") == k)
                               for k in sorted({c.get("directed", "random") for c in match_cases})},
        "match_open_sides": sum(1 for c in match_cases if c["start"] is None or c["end"] is None),
        "kinds": {k: sum(1 for c in tree_cases if c["kind"] == k) for k in ("int", "smallint", "float", "datetime")},
        "sizes": {str(n): sum(1 for c in tree_cases if len(c["ivs"]) == n) for n in sorted({len(c["ivs"]) for c in tree_cases})},
    }
    ctx.cov["input_distribution"]["match_outcomes"] = dict(sorted(OUTCOMES.items()))
    ctx.assumptions += ["stored intervals are closed and well formed (lo <= hi): hypothesis of every theorem, checked per case",
                        "float/datetime end points are handed to the model as integers in the same order (theorem rank_invariant)",
                        "FileSet.match: max_interval >= 0, start/end datetimes or not given (period_ok), secondary files with "
                        "start <= end, find() listing by (start, end): hypotheses of the match_full theorems, checked per case"]
    return ctx.finish(trusted_base=TRUSTED)


def replay(ctx, rec):
    case = rec["case"]
    if "ivs" in case:
        case["ivs"] = [tuple(x) for x in case["ivs"]]
        case["qs"] = [tuple(x) for x in case["qs"]]
        check_tree_cases(ctx, [case])
    else:
        for k in ("prim", "sec"):
            case[k] = [tuple(x) for x in case[k]]
        check_match_cases(ctx, [case])
    for f in ctx.failures:
        print("still fails:", f.what[:300])
    return 1 if ctx.failures else 0
