"""C03 -- IntervalTree queries and FileSet.match report exactly the overlapping intervals.

Theorems: coq/theories/Props/C03.v (model = brute-force specification for every input).
Tie: the real typhon.trees.IntervalTree and FileSet.match are run on generated inputs; the model and
the specification are evaluated on the same inputs inside Coq (vm_compute); canonical form = sorted
index lists.  Because the model provably equals the specification whenever the stored intervals are
well formed, every disagreement on such an input is a failing input of the property.
"""
import datetime as dt
import shutil
import tempfile
from pathlib import Path

from lib import core
from lib.core import zlit, coq_list

PREAMBLE = "From Typhon Require Import Model.C03_tree.\n"
TRUSTED = [
    "correspondence harness tools/props/c03.py (generators, rank transform of float/datetime end points, canonical sorting)",
    "numpy array semantics and Python comparison operators (exercised, not modelled)",
    "FileSet.find for flat templates (its own property C01); match is tied on the coverages find() delivered",
]


# ----------------------------------------------------------------------------- generators

def gen_tree_case(rng, k):
    kind = rng.choice(["int", "int", "float", "datetime", "smallint"])
    n = rng.choice([1, 1, 2, 2, 3, 3, 4, 5, 6, 8, 10, 15, 25, 40, 60])
    span = rng.choice([3, 6, 10, 30, 100, 1000])
    lo0 = rng.choice([0, 0, -span // 2, -span, 5])
    ivs = []
    for _ in range(n):
        style = rng.random()
        a = rng.randint(lo0, lo0 + span)
        if style < 0.2:
            b = a                                   # degenerate [a, a]
        elif style < 0.3 and ivs:
            a, b = rng.choice(ivs)                  # duplicate
        elif style < 0.4:
            a, b = lo0 + rng.randint(0, 2), lo0 + span - rng.randint(0, 2)   # nesting everything
        elif style < 0.5:
            a, b = 0, rng.choice([0, 0, 1, span])   # zeros
        else:
            b = a + rng.randint(0, max(1, span // 3))
        ivs.append((min(a, b), max(a, b)))
    if rng.random() < 0.3:
        ivs.sort()
    if rng.random() < 0.1:
        ivs.sort(reverse=True)
    ends = sorted({x for iv in ivs for x in iv})
    qs = []
    for _ in range(6):
        style = rng.random()
        if style < 0.25:                              # touching an end point, +-1
            e = rng.choice(ends)
            d = rng.choice([-1, 0, 1])
            a = e + d
            b = a + rng.randint(0, 2)
            if rng.random() < 0.5:
                b = e + d
                a = b - rng.randint(0, 2)
        elif style < 0.4:                             # covering the whole tree
            a, b = ends[0] - rng.randint(0, 2), ends[-1] + rng.randint(0, 2)
        elif style < 0.5:                             # outside
            a = ends[-1] + rng.randint(1, 5)
            b = a + rng.randint(0, 3)
            if rng.random() < 0.5:
                b = ends[0] - rng.randint(1, 5)
                a = b - rng.randint(0, 3)
        else:
            a = rng.randint(lo0 - 2, lo0 + span + 2)
            b = a + rng.randint(0, max(1, span // 4))
        qs.append((a, b))
    ps = [rng.choice(ends) + rng.choice([-1, 0, 0, 1]) for _ in range(3)] + \
         [rng.randint(lo0 - 3, lo0 + span + 3) for _ in range(2)] + [ends[0] - 2, ends[-1] + 2]
    return {"id": k, "kind": kind, "ivs": ivs, "qs": qs, "ps": ps}


def convert(kind, v):
    if kind in ("int", "smallint"):
        return int(v)
    if kind == "float":
        return v * 0.1 + (0.03 if v % 3 else 0.0)           # strictly monotone in v, not exactly representable
    if kind == "datetime":
        return dt.datetime(2018, 1, 1) + dt.timedelta(hours=6 * v, microseconds=v)
    raise ValueError(kind)


def run_tree_impl(case):
    """Run the real IntervalTree; returns canonical observations or an error string per call."""
    import numpy as np
    from typhon.trees import IntervalTree
    kind = case["kind"]
    ivs = [[convert(kind, a), convert(kind, b)] for a, b in case["ivs"]]
    qs = [(convert(kind, a), convert(kind, b)) for a, b in case["qs"]]
    ps = [convert(kind, p) for p in case["ps"]]
    obs = {}

    def guard(name, f):
        try:
            obs[name] = f()
        except RecursionError:
            obs[name] = "ERR:RecursionError"
        except Exception as e:  # noqa
            obs[name] = f"ERR:{type(e).__name__}: {str(e)[:80]}"
    arr = ivs if kind == "smallint" else np.asarray(ivs)
    try:
        tree = IntervalTree(arr)
    except Exception as e:  # noqa
        return {"build": f"ERR:{type(e).__name__}: {str(e)[:80]}"}
    def consume(results):
        """What a caller may do with the answers it was given: read them, then alter them in place (drop the self hit,
        pop while consuming).  The answers are the caller's; the tree must not be affected."""
        out = [sorted(int(i) for i in r) for r in results]
        for r in results:
            try:
                if hasattr(r, "clear"):
                    r.clear()
                elif hasattr(r, "fill"):
                    r.fill(-1)
            except Exception:  # noqa  (an immutable answer is fine)
                pass
        return out
    # every call twice: the second round comes after the caller has altered the answers of the first in place
    for rnd in ("", "_again"):
        guard("query" + rnd, lambda: consume(tree.query(qs)))
        guard("points" + rnd, lambda: consume(tree.query_points(ps)))
        guard("in_ivl" + rnd, lambda: [bool(tuple(q) in tree) for q in qs])
        guard("in_pt" + rnd, lambda: [bool(p in tree) for p in ps])
    return obs


def tree_expr(case):
    ivs = coq_list([f"({zlit(a)}, {zlit(b)})" for a, b in case["ivs"]])
    qs = coq_list([f"({zlit(a)}, {zlit(b)})" for a, b in case["qs"]])
    ps = coq_list([zlit(p) for p in case["ps"]])
    return f"(run_tree {ivs} {qs} {ps}, run_tree_spec {ivs} {qs} {ps})"


# ----------------------------------------------------------------------------- FileSet.match

T0 = dt.datetime(2018, 3, 1)
TEMPLATE = ("{year}{month}{day}T{hour}{minute}{second}-"
            "{end_year}{end_month}{end_day}T{end_hour}{end_minute}{end_second}.dat")


def gen_match_case(rng, k):
    unit = rng.choice([1, 60, 600, 3600, 21600])          # up to 6-hour units: spans of several days
    horizon = rng.choice([20, 60, 200])

    def fileset(nmax, allow_cover):
        n = rng.randint(1, nmax)
        files = set()
        for _ in range(n):
            a = rng.randint(0, horizon)
            style = rng.random()
            if style < 0.2:
                b = a
            elif style < 0.3 and allow_cover:
                a, b = 0, horizon + rng.randint(0, 5)     # covers the other fileset's whole span
            else:
                b = a + rng.randint(0, max(1, horizon // 5))
            files.add((a * unit, b * unit))
        return sorted(files)
    prim = fileset(8, rng.random() < 0.3)
    sec = fileset(8, rng.random() < 0.5)
    mi = rng.choice([None, 0, 0, 1, unit, 3 * unit, 10 * unit])
    if unit >= 3600 and rng.random() < 0.6:
        # a day and more (timedelta.seconds != total_seconds there), whole and fractional days
        mi = rng.choice([86400, 2 * 86400, 86400 + 6 * 3600, 3 * 86400 + 1, 86399, 86401])
    form = rng.choice(["int", "timedelta", "str"]) if mi else "int"
    if rng.random() < 0.6:
        start, end = 0, (horizon + 10) * unit
    else:
        start = rng.randint(0, horizon) * unit
        end = start + rng.randint(1, horizon) * unit
    # file names: plain time stamps, or a user placeholder in front of them / as a sub directory, valued so that the order of
    # the paths is NOT the order of the times (the partners of a primary must still come in time order)
    naming = rng.choice(["plain", "plain", "prefix", "subdir"])
    # the period open on one side (start=None / end=None: datetime.min / datetime.max) together with a max_interval:
    # widening overflows on that side only and must leave the other limit alone
    open_side = rng.choice([None, None, None, "start", "end"]) if mi else None
    if open_side == "start":
        start = None
    elif open_side == "end":
        end = None
    return {"id": k, "prim": prim, "sec": sec, "mi": mi, "mi_form": form, "start": start, "end": end, "naming": naming}


def run_match_impl(case):
    from typhon.files import FileSet
    root = Path(tempfile.mkdtemp(prefix="verif_c03_"))
    try:
        sets = []
        naming = case.get("naming", "plain")
        sats = ["zulu", "mike", "alfa"]           # descending in path order while the times ascend
        for name, files in (("a", case["prim"]), ("b", case["sec"])):
            d = root / name
            d.mkdir()
            for k, (a, b) in enumerate(sorted(files)):
                s, e = T0 + dt.timedelta(seconds=a), T0 + dt.timedelta(seconds=b)
                base = f"{s:%Y%m%dT%H%M%S}-{e:%Y%m%dT%H%M%S}.dat"
                if naming == "prefix":
                    (d / f"{sats[k % 3]}_{base}").touch()
                elif naming == "subdir":
                    (d / sats[k % 3]).mkdir(exist_ok=True)
                    (d / sats[k % 3] / base).touch()
                else:
                    (d / base).touch()
            tmpl = {"plain": TEMPLATE, "prefix": "{sat}_" + TEMPLATE, "subdir": "{sat}/" + TEMPLATE}[naming]
            sets.append(FileSet(str(d / tmpl), name=name))
        start = None if case["start"] is None else T0 + dt.timedelta(seconds=case["start"])
        end = None if case["end"] is None else T0 + dt.timedelta(seconds=case["end"])
        try:
            mi = case["mi"]
            if mi and case.get("mi_form") == "timedelta":
                mi = dt.timedelta(seconds=mi)
            elif mi and case.get("mi_form") == "str":
                mi = f"{mi} seconds" if mi % 3600 else f"{mi // 3600} hours"
            res = list(sets[0].match(sets[1], start, end, max_interval=mi))
        except Exception as e:  # noqa
            return f"ERR:{type(e).__name__}: {str(e)[:100]}"

        def key(fi):
            return (int((fi.times[0] - T0).total_seconds()), int((fi.times[1] - T0).total_seconds()))
        return [[list(key(p)), [list(key(s)) for s in ss]] for p, ss in res]
    finally:
        shutil.rmtree(root, ignore_errors=True)


def found(files, start, end):
    """find() of a flat template = brute force (this part is C01's business; here it only selects the
    inputs handed to the matching step)."""
    return sorted(f for f in files if f[0] < end and f[1] >= start)


def match_expr(case):
    mi = case["mi"] or 0
    BIG = 10 ** 15                      # beyond every file of the harness: the open side of a period
    start = -BIG if case["start"] is None else case["start"] - mi
    end = BIG if case["end"] is None else case["end"] + mi
    prim, sec = found(case["prim"], start, end), found(case["sec"], start, end)
    p = coq_list([f"({zlit(a)}, {zlit(b)})" for a, b in prim])
    s = coq_list([f"({zlit(a)}, {zlit(b)})" for a, b in sec])
    return prim, sec, f"(match_model {zlit(mi)} {p} {s}, match_spec {zlit(mi)} {p} {s})"


# ----------------------------------------------------------------------------- check

def classify(case, impl, model):
    return "tree-query"


def check_tree_cases(ctx, cases):
    obs = [run_tree_impl(c) for c in cases]
    vals, log = core.coq_eval(ctx.work / "cases", "tree", PREAMBLE, [tree_expr(c) for c in cases])
    if log:
        ctx.log(log[-2000:])
    nontrivial = set()
    for c, o, v in zip(cases, obs, vals):
        ctx.cov["evaluations"] += 1
        if v is None:
            ctx.fail("correspondence", "Coq evaluation of the model failed", case=c, signature="coq-eval")
            continue
        mq, mp, mci, mcp, (sq, sp) = v   # Coq prints left-nested pairs flat
        wf = all(a <= b for a, b in c["ivs"])
        if wf and (mq, mp) != (sq, sp):
            ctx.fail("proof", "model and specification disagree inside Coq (cannot happen while the theorems stand)",
                     case=c, model=[mq, sq], signature="model-vs-spec")
        expect = {"query": sq, "points": sp, "in_ivl": [bool(x) for x in sq], "in_pt": [bool(x) for x in sp]}
        names = {"query": "IntervalTree.query", "points": "IntervalTree.query_points",
                 "in_ivl": "interval in tree", "in_pt": "point in tree"}
        if "build" in o:
            ctx.fail("failing-input", f"IntervalTree(...) raised {o['build']}", case=c, impl=o,
                     signature="tree-build-error")
            continue
        for key in ("query", "points", "in_ivl", "in_pt", "query_again", "points_again", "in_ivl_again", "in_pt_again"):
            base = key.replace("_again", "")
            if key.endswith("_again"):
                expect[key] = expect[base]
                names[key] = names[base] + " (asked again after the caller altered the first answers in place)"
            if o[key] != expect[key]:
                kind = "failing-input" if wf else "correspondence"
                ctx.fail(kind, f"{names[key]} returned {o[key]} but exactly {expect[key]} overlap "
                         f"(stored {c['ivs']}, kind {c['kind']})", case=c, impl=o[key], model=expect[key],
                         signature=f"tree-{key}")
        hit = sum(1 for r in sq if r)
        if 0 < hit and any(len(r) < len(c["ivs"]) for r in sq):
            nontrivial.add(repr((c["ivs"], c["qs"], c["kind"])))
        ctx.sample({"kind": c["kind"], "intervals": c["ivs"][:8], "queries": c["qs"][:3], "expected": sq[:3]})
    return len(nontrivial)


def check_match_cases(ctx, cases):
    exprs, inputs = [], []
    for c in cases:
        prim, sec, e = match_expr(c)
        inputs.append((prim, sec))
        exprs.append(e)
    vals, log = core.coq_eval(ctx.work / "cases", "match", PREAMBLE, exprs)
    if log:
        ctx.log(log[-2000:])
    nontrivial = set()
    for c, (prim, sec), v in zip(cases, inputs, vals):
        ctx.cov["evaluations"] += 1
        o = run_match_impl(c)
        if v is None:
            ctx.fail("correspondence", "Coq evaluation of match_model failed", case=c, signature="coq-eval")
            continue
        model, spec = v
        if model != spec:
            ctx.fail("proof", "match_model and match_spec disagree inside Coq", case=c, signature="model-vs-spec")
        expect = [[list(prim[i]), [list(sec[j]) for j in js]] for i, js in spec]
        if isinstance(o, str):
            if not prim or not sec:
                if "NoFilesError" in o:
                    continue         # find() reports an empty period by NoFilesError (C01), nothing to match
            ctx.fail("failing-input", f"FileSet.match raised {o}", case=c, impl=o, model=expect, signature="match-error")
            continue
        if o != expect:
            ctx.fail("failing-input", f"FileSet.match returned {o}, expected {expect}", case=c, impl=o, model=expect,
                     signature="match-result")
        if expect and any(len(js) < len(sec) for _, js in spec):
            nontrivial.add(repr(c))
        if c["id"] % 7 == 0:
            ctx.sample({"match": {k: c[k] for k in ("prim", "sec", "mi", "start", "end")}, "expected": expect[:2]}, limit=8)
    return len(nontrivial)


def run(ctx):
    ctx.prove("Props/C03.v")
    nt = ctx.n(400, 12000)
    nm = ctx.n(60, 1500)
    tree_cases = [gen_tree_case(ctx.rng, k) for k in range(nt)]
    match_cases = [gen_match_case(ctx.rng, k) for k in range(nm)]
    a = check_tree_cases(ctx, tree_cases)
    b = check_match_cases(ctx, match_cases)
    ctx.cov["distinct_nontrivial"] = a + b
    ctx.cov["rule"] = ("interval sets of 1-60 intervals (int, float, datetime end points; unsorted, nested, duplicated, "
                       "degenerate, zeros, negatives) x 6 query intervals x 7 points, and pairs of harness-built filesets "
                       "for FileSet.match; a case is non-trivial when at least one query has a non-empty answer and at "
                       "least one answer is not the whole set; distinct by input")
    ctx.cov["input_distribution"] = {
        "tree_cases": nt, "match_cases": nm,
        "kinds": {k: sum(1 for c in tree_cases if c["kind"] == k) for k in ("int", "smallint", "float", "datetime")},
        "sizes": {str(n): sum(1 for c in tree_cases if len(c["ivs"]) == n) for n in sorted({len(c["ivs"]) for c in tree_cases})},
    }
    ctx.assumptions += ["stored intervals are closed and well formed (lo <= hi): hypothesis of every theorem, checked per case",
                        "float/datetime end points are handed to the model as integers in the same order (theorem rank_invariant)"]
    return ctx.finish(trusted_base=TRUSTED)


def replay(ctx, rec):
    case = rec["case"]
    if "ivs" in case:
        case["ivs"] = [tuple(x) for x in case["ivs"]]
        case["qs"] = [tuple(x) for x in case["qs"]]
        check_tree_cases(ctx, [case])
    else:
        for k in ("prim", "sec"):
            case[k] = [tuple(x) for x in case[k]]
        check_match_cases(ctx, [case])
    for f in ctx.failures:
        print("still fails:", f.what[:300])
    return 1 if ctx.failures else 0
